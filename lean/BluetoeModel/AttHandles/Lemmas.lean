import BluetoeModel.AttHandles.Model
/-!
  Helper lemmas for C04: the recursive handle mapping functions of Model.lean are related to the
  plain *list of handles in index order* (`servicesHandles`), on which monotonicity and the
  "first index with a handle ≥ h" specification are easy to state (`countP (· < h)`).
-/
namespace BluetoeModel.AttHandles

/-! ### well-formedness = the static_asserts of the templates + "no uint16 wrap" -/

/-- static_asserts of `attribute_handles< D, V, C >` -/
def CharHandles.WF : CharHandles → Prop
  | .triple d v c => d < v ∧ (c = 0 ∨ v < c)
  | _ => True

/-- static_assert of `characteristic_index_mapping` ("attribute_handle<> can only be used to create
    increasing attribute handles"), threaded through the characteristics of a service -/
def charsWF : Nat → List CharDecl → Prop
  | _, [] => True
  | sh, c :: cs =>
      c.handles.WF ∧ sh ≤ (selectHandles sh c.handles).decl ∧ charsWF (charEndHandle sh c) cs

/-- static_assert of `service_index_mapping`, threaded through the services -/
def servicesWF : Nat → List ServiceDecl → Prop
  | _, [] => True
  | sh, s :: ss =>
      sh ≤ svcHandle sh s ∧ charsWF (svcHandle sh s + 1) s.chars ∧ servicesWF (svcEndHandle sh s) ss

-- src: running StartHandle behind the last service
def servicesEndHandle : Nat → List ServiceDecl → Nat
  | sh, [] => sh
  | sh, s :: ss => servicesEndHandle (svcEndHandle sh s) ss

/-- no service uses `include_service<>` -/
def NoIncludes (d : ServerDecl) : Prop := ∀ s ∈ d, s.includes = []

/-- a declaration that compiles (static_asserts hold, at least one service) and whose handles fit
    into 16 bits without the `std::uint16_t` computations of the templates wrapping.
    `fits` (running end handle = last attribute handle + 1 ≤ 0xFFFF, i.e. last handle ≤ 0xFFFE) is
    NOT a legitimate precondition of the library: a declaration whose last attribute has handle
    0xFFFF compiles (g++ only warns -Woverflow), `end_handle` wraps to 0 and `first_index_by_handle`
    / `index_by_handle` become invalid for every handle behind the previous service.  Confirmed on
    the real code (harness/attdisc.cpp `topserver`), known findings `C02/C03:last-handle-0xffff:*`
    (docs/attdisc.md §0xFFFF); the theorems are about the declarations for which the mapping works. -/
structure ServerDecl.WF (d : ServerDecl) : Prop where
  nonempty : d ≠ []
  asserts  : servicesWF 1 d
  fits     : servicesEndHandle 1 d ≤ 0xFFFF

/-! ### the list of handles in index order -/

def upFrom : Nat → Nat → List Nat
  | _, 0 => []
  | a, m + 1 => a :: upFrom (a + 1) m

def charHandles (sh : Nat) (c : CharDecl) : List Nat :=
  (selectHandles sh c.handles).decl :: (selectHandles sh c.handles).value ::
    upFrom (selectHandles sh c.handles).cccd (c.nAttrs - 2)

def charsHandles : Nat → List CharDecl → List Nat
  | _, [] => []
  | sh, c :: cs => charHandles sh c ++ charsHandles (charEndHandle sh c) cs

def svcHandles (sh : Nat) (s : ServiceDecl) : List Nat :=
  svcHandle sh s :: charsHandles (svcHandle sh s + 1) s.chars

def servicesHandles : Nat → List ServiceDecl → List Nat
  | _, [] => []
  | sh, s :: ss => svcHandles sh s ++ servicesHandles (svcEndHandle sh s) ss

/-! ### upFrom -/

theorem length_upFrom (a m : Nat) : (upFrom a m).length = m := by
  induction m generalizing a with
  | zero => rfl
  | succ m ih => simp [upFrom, ih]

theorem mem_upFrom {a m x : Nat} : x ∈ upFrom a m ↔ a ≤ x ∧ x < a + m := by
  induction m generalizing a with
  | zero => simp [upFrom] <;> omega
  | succ m ih => simp only [upFrom, List.mem_cons, ih]; omega

theorem getElem?_upFrom (a m k : Nat) (h : k < m) : (upFrom a m)[k]? = some (a + k) := by
  induction m generalizing a k with
  | zero => omega
  | succ m ih =>
    cases k with
    | zero => simp [upFrom]
    | succ k =>
      simp only [upFrom, List.getElem?_cons_succ]
      rw [ih (a + 1) k (by omega)]; congr 1; omega

theorem pairwise_upFrom (a m : Nat) : (upFrom a m).Pairwise (· < ·) := by
  induction m generalizing a with
  | zero => exact List.Pairwise.nil
  | succ m ih =>
    simp only [upFrom, List.pairwise_cons]
    exact ⟨fun x hx => by have := (mem_upFrom.mp hx).1; omega, ih (a + 1)⟩

theorem countP_upFrom (a m h : Nat) :
    (upFrom a m).countP (fun x => decide (x < h)) = min m (h - a) := by
  induction m generalizing a with
  | zero => simp [upFrom]
  | succ m ih =>
    simp only [upFrom, List.countP_cons, ih]
    by_cases hh : a < h <;> simp [hh] <;> omega

/-! ### generic facts about ascending lists and `countP (· < h)` -/

theorem countP_eq_zero_of_le {l : List Nat} {h : Nat} (hl : ∀ x ∈ l, h ≤ x) :
    l.countP (fun x => decide (x < h)) = 0 := by
  rw [List.countP_eq_zero]
  intro x hx
  have := hl x hx
  simp; omega

theorem countP_eq_length_of_lt {l : List Nat} {h : Nat} (hl : ∀ x ∈ l, x < h) :
    l.countP (fun x => decide (x < h)) = l.length := by
  rw [List.countP_eq_length]
  intro x hx
  simp [hl x hx]

/-- in a strictly ascending list, the elements below `h` are exactly the first `countP (· < h)` -/
theorem lt_iff_lt_countP {l : List Nat} (hs : l.Pairwise (· < ·)) (h i : Nat) (x : Nat)
    (hx : l[i]? = some x) : x < h ↔ i < l.countP (fun y => decide (y < h)) := by
  induction l generalizing i with
  | nil => simp at hx
  | cons a l ih =>
    rw [List.pairwise_cons] at hs
    rw [List.countP_cons]
    cases i with
    | zero =>
      simp at hx; subst hx
      by_cases ha : a < h
      · simp [ha]
      · have : l.countP (fun y => decide (y < h)) = 0 :=
          countP_eq_zero_of_le (fun y hy => by have := hs.1 y hy; omega)
        simp [ha, this]
    | succ j =>
      simp only [List.getElem?_cons_succ] at hx
      have hmem : x ∈ l := List.mem_of_getElem? hx
      by_cases ha : a < h
      · simp only [ha, decide_true, if_true]
        rw [ih hs.2 j hx]; omega
      · have h0 : l.countP (fun y => decide (y < h)) = 0 :=
          countP_eq_zero_of_le (fun y hy => by have := hs.1 y hy; omega)
        have := hs.1 x hmem
        simp [ha, h0]; omega

/-! ### characteristic level -/

theorem length_charHandles (sh : Nat) (c : CharDecl) : (charHandles sh c).length = c.nAttrs := by
  have : 2 ≤ c.nAttrs := by unfold CharDecl.nAttrs; omega
  simp [charHandles, length_upFrom]; omega

theorem length_charsHandles (sh : Nat) (cs : List CharDecl) :
    (charsHandles sh cs).length = charsAttrs cs := by
  induction cs generalizing sh with
  | nil => rfl
  | cons c cs ih => simp [charsHandles, charsAttrs, length_charHandles, ih]

theorem two_le_nAttrs (c : CharDecl) : 2 ≤ c.nAttrs := by unfold CharDecl.nAttrs; omega

/-- `characteristic_attribute_handle_by_index` reads the handle list -/
theorem charHandleByIndex_eq (sh si : Nat) (c : CharDecl) (k : Nat) (hk : k < c.nAttrs) :
    (charHandles sh c)[k]? = some (charHandleByIndex sh si c (si + k)) := by
  have e : si + k - si = k := by omega
  unfold charHandleByIndex charHandles
  rw [e]
  match k, hk with
  | 0, _ => simp
  | 1, _ => simp
  | 2, hk =>
    simp only [List.getElem?_cons_succ]
    rw [getElem?_upFrom _ _ 0 (by omega)]; simp
  | k + 3, hk =>
    simp only [List.getElem?_cons_succ]
    rw [getElem?_upFrom _ _ (k + 1) (by omega)]; congr 1; omega

/-- the handles of one characteristic are strictly ascending and lie in `[sh, charEndHandle)` -/
theorem charHandles_sorted (sh : Nat) (c : CharDecl) (hw : c.handles.WF)
    (hs : sh ≤ (selectHandles sh c.handles).decl) :
    (charHandles sh c).Pairwise (· < ·) ∧
    (∀ x ∈ charHandles sh c, sh ≤ x ∧ x < charEndHandle sh c) ∧ sh < charEndHandle sh c := by
  have h2 := two_le_nAttrs c
  have hdv : (selectHandles sh c.handles).decl < (selectHandles sh c.handles).value ∧
      (selectHandles sh c.handles).value < (selectHandles sh c.handles).cccd := by
    cases hc : c.handles with
    | auto => simp [selectHandles]
    | start h => simp [selectHandles]
    | triple d v cc =>
      rw [hc] at hw
      simp only [CharHandles.WF] at hw
      simp only [selectHandles]
      by_cases h0 : cc = 0
      · simp [h0]; omega
      · simp [h0]; omega
  refine ⟨?_, ?_, ?_⟩
  · unfold charHandles
    simp only [List.pairwise_cons, List.mem_cons]
    refine ⟨?_, ?_, pairwise_upFrom _ _⟩
    · intro x hx
      rcases hx with rfl | hx
      · exact hdv.1
      · have := (mem_upFrom.mp hx).1; omega
    · intro x hx
      have := (mem_upFrom.mp hx).1; omega
  · intro x hx
    unfold charHandles at hx
    unfold charEndHandle
    simp only [List.mem_cons] at hx
    by_cases hn : c.nAttrs = 2
    · simp only [hn, if_true]
      rcases hx with rfl | rfl | hx
      · omega
      · omega
      · rw [hn] at hx; simp [upFrom] at hx
    · simp only [hn, if_false]
      rcases hx with rfl | rfl | hx
      · omega
      · omega
      · have := mem_upFrom.mp hx; omega
  · unfold charEndHandle
    by_cases hn : c.nAttrs = 2
    · simp only [hn, if_true]; omega
    · simp only [hn, if_false]; omega

/-- `characteristic_attribute_index_by_handle` counts the handles below `h` -/
theorem charIndexByHandle_eq (sh si : Nat) (c : CharDecl) (hw : c.handles.WF)
    (hs : sh ≤ (selectHandles sh c.handles).decl) (h : Nat) (hh : h < charEndHandle sh c) :
    charIndexByHandle sh si c h = si + (charHandles sh c).countP (fun x => decide (x < h)) := by
  have h2 := two_le_nAttrs c
  have hdv : (selectHandles sh c.handles).decl < (selectHandles sh c.handles).value ∧
      (selectHandles sh c.handles).value < (selectHandles sh c.handles).cccd := by
    cases hc : c.handles with
    | auto => simp [selectHandles]
    | start h => simp [selectHandles]
    | triple d v cc =>
      rw [hc] at hw
      simp only [CharHandles.WF] at hw
      simp only [selectHandles]
      by_cases h0 : cc = 0
      · simp [h0]; omega
      · simp [h0]; omega
  simp only [charEndHandle] at hh
  simp only [charIndexByHandle, charHandles, List.countP_cons, countP_upFrom]
  generalize (selectHandles sh c.handles).decl = D at *
  generalize (selectHandles sh c.handles).value = V at *
  generalize (selectHandles sh c.handles).cccd = C at *
  by_cases hn : c.nAttrs = 2
  · simp only [hn, if_true] at hh
    by_cases h1 : h ≤ D
    · have a1 : ¬ D < h := by omega
      have a2 : ¬ V < h := by omega
      simp [h1, a1, a2] <;> omega
    · have a1 : D < h := by omega
      have a2 : ¬ V < h := by omega
      have a3 : h ≤ V := by omega
      simp [h1, a1, a2, a3] <;> omega
  · simp only [hn, if_false] at hh
    by_cases h1 : h ≤ D
    · have a1 : ¬ D < h := by omega
      have a2 : ¬ V < h := by omega
      simp [h1, a1, a2] <;> omega
    · by_cases h2' : h ≤ V
      · have a1 : D < h := by omega
        have a2 : ¬ V < h := by omega
        simp [h1, h2', a1, a2] <;> omega
      · by_cases h3 : h ≤ C
        · have a1 : D < h := by omega
          have a2 : V < h := by omega
          simp [h1, h2', h3, a1, a2] <;> omega
        · have a1 : D < h := by omega
          have a2 : V < h := by omega
          simp [h1, h2', h3, a1, a2] <;> omega

theorem charsEnd_ge (sh : Nat) (cs : List CharDecl) (hw : charsWF sh cs) :
    sh ≤ charsEndHandle sh cs := by
  induction cs generalizing sh with
  | nil => simp [charsEndHandle]
  | cons c cs ih =>
    obtain ⟨h1, h2, h3⟩ := hw
    have := (charHandles_sorted sh c h1 h2).2.2
    have := ih _ h3
    simp only [charsEndHandle]; omega

/-- all characteristic handles of a service: ascending, inside `[sh, charsEndHandle)` -/
theorem charsHandles_sorted (sh : Nat) (cs : List CharDecl) (hw : charsWF sh cs) :
    (charsHandles sh cs).Pairwise (· < ·) ∧
    (∀ x ∈ charsHandles sh cs, sh ≤ x ∧ x < charsEndHandle sh cs) := by
  induction cs generalizing sh with
  | nil => simp [charsHandles]
  | cons c cs ih =>
    obtain ⟨h1, h2, h3⟩ := hw
    obtain ⟨p1, p2, p3⟩ := charHandles_sorted sh c h1 h2
    obtain ⟨q1, q2⟩ := ih _ h3
    have hge := charsEnd_ge _ cs h3
    simp only [charsHandles, charsEndHandle]
    refine ⟨?_, ?_⟩
    · rw [List.pairwise_append]
      refine ⟨p1, q1, ?_⟩
      intro x hx y hy
      have := (p2 x hx).2
      have := (q2 y hy).1
      omega
    · intro x hx
      rw [List.mem_append] at hx
      rcases hx with hx | hx
      · have := p2 x hx; omega
      · have := q2 x hx; omega

theorem charsHandleByIndex_eq (sh si : Nat) (cs : List CharDecl) (k : Nat) :
    charsHandleByIndex sh si cs (si + k) = ((charsHandles sh cs)[k]?).getD 0 := by
  induction cs generalizing sh si k with
  | nil => simp [charsHandleByIndex, charsHandles]
  | cons c cs ih =>
    simp only [charsHandleByIndex, charsHandles]
    by_cases hk : k < c.nAttrs
    · have : si + k < si + c.nAttrs := by omega
      rw [if_pos this, List.getElem?_append_left (by rw [length_charHandles]; exact hk),
        charHandleByIndex_eq sh si c k hk]
      rfl
    · have : ¬ si + k < si + c.nAttrs := by omega
      rw [if_neg this, List.getElem?_append_right (by rw [length_charHandles]; omega),
        length_charHandles]
      have e : si + k = (si + c.nAttrs) + (k - c.nAttrs) := by omega
      rw [e, ih]

theorem charsIndexByHandle_eq (sh si : Nat) (cs : List CharDecl) (hw : charsWF sh cs) (h : Nat) :
    charsIndexByHandle sh si cs h =
      (if (charsHandles sh cs).countP (fun x => decide (x < h)) < (charsHandles sh cs).length
       then some (si + (charsHandles sh cs).countP (fun x => decide (x < h))) else none) := by
  induction cs generalizing sh si with
  | nil => simp [charsIndexByHandle, charsHandles]
  | cons c cs ih =>
    obtain ⟨h1, h2, h3⟩ := hw
    obtain ⟨p1, p2, p3⟩ := charHandles_sorted sh c h1 h2
    simp only [charsIndexByHandle, charsHandles, List.countP_append, List.length_append]
    by_cases hh : h < charEndHandle sh c
    · rw [if_pos hh, charIndexByHandle_eq sh si c h1 h2 h hh]
      -- every later handle is ≥ charEndHandle > h
      have hz : (charsHandles (charEndHandle sh c) cs).countP (fun x => decide (x < h)) = 0 :=
        countP_eq_zero_of_le (fun y hy => by
          have := ((charsHandles_sorted _ cs h3).2 y hy).1; omega)
      -- the handle of this characteristic that is ≥ h exists: the count is below the length
      have hlt : (charHandles sh c).countP (fun x => decide (x < h)) < (charHandles sh c).length := by
        have hlast : ∃ x, (charHandles sh c)[c.nAttrs - 1]? = some x := by
          have : c.nAttrs - 1 < (charHandles sh c).length := by
            rw [length_charHandles]; have := two_le_nAttrs c; omega
          exact ⟨_, List.getElem?_eq_getElem this⟩
        obtain ⟨x, hx⟩ := hlast
        by_cases hxh : x < h
        · -- then h would be behind the last handle, i.e. ≥ charEndHandle: impossible
          exfalso
          have hxe : x + 1 = charEndHandle sh c := by
            have := charHandleByIndex_eq sh 0 c (c.nAttrs - 1) (by have := two_le_nAttrs c; omega)
            rw [hx] at this
            have hv := Option.some.inj this
            have h2' := two_le_nAttrs c
            unfold charHandleByIndex at hv
            unfold charEndHandle
            rw [hv]
            by_cases hn : c.nAttrs = 2
            · simp [hn]
            · simp only [hn, if_false]
              have : 0 + (c.nAttrs - 1) - 0 = (c.nAttrs - 3) + 2 := by omega
              rw [this]
              match hm : c.nAttrs - 3 with
              | 0 => simp; omega
              | m + 1 => simp; omega
          omega
        · have := (not_congr (lt_iff_lt_countP p1 h (c.nAttrs - 1) x hx)).mp hxh
          rw [length_charHandles]; have := two_le_nAttrs c; omega
      rw [hz, if_pos (by omega)]
      simp
    · rw [if_neg hh, ih _ _ h3]
      have hall : (charHandles sh c).countP (fun x => decide (x < h)) = (charHandles sh c).length :=
        countP_eq_length_of_lt (fun y hy => by have := (p2 y hy).2; omega)
      rw [hall, length_charHandles]
      by_cases hc : (charsHandles (charEndHandle sh c) cs).countP (fun x => decide (x < h))
          < (charsHandles (charEndHandle sh c) cs).length
      · rw [if_pos hc, if_pos (by omega)]; congr 1; omega
      · rw [if_neg hc, if_neg (by omega)]

/-! ### service level (declarations without include_service) -/

theorem length_svcHandles (sh : Nat) (s : ServiceDecl) (hi : s.includes = []) :
    (svcHandles sh s).length = s.nAttrs := by
  simp [svcHandles, length_charsHandles, ServiceDecl.nAttrs, ServiceDecl.nServiceAttrs, hi]; omega

theorem svcHandles_sorted (sh : Nat) (s : ServiceDecl) (hw : charsWF (svcHandle sh s + 1) s.chars) :
    (svcHandles sh s).Pairwise (· < ·) ∧
    (∀ x ∈ svcHandles sh s, svcHandle sh s ≤ x ∧ x < svcEndHandle sh s) ∧
    svcHandle sh s < svcEndHandle sh s := by
  obtain ⟨q1, q2⟩ := charsHandles_sorted _ s.chars hw
  have hge := charsEnd_ge _ s.chars hw
  unfold svcHandles svcEndHandle
  refine ⟨?_, ?_, by omega⟩
  · rw [List.pairwise_cons]
    exact ⟨fun x hx => by have := (q2 x hx).1; omega, q1⟩
  · intro x hx
    rw [List.mem_cons] at hx
    rcases hx with rfl | hx
    · omega
    · have := q2 x hx; omega

theorem svcHandleByIndex_eq (sh si : Nat) (s : ServiceDecl) (k : Nat) :
    svcHandleByIndex sh si s (si + k) = ((svcHandles sh s)[k]?).getD 0 := by
  unfold svcHandleByIndex svcHandles
  cases k with
  | zero => simp
  | succ k =>
    have : ¬ si + (k + 1) = si := by omega
    rw [if_neg this, List.getElem?_cons_succ]
    have e : si + (k + 1) = (si + 1) + k := by omega
    rw [e, charsHandleByIndex_eq]

theorem svcFirstIndexByHandle_eq (sh si : Nat) (s : ServiceDecl)
    (hw : charsWF (svcHandle sh s + 1) s.chars) (h : Nat) (hh : h < svcEndHandle sh s) :
    svcFirstIndexByHandle sh si s h =
      some (si + (svcHandles sh s).countP (fun x => decide (x < h))) ∧
    (svcHandles sh s).countP (fun x => decide (x < h)) < (svcHandles sh s).length := by
  unfold svcFirstIndexByHandle svcHandles
  rw [List.countP_cons]
  by_cases h1 : h ≤ svcHandle sh s
  · have a1 : ¬ svcHandle sh s < h := by omega
    have hz : (charsHandles (svcHandle sh s + 1) s.chars).countP (fun x => decide (x < h)) = 0 :=
      countP_eq_zero_of_le (fun y hy => by
        have := ((charsHandles_sorted _ s.chars hw).2 y hy).1; omega)
    simp [h1, a1, hz]
  · have a1 : svcHandle sh s < h := by omega
    rw [if_neg h1, charsIndexByHandle_eq _ _ _ hw]
    -- some characteristic handle is ≥ h because h < end handle = one behind the last handle
    have hlt : (charsHandles (svcHandle sh s + 1) s.chars).countP (fun x => decide (x < h))
        < (charsHandles (svcHandle sh s + 1) s.chars).length := by
      apply Nat.lt_of_le_of_ne (List.countP_le_length)
      intro heq
      -- all characteristic handles below h; but the last one is end - 1 ≥ h … use the end handle
      have hall : ∀ x ∈ charsHandles (svcHandle sh s + 1) s.chars, x < h := by
        have := List.countP_eq_length.mp heq
        intro x hx; simpa using this x hx
      exact absurd hall (charsEnd_reached _ _ hw h (by unfold svcEndHandle at hh; omega) (by omega))
    rw [if_pos hlt]
    simp only [a1, decide_true, if_true, List.length_cons]
    refine ⟨by congr 1; omega, by omega⟩
where
  /-- if `sh < h < charsEndHandle` then some handle of the characteristics is ≥ h -/
  charsEnd_reached (sh : Nat) (cs : List CharDecl) (hw : charsWF sh cs) (h : Nat)
      (hh : h < charsEndHandle sh cs) (hs : sh ≤ h) :
      ¬ ∀ x ∈ charsHandles sh cs, x < h := by
    induction cs generalizing sh with
    | nil => simp [charsEndHandle] at hh; omega
    | cons c cs ih =>
      obtain ⟨h1, h2, h3⟩ := hw
      intro hall
      simp only [charsHandles, List.mem_append] at hall
      simp only [charsEndHandle] at hh
      by_cases hc : h < charEndHandle sh c
      · -- the last handle of c is charEndHandle - 1 ≥ h
        have hk : c.nAttrs - 1 < c.nAttrs := by have := two_le_nAttrs c; omega
        have hx := charHandleByIndex_eq sh 0 c (c.nAttrs - 1) hk
        have hmem := List.mem_of_getElem? hx
        have hlt := hall _ (Or.inl hmem)
        have h2' := two_le_nAttrs c
        unfold charHandleByIndex at hlt
        unfold charEndHandle at hc
        by_cases hn : c.nAttrs = 2
        · simp [hn] at hlt hc; omega
        · simp only [hn, if_false] at hc
          have e : 0 + (c.nAttrs - 1) - 0 = (c.nAttrs - 3) + 2 := by omega
          rw [e] at hlt
          match hm : c.nAttrs - 3 with
          | 0 => rw [hm] at hlt; simp at hlt; omega
          | m + 1 => rw [hm] at hlt; simp at hlt; omega
      · exact ih _ h3 hh (by omega) (fun x hx => hall x (Or.inr hx))

/-! ### server level -/

theorem length_servicesHandles (sh : Nat) (ss : List ServiceDecl) (hi : ∀ s ∈ ss, s.includes = []) :
    (servicesHandles sh ss).length = nAttrs ss := by
  induction ss generalizing sh with
  | nil => rfl
  | cons s ss ih =>
    simp only [servicesHandles, nAttrs, List.length_append]
    rw [length_svcHandles sh s (hi s (by simp)), ih _ (fun t ht => hi t (by simp [ht]))]

theorem servicesEnd_ge (sh : Nat) (ss : List ServiceDecl) (hw : servicesWF sh ss) :
    sh ≤ servicesEndHandle sh ss := by
  induction ss generalizing sh with
  | nil => simp [servicesEndHandle]
  | cons s ss ih =>
    obtain ⟨h1, h2, h3⟩ := hw
    have := (svcHandles_sorted sh s h2).2.2
    have := ih _ h3
    simp only [servicesEndHandle]; omega

theorem servicesHandles_sorted (sh : Nat) (ss : List ServiceDecl) (hw : servicesWF sh ss) :
    (servicesHandles sh ss).Pairwise (· < ·) ∧
    (∀ x ∈ servicesHandles sh ss, sh ≤ x ∧ x < servicesEndHandle sh ss) := by
  induction ss generalizing sh with
  | nil => simp [servicesHandles]
  | cons s ss ih =>
    obtain ⟨h1, h2, h3⟩ := hw
    obtain ⟨p1, p2, p3⟩ := svcHandles_sorted sh s h2
    obtain ⟨q1, q2⟩ := ih _ h3
    have hge := servicesEnd_ge _ ss h3
    simp only [servicesHandles, servicesEndHandle]
    refine ⟨?_, ?_⟩
    · rw [List.pairwise_append]
      refine ⟨p1, q1, ?_⟩
      intro x hx y hy
      have := (p2 x hx).2
      have := (q2 y hy).1
      omega
    · intro x hx
      rw [List.mem_append] at hx
      rcases hx with hx | hx
      · have := p2 x hx; omega
      · have := q2 x hx; omega

theorem servicesHandleByIndex_eq (sh si : Nat) (ss : List ServiceDecl)
    (hi : ∀ s ∈ ss, s.includes = []) (k : Nat) :
    servicesHandleByIndex sh si ss (si + k) = ((servicesHandles sh ss)[k]?).getD 0 := by
  induction ss generalizing sh si k with
  | nil => simp [servicesHandleByIndex, servicesHandles]
  | cons s ss ih =>
    have hs := hi s (by simp)
    have hi' : ∀ t ∈ ss, t.includes = [] := fun t ht => hi t (by simp [ht])
    simp only [servicesHandleByIndex, servicesHandles]
    by_cases hk : k < s.nAttrs
    · have : si + k < si + s.nAttrs := by omega
      rw [if_pos this, List.getElem?_append_left (by rw [length_svcHandles sh s hs]; exact hk),
        svcHandleByIndex_eq]
    · have : ¬ si + k < si + s.nAttrs := by omega
      rw [if_neg this, List.getElem?_append_right (by rw [length_svcHandles sh s hs]; omega),
        length_svcHandles sh s hs]
      have e : si + k = (si + s.nAttrs) + (k - s.nAttrs) := by omega
      rw [e, ih _ _ hi']

theorem servicesFirstIndexByHandle_eq (sh si : Nat) (ss : List ServiceDecl)
    (hi : ∀ s ∈ ss, s.includes = []) (hw : servicesWF sh ss) (h : Nat) :
    servicesFirstIndexByHandle sh si ss h =
      (if (servicesHandles sh ss).countP (fun x => decide (x < h)) < (servicesHandles sh ss).length
       then some (si + (servicesHandles sh ss).countP (fun x => decide (x < h))) else none) := by
  induction ss generalizing sh si with
  | nil => simp [servicesFirstIndexByHandle, servicesHandles]
  | cons s ss ih =>
    have hs := hi s (by simp)
    have hi' : ∀ t ∈ ss, t.includes = [] := fun t ht => hi t (by simp [ht])
    obtain ⟨h1, h2, h3⟩ := hw
    obtain ⟨p1, p2, p3⟩ := svcHandles_sorted sh s h2
    simp only [servicesFirstIndexByHandle, servicesHandles, List.countP_append, List.length_append]
    by_cases hh : h < svcEndHandle sh s
    · obtain ⟨e1, e2⟩ := svcFirstIndexByHandle_eq sh si s h2 h hh
      have hz : (servicesHandles (svcEndHandle sh s) ss).countP (fun x => decide (x < h)) = 0 :=
        countP_eq_zero_of_le (fun y hy => by
          have := ((servicesHandles_sorted _ ss h3).2 y hy).1; omega)
      rw [if_pos hh, e1, hz, if_pos (by omega)]
      simp
    · rw [if_neg hh, ih _ _ hi' h3]
      have hall : (svcHandles sh s).countP (fun x => decide (x < h)) = (svcHandles sh s).length :=
        countP_eq_length_of_lt (fun y hy => by have := (p2 y hy).2; omega)
      rw [hall, length_svcHandles sh s hs]
      by_cases hc : (servicesHandles (svcEndHandle sh s) ss).countP (fun x => decide (x < h))
          < (servicesHandles (svcEndHandle sh s) ss).length
      · rw [if_pos hc, if_pos (by omega)]; congr 1; omega
      · rw [if_neg hc, if_neg (by omega)]

/-! ### `handles d` is the handle list -/

theorem handlesFrom_eq (d : ServerDecl) (l : List Nat)
    (hl : ∀ k, handleByIndex d k = (l[k]?).getD 0) (i n : Nat) (hn : i + n = l.length) :
    handlesFrom d i n = l.drop i := by
  induction n generalizing i with
  | zero =>
    simp only [handlesFrom]
    rw [List.drop_eq_nil_of_le (by omega)]
  | succ n ih =>
    simp only [handlesFrom]
    have hi : i < l.length := by omega
    rw [List.drop_eq_getElem_cons hi, ih (i + 1) (by omega), hl i, List.getElem?_eq_getElem hi]
    rfl

theorem handles_eq (d : ServerDecl) (hi : NoIncludes d) : handles d = servicesHandles 1 d := by
  unfold handles
  have hl : ∀ k, handleByIndex d k = ((servicesHandles 1 d)[k]?).getD 0 := by
    intro k
    have := servicesHandleByIndex_eq 1 0 d hi k
    simpa [handleByIndex] using this
  rw [handlesFrom_eq d _ hl 0 (nAttrs d) (by simp [length_servicesHandles 1 d hi])]
  simp

end BluetoeModel.AttHandles
