/-
  Model of the compile-time handle mapping of a GATT server and of the attribute table the
  service / characteristic templates generate.  A server *declaration* is a value (`ServerDecl`);
  every function mirrors one template of

    src: bluetoe/attribute_handle.hpp   (select_attribute_handles, characteristic_index_mapping,
         interate_characteristic_index_mappings, service_index_mapping,
         interate_service_index_mappings, handle_index_mapping)
    src: bluetoe/service.hpp            (service::attribute_at, service_handles, include / service
         declaration attributes)
    src: bluetoe/characteristic.hpp     (count_characteristic_attributes, attribute order,
         char_declaration_access)

  Handles are `Nat`; the C++ type is `std::uint16_t`.  `ServerDecl.WF` (Lemmas.lean) bounds every
  computed handle by 0xFFFF, so no template computation wraps (see docs/atthandles.md for the
  declarations this excludes).  Core Lean only.
-/
namespace BluetoeModel.AttHandles

/-- a 16 bit UUID or the 16 bytes (little endian) of a 128 bit UUID -/
inductive Uuid where
  | u16 (v : Nat)
  | u128 (bytes : List UInt8)
deriving Repr, DecidableEq

def lo (n : Nat) : UInt8 := UInt8.ofNat (n % 256)
def hi (n : Nat) : UInt8 := UInt8.ofNat (n / 256 % 256)

def Uuid.bytes : Uuid → List UInt8
  | .u16 v => [lo v, hi v]
  | .u128 b => b

def Uuid.is128 : Uuid → Bool
  | .u16 _ => false
  | .u128 _ => true

/-- the handle option of a characteristic -/
inductive CharHandles where
  | auto                       -- neither option
  | start (h : Nat)            -- attribute_handle< h >
  | triple (d v c : Nat)       -- attribute_handles< d, v, c >
deriving Repr, DecidableEq

structure CharDecl where
  uuid     : Uuid
  props    : Nat                           -- properties byte of the declaration
  handles  : CharHandles
  hasCccd  : Bool                          -- notify or indicate
  userDesc : Option (List UInt8)           -- characteristic_name<>
  descs    : List (Nat × List UInt8)       -- descriptor< uuid16, value, size >
  readable : Bool                          -- value readable on an unencrypted link
  value    : List UInt8                    -- what a read of the value attribute returns
deriving Repr, DecidableEq

structure ServiceDecl where
  uuid      : Uuid
  secondary : Bool                         -- is_secondary_service
  fixed     : Option Nat                   -- attribute_handle< h >
  includes  : List Uuid                    -- include_service< uuid >
  chars     : List CharDecl
deriving Repr, DecidableEq

abbrev ServerDecl := List ServiceDecl

/-! ### attribute counts -/

-- src: characteristic.hpp:count_characteristic_attributes
def CharDecl.nAttrs (c : CharDecl) : Nat :=
  2 + (if c.hasCccd then 1 else 0) + (if c.userDesc.isSome then 1 else 0) + c.descs.length

def charsAttrs : List CharDecl → Nat
  | [] => 0
  | c :: cs => c.nAttrs + charsAttrs cs

-- src: service.hpp:count_service_attributes (declaration + one attribute per include_service<>)
def ServiceDecl.nServiceAttrs (s : ServiceDecl) : Nat := 1 + s.includes.length

-- src: service.hpp:service::number_of_attributes
def ServiceDecl.nAttrs (s : ServiceDecl) : Nat := s.nServiceAttrs + charsAttrs s.chars

-- src: server.hpp:server::number_of_attributes
def nAttrs : ServerDecl → Nat
  | [] => 0
  | s :: ss => s.nAttrs + nAttrs ss

/-! ### characteristic level -/

structure HTriple where
  decl  : Nat
  value : Nat
  cccd  : Nat
deriving Repr, DecidableEq

-- src: attribute_handle.hpp:select_attribute_handles
def selectHandles (dflt : Nat) : CharHandles → HTriple
  | .auto => ⟨dflt, dflt + 1, dflt + 2⟩
  | .start h => ⟨h, h + 1, h + 2⟩
  | .triple d v c => ⟨d, v, if c = 0 then v + 1 else c⟩

-- src: characteristic_index_mapping::end_handle
def charEndHandle (sh : Nat) (c : CharDecl) : Nat :=
  let t := selectHandles sh c.handles
  if c.nAttrs = 2 then t.value + 1 else t.cccd + (c.nAttrs - 2)

-- src: characteristic_index_mapping::characteristic_attribute_handle_by_index
def charHandleByIndex (sh si : Nat) (c : CharDecl) (index : Nat) : Nat :=
  let t := selectHandles sh c.handles
  match index - si with
  | 0 => t.decl
  | 1 => t.value
  | 2 => t.cccd
  | r => r - 2 + t.cccd

-- src: characteristic_index_mapping::characteristic_attribute_index_by_handle
def charIndexByHandle (sh si : Nat) (c : CharDecl) (h : Nat) : Nat :=
  let t := selectHandles sh c.handles
  if h ≤ t.decl then si
  else if h ≤ t.value then si + 1
  else if h ≤ t.cccd then si + 2
  else si + 2 + h - t.cccd

-- src: interate_characteristic_index_mappings::attribute_handle_by_index (0 = invalid_attribute_handle)
def charsHandleByIndex : Nat → Nat → List CharDecl → Nat → Nat
  | _, _, [], _ => 0
  | sh, si, c :: cs, index =>
      if index < si + c.nAttrs then charHandleByIndex sh si c index
      else charsHandleByIndex (charEndHandle sh c) (si + c.nAttrs) cs index

-- src: interate_characteristic_index_mappings::attribute_index_by_handle (none = invalid_attribute_index)
def charsIndexByHandle : Nat → Nat → List CharDecl → Nat → Option Nat
  | _, _, [], _ => none
  | sh, si, c :: cs, h =>
      if h < charEndHandle sh c then some (charIndexByHandle sh si c h)
      else charsIndexByHandle (charEndHandle sh c) (si + c.nAttrs) cs h

-- src: interate_characteristic_index_mappings::last_characteristic_end_handle
def charsEndHandle : Nat → List CharDecl → Nat
  | sh, [] => sh
  | sh, c :: cs => charsEndHandle (charEndHandle sh c) cs

/-! ### service level -/

-- src: service_start_handle (attribute_handle< h > of the service, else the running handle)
def svcHandle (sh : Nat) (s : ServiceDecl) : Nat :=
  match s.fixed with
  | some h => h
  | none => sh

-- src: service_index_mapping::end_handle; `next_char_mapping` starts the characteristics at
-- service_handle + 1 / StartIndex + 1, i.e. it does NOT skip the include attributes
def svcEndHandle (sh : Nat) (s : ServiceDecl) : Nat := charsEndHandle (svcHandle sh s + 1) s.chars

-- src: service_index_mapping::characteristic_handle_by_index
def svcHandleByIndex (sh si : Nat) (s : ServiceDecl) (index : Nat) : Nat :=
  if index = si then svcHandle sh s
  else charsHandleByIndex (svcHandle sh s + 1) (si + 1) s.chars index

-- src: service_index_mapping::characteristic_first_index_by_handle
def svcFirstIndexByHandle (sh si : Nat) (s : ServiceDecl) (h : Nat) : Option Nat :=
  if h ≤ svcHandle sh s then some si
  else charsIndexByHandle (svcHandle sh s + 1) (si + 1) s.chars h

-- src: interate_service_index_mappings::service_handle_by_index
def servicesHandleByIndex : Nat → Nat → List ServiceDecl → Nat → Nat
  | _, _, [], _ => 0
  | sh, si, s :: ss, index =>
      if index < si + s.nAttrs then svcHandleByIndex sh si s index
      else servicesHandleByIndex (svcEndHandle sh s) (si + s.nAttrs) ss index

-- src: interate_service_index_mappings::service_first_index_by_handle
def servicesFirstIndexByHandle : Nat → Nat → List ServiceDecl → Nat → Option Nat
  | _, _, [], _ => none
  | sh, si, s :: ss, h =>
      if h < svcEndHandle sh s then svcFirstIndexByHandle sh si s h
      else servicesFirstIndexByHandle (svcEndHandle sh s) (si + s.nAttrs) ss h

/-! ### handle_index_mapping< server > -/

-- src: handle_index_mapping::handle_by_index
def handleByIndex (d : ServerDecl) (index : Nat) : Nat := servicesHandleByIndex 1 0 d index

-- src: handle_index_mapping::first_index_by_handle
def firstIndexByHandle (d : ServerDecl) (h : Nat) : Option Nat := servicesFirstIndexByHandle 1 0 d h

-- src: handle_index_mapping::index_by_handle
def indexByHandle (d : ServerDecl) (h : Nat) : Option Nat :=
  match firstIndexByHandle d h with
  | some i => if handleByIndex d i = h then some i else none
  | none => none

/-! ### access by handle -/

-- src: server.hpp:server::check_handle (common to Read, Read Blob, Write Request / Command and
-- Prepare Write): handle 0 and a handle without attribute are answered Invalid Handle (`none`),
-- otherwise the request is served by attribute_at( index_by_handle( handle ) )
def accessIndex (d : ServerDecl) (h : Nat) : Option Nat :=
  if h = 0 then none else indexByHandle d h

-- src: server.hpp:check_size_and_handle_range + handle_find_information_request for the range
-- h … h (h > 0): Attribute Not Found (`none`) when first_index_by_handle( h ) is invalid or its
-- handle lies behind h, otherwise the attribute at that index is listed
def findInfoIndex (d : ServerDecl) (h : Nat) : Option Nat :=
  match firstIndexByHandle d h with
  | some i => if handleByIndex d i > h then none else some i
  | none => none

/-! ### the attribute table -/

/-- what `attribute_at( index )` is, before values that depend on the index are rendered -/
inductive Proto where
  | svcDecl (s : ServiceDecl)
  | incl (u : Uuid)
  | charDecl (c : CharDecl)
  | charValue (c : CharDecl)
  | cccd
  | userDesc (text : List UInt8)
  | desc (uuid : Nat) (value : List UInt8)
deriving Repr, DecidableEq

-- src: characteristic.hpp:generate_characteristic_attributes (declaration, value, CCCD, user
-- description, descriptors — "the order of this list defines the order of the attributes")
def charProto (c : CharDecl) : List Proto :=
  .charDecl c :: .charValue c ::
    ((if c.hasCccd then [Proto.cccd] else []) ++
     (match c.userDesc with | some t => [Proto.userDesc t] | none => []) ++
     c.descs.map (fun p => Proto.desc p.1 p.2))

def charsProto : List CharDecl → List Proto
  | [] => []
  | c :: cs => charProto c ++ charsProto cs

-- src: service.hpp:service::attribute_at (declaration, includes, characteristics)
def svcProto (s : ServiceDecl) : List Proto :=
  .svcDecl s :: (s.includes.map Proto.incl ++ charsProto s.chars)

def protoAttrs : ServerDecl → List Proto
  | [] => []
  | s :: ss => svcProto s ++ protoAttrs ss

-- src: service.hpp:service_handles — first / last "handle" of the included service, computed by
-- summing number_of_attributes from 1 (fixed handles are NOT taken into account)
def includeHandles : Nat → List ServiceDecl → Uuid → Option (Nat × Nat)
  | _, [], _ => none                       -- static_assert: the included service must exist
  | h, s :: ss, u =>
      if s.uuid = u then some (h, h + s.nAttrs - 1) else includeHandles (h + s.nAttrs) ss u

/-- an attribute as a client sees it: type and the result of reading it (`none` = the read is
    refused) -/
structure Attr where
  uuid  : Uuid
  value : Option (List UInt8)
deriving Repr, DecidableEq

def uuidPrimary : Nat := 0x2800
def uuidSecondary : Nat := 0x2801
def uuidInclude : Nat := 0x2802
def uuidCharacteristic : Nat := 0x2803
def uuidUserDesc : Nat := 0x2901
def uuidCccd : Nat := 0x2902

/-- render the attribute at `index` -/
def render (d : ServerDecl) (index : Nat) : Proto → Attr
  -- src: service.hpp:generate_attribute< service_defintion_tag >
  | .svcDecl s => ⟨.u16 (if s.secondary then uuidSecondary else uuidPrimary), some s.uuid.bytes⟩
  -- src: service.hpp:generate_attribute< include_service< … > >
  | .incl u =>
      match includeHandles 1 d u with
      | some (a, b) => ⟨.u16 uuidInclude,
          some ([lo a, hi a, lo b, hi b] ++ (match u with | .u16 _ => u.bytes | .u128 _ => []))⟩
      | none => ⟨.u16 uuidInclude, none⟩
  -- src: characteristic.hpp:char_declaration_access (value handle = handle_by_index( index + 1 ))
  | .charDecl c =>
      let vh := handleByIndex d (index + 1)
      ⟨.u16 uuidCharacteristic, some ([UInt8.ofNat c.props, lo vh, hi vh] ++ c.uuid.bytes)⟩
  | .charValue c => ⟨c.uuid, if c.readable then some c.value else none⟩
  -- src: characteristic.hpp: CCCD read on a fresh connection
  | .cccd => ⟨.u16 uuidCccd, some [0, 0]⟩
  | .userDesc t => ⟨.u16 uuidUserDesc, some t⟩
  | .desc u v => ⟨.u16 u, some v⟩

def renderFrom (d : ServerDecl) : Nat → List Proto → List Attr
  | _, [] => []
  | i, p :: ps => render d i p :: renderFrom d (i + 1) ps

/-- `attribute_at( i )` for `i = 0 … number_of_attributes - 1` -/
def attrs (d : ServerDecl) : List Attr := renderFrom d 0 (protoAttrs d)

def handlesFrom (d : ServerDecl) : Nat → Nat → List Nat
  | _, 0 => []
  | i, n + 1 => handleByIndex d i :: handlesFrom d (i + 1) n

/-- `handle_by_index( i )` for `i = 0 … number_of_attributes - 1` -/
def handles (d : ServerDecl) : List Nat := handlesFrom d 0 (nAttrs d)

/-- the attribute table: (handle, attribute) in index order -/
def table (d : ServerDecl) : List (Nat × Attr) := (handles d).zip (attrs d)

end BluetoeModel.AttHandles
