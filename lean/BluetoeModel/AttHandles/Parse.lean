import BluetoeModel.Util.Proto
import BluetoeModel.AttHandles.Model
/-!
  Parser for the declaration value that the check hands to the model drivers (comp/attfamily.py
  `decl_tokens`; the same Python description generates the C++ server type):

    decl    := <nServices> service*
    service := svc <uuid> <secondary 0|1> <fixed|-> <nIncludes> <uuid>* <nChars> char*
    char    := chr <uuid> <props> <-|a:H|t:D:V:C> <cccd 0|1> <name hex|none> <nDesc> (<uuid16> <hex>)*
               <readable 0|1> <value hex>

  Not part of the model proper (no theorem talks about it); shared by Driver/AttHandles.lean and
  Driver/AttDiscovery.lean.
-/
namespace BluetoeModel.AttHandles
open BluetoeModel.Util

def parseUuid (s : String) : Option Uuid := do
  let b ← parseHex s
  match b with
  | [x, y] => some (.u16 (x.toNat + 256 * y.toNat))
  | _ => if b.length = 16 then some (.u128 b) else none

def parseCharHandles (s : String) : Option CharHandles :=
  if s == "-" then some .auto
  else match s.splitOn ":" with
    | ["a", h] => h.toNat?.map .start
    | ["t", d, v, c] => do some (.triple (← d.toNat?) (← v.toNat?) (← c.toNat?))
    | _ => none

def parseDescs : Nat → List String → Option (List (Nat × List UInt8) × List String)
  | 0, ts => some ([], ts)
  | n + 1, u :: v :: ts => do
      let ub ← parseHex u
      let vb ← parseHex v
      match ub with
      | [x, y] =>
          -- printed as four hex digits, most significant first
          let (r, ts') ← parseDescs n ts
          some ((x.toNat * 256 + y.toNat, vb) :: r, ts')
      | _ => none
  | _, _ => none

def parseChar : List String → Option (CharDecl × List String)
  | "chr" :: u :: props :: hs :: cccd :: name :: nd :: ts => do
      let uuid ← parseUuid u
      let p ← props.toNat?
      let h ← parseCharHandles hs
      let c ← parseBool cccd
      let ud ← if name == "none" then some none else (parseHex name).map some
      let n ← nd.toNat?
      let (ds, ts) ← parseDescs n ts
      match ts with
      | r :: v :: ts => do
          let rb ← parseBool r
          let vb ← parseHex v
          some ({ uuid := uuid, props := p, handles := h, hasCccd := c, userDesc := ud, descs := ds,
                  readable := rb, value := vb }, ts)
      | _ => none
  | _ => none

def parseChars : Nat → List String → Option (List CharDecl × List String)
  | 0, ts => some ([], ts)
  | n + 1, ts => do
      let (c, ts) ← parseChar ts
      let (cs, ts) ← parseChars n ts
      some (c :: cs, ts)

def parseUuids : Nat → List String → Option (List Uuid × List String)
  | 0, ts => some ([], ts)
  | n + 1, t :: ts => do
      let u ← parseUuid t
      let (us, ts) ← parseUuids n ts
      some (u :: us, ts)
  | _, _ => none

def parseService : List String → Option (ServiceDecl × List String)
  | "svc" :: u :: sec :: fx :: ni :: ts => do
      let uuid ← parseUuid u
      let s ← parseBool sec
      let f ← if fx == "-" then some none else fx.toNat?.map some
      let n ← ni.toNat?
      let (incs, ts) ← parseUuids n ts
      match ts with
      | nc :: ts => do
          let k ← nc.toNat?
          let (cs, ts) ← parseChars k ts
          some ({ uuid := uuid, secondary := s, fixed := f, includes := incs, chars := cs }, ts)
      | _ => none
  | _ => none

def parseServices : Nat → List String → Option (ServerDecl × List String)
  | 0, ts => some ([], ts)
  | n + 1, ts => do
      let (s, ts) ← parseService ts
      let (ss, ts) ← parseServices n ts
      some (s :: ss, ts)

def parseDecl : List String → Option ServerDecl
  | n :: ts => do
      let k ← n.toNat?
      let (d, rest) ← parseServices k ts
      if rest.isEmpty then some d else none
  | _ => none

def hex16 (n : Nat) : String := String.join [hexByte (hi n), hexByte (lo n)]

/-- the 16 bit value the C++ `attribute::uuid` holds (1 = internal_128bit_uuid) -/
def Uuid.attr16 : Uuid → Nat
  | .u16 v => v
  | .u128 _ => 1

/-- access result code and value as the harness prints them (2 = read_not_permitted) -/
def Attr.readStr (a : Attr) : String × String :=
  match a.value with
  | some v => ("0", toHex v)
  | none => ("2", "-")

end BluetoeModel.AttHandles
