// Correspondence harness for C23 / C22: drives the real
//   details::peripheral_latency_state< peripheral_latency_configuration< ... > >   (peripheral_latency.hpp)
//   delta_time (delta_time.cpp)
// Line protocol (one answer line per op):
//   cfg <n>      n = 0..31: option subset (bit0 listen_if_pending_transmit_data, bit1 .._unacknowledged_data,
//                bit2 .._last_received_not_empty, bit3 .._last_transmitted_not_empty, bit4 .._last_received_had_more_data),
//                n = 32: listen_always; new object + reset_connection_state()            -> ok
//   cfg 100|101|102   runtime switchable peripheral_latency_configuration_set<>:
//                100 = set< ignored, strict_plus >, 101 = set< strict, ignored, default >, 102 = set< strict, strict_plus >
//   select <k>   change_peripheral_latency< k-th configuration of the set >()                -> ok
//   reset                                                                               -> <state>
//   plan <latency> <evbits> <interval> <pending 0|1> <instant>                          -> <state>
//   timeout <interval>                                                                  -> <state>
//   resched <disarm-ok 0|1> <now> <interval>       -> <ret> <disarm calls> <pulled> <state>
//   hresched <disarm-ok 0|1> <permille> <interval>  honest radio: now = T + permille * ( planned - T ) / 1000 where T is the
//                time (since the anchor) of the last event that took place  -> <ret> <calls> <pulled> <state> <now>
//   ppm <usec> <part> | add a b | sub a b | mul a n | div a b      (delta_time)         -> number
//   <state> = channel_index event_counter time_since_last_event last_latency_|-
// A failing assert() answers "assert" and the object is dead ("dead") until the next cfg.
#include "common/proto.hpp"
#include <cassert>          // harness/connev/cassert: assert() throws verif_assert_failure
#include <memory>
#include <utility>
#include <tuple>
#include <type_traits>
#define private public
#define protected public
#include <bluetoe/delta_time.hpp>
#include <bluetoe/channel_map.hpp>
#include <bluetoe/meta_tools.hpp>
#include <bluetoe/peripheral_latency.hpp>
#undef private
#undef protected

namespace ll = bluetoe::link_layer;
using ll::delta_time;
using ll::peripheral_latency;

template < bool B, peripheral_latency O, class C > struct add_opt;
template < peripheral_latency O, peripheral_latency... Os >
struct add_opt< true, O, ll::peripheral_latency_configuration< Os... > > { typedef ll::peripheral_latency_configuration< O, Os... > type; };
template < peripheral_latency O, peripheral_latency... Os >
struct add_opt< false, O, ll::peripheral_latency_configuration< Os... > > { typedef ll::peripheral_latency_configuration< Os... > type; };

template < unsigned N >
struct config
{
    typedef typename add_opt< ( N & 1 ) != 0, peripheral_latency::listen_if_pending_transmit_data,
            typename add_opt< ( N & 2 ) != 0, peripheral_latency::listen_if_unacknowledged_data,
            typename add_opt< ( N & 4 ) != 0, peripheral_latency::listen_if_last_received_not_empty,
            typename add_opt< ( N & 8 ) != 0, peripheral_latency::listen_if_last_transmitted_not_empty,
            typename add_opt< ( N & 16 ) != 0, peripheral_latency::listen_if_last_received_had_more_data,
                ll::peripheral_latency_configuration<> >::type >::type >::type >::type >::type type;
};
template <> struct config< 32 > { typedef ll::peripheral_latency_ignored type; };

struct state_if
{
    virtual ~state_if() {}
    virtual void reset() = 0;
    virtual void plan( std::uint16_t latency, ll::connection_event_events e, delta_time interval, std::pair< bool, std::uint16_t > pending ) = 0;
    virtual void timeout( delta_time interval ) = 0;
    virtual bool resched( bool ok, delta_time now, delta_time interval, unsigned& calls, int& pulled ) = 0;
    virtual std::string state() const = 0;
    virtual unsigned long long time() const = 0;
    virtual bool select( unsigned ) { return false; }
};

template < class State, bool Disarmable >
struct last_latency_reader { static std::string get( const State& ) { return "-"; } };
template < class State >
struct last_latency_reader< State, true > { static std::string get( const State& s ) { return std::to_string( s.last_latency_ ); } };

template < unsigned N >
struct state_impl : state_if, ll::details::peripheral_latency_state< typename config< N >::type >
{
    typedef ll::details::peripheral_latency_state< typename config< N >::type > base;

    std::pair< bool, delta_time > disarm_result;
    unsigned disarm_calls;
    int      event_counter_before;

    state_impl() : disarm_result( false, delta_time() ), disarm_calls( 0 ) { base::reset_connection_state(); }

    std::pair< bool, delta_time > disarm_connection_event() { ++disarm_calls; return disarm_result; }

    void reset() override { base::reset_connection_state(); }
    void plan( std::uint16_t latency, ll::connection_event_events e, delta_time interval, std::pair< bool, std::uint16_t > pending ) override
    {
        base::plan_next_connection_event( latency, e, interval, pending );
    }
    void timeout( delta_time interval ) override { base::plan_next_connection_event_after_timeout( interval ); }
    bool resched( bool ok, delta_time now, delta_time interval, unsigned& calls, int& pulled ) override
    {
        disarm_result = std::make_pair( ok, now );
        disarm_calls  = 0;
        const std::uint16_t before = base::connection_event_counter();
        const bool result = base::reschedule_on_pending_data( *this, interval );
        calls  = disarm_calls;
        pulled = static_cast< std::uint16_t >( before - base::connection_event_counter() );
        return result;
    }
    unsigned long long time() const override { return base::time_since_last_event().usec(); }
    std::string state() const override
    {
        return std::to_string( base::current_channel_index() ) + " " + std::to_string( base::connection_event_counter() ) + " "
             + std::to_string( base::time_since_last_event().usec() ) + " "
             + last_latency_reader< base, ( N & 1 ) != 0 && N != 32 >::get( *this );
    }
};

// runtime switchable sets; the set always has the disarmable state (last_latency_)
template < typename... Cs >
struct set_impl : state_if, ll::details::peripheral_latency_state< ll::peripheral_latency_configuration_set< Cs... > >
{
    typedef ll::details::peripheral_latency_state< ll::peripheral_latency_configuration_set< Cs... > > base;

    std::pair< bool, delta_time > disarm_result;
    unsigned disarm_calls;

    set_impl() : disarm_result( false, delta_time() ), disarm_calls( 0 ) { base::reset_connection_state(); }

    std::pair< bool, delta_time > disarm_connection_event() { ++disarm_calls; return disarm_result; }

    void reset() override { base::reset_connection_state(); }
    void plan( std::uint16_t latency, ll::connection_event_events e, delta_time interval, std::pair< bool, std::uint16_t > pending ) override
    {
        base::plan_next_connection_event( latency, e, interval, pending );
    }
    void timeout( delta_time interval ) override { base::plan_next_connection_event_after_timeout( interval ); }
    bool resched( bool ok, delta_time now, delta_time interval, unsigned& calls, int& pulled ) override
    {
        disarm_result = std::make_pair( ok, now );
        disarm_calls  = 0;
        const std::uint16_t before = base::connection_event_counter();
        const bool result = base::reschedule_on_pending_data( *this, interval );
        calls  = disarm_calls;
        pulled = static_cast< std::uint16_t >( before - base::connection_event_counter() );
        return result;
    }
    unsigned long long time() const override { return base::time_since_last_event().usec(); }
    std::string state() const override
    {
        return std::to_string( base::current_channel_index() ) + " " + std::to_string( base::connection_event_counter() ) + " "
             + std::to_string( base::time_since_last_event().usec() ) + " " + std::to_string( this->last_latency_ );
    }

    template < unsigned K, typename... > struct sel { static bool apply( set_impl&, unsigned ) { return false; } };
    template < unsigned K, typename C, typename... Rest >
    struct sel< K, C, Rest... >
    {
        static bool apply( set_impl& self, unsigned k )
        {
            if ( k == K ) { self.template change_peripheral_latency< C >(); return true; }
            return sel< K + 1, Rest... >::apply( self, k );
        }
    };
    bool select( unsigned k ) override { return sel< 0, Cs... >::apply( *this, k ); }
};

typedef set_impl< ll::peripheral_latency_ignored, ll::peripheral_latency_strict_plus > set_100;
typedef set_impl< ll::peripheral_latency_strict, ll::peripheral_latency_ignored, ll::periperal_latency_default_configuration > set_101;
typedef set_impl< ll::peripheral_latency_strict, ll::peripheral_latency_strict_plus > set_102;

template < unsigned N >
struct factory { static state_if* make( unsigned n ) { return n == N ? new state_impl< N > : factory< N - 1 >::make( n ); } };
template <>
struct factory< 0 > { static state_if* make( unsigned n ) { return n == 0 ? new state_impl< 0 > : nullptr; } };

int main()
{
    std::unique_ptr< state_if > st;
    bool dead = true;
    unsigned long long last_event_time = 0;     // time since the anchor of the last event that took place

    return verif::line_loop( [&]( const std::vector< std::string >& w ) -> std::string {
        if ( w.empty() ) return "bad-op";
        std::vector< unsigned long long > a;
        for ( std::size_t i = 1; i < w.size(); ++i )
        {
            unsigned long long v = 0;
            if ( !verif::parse_u64( w[ i ], v ) || v > 0xffffffffull ) return "bad-op";
            a.push_back( v );
        }
        try
        {
            // ---- delta_time, stateless ----
            if ( w[ 0 ] == "ppm" && a.size() == 2 ) return std::to_string( delta_time( a[ 0 ] ).ppm( a[ 1 ] ).usec() );
            if ( w[ 0 ] == "add" && a.size() == 2 ) return std::to_string( ( delta_time( a[ 0 ] ) + delta_time( a[ 1 ] ) ).usec() );
            if ( w[ 0 ] == "sub" && a.size() == 2 ) return std::to_string( ( delta_time( a[ 0 ] ) - delta_time( a[ 1 ] ) ).usec() );
            if ( w[ 0 ] == "mul" && a.size() == 2 ) return std::to_string( ( delta_time( a[ 0 ] ) * static_cast< unsigned >( a[ 1 ] ) ).usec() );
            if ( w[ 0 ] == "div" && a.size() == 2 ) return std::to_string( delta_time( a[ 0 ] ) / delta_time( a[ 1 ] ) );

            if ( w[ 0 ] == "cfg" && a.size() == 1 && ( a[ 0 ] <= 32 || ( a[ 0 ] >= 100 && a[ 0 ] <= 102 ) ) )
            {
                if ( a[ 0 ] == 100 ) st.reset( new set_100 );
                else if ( a[ 0 ] == 101 ) st.reset( new set_101 );
                else if ( a[ 0 ] == 102 ) st.reset( new set_102 );
                else st.reset( factory< 32 >::make( a[ 0 ] ) );
                dead = false;
                last_event_time = 0;
                return "ok";
            }
            if ( dead || !st ) return "dead";
            if ( w[ 0 ] == "select" && a.size() == 1 ) return st->select( a[ 0 ] ) ? "ok" : "bad-op";
            if ( w[ 0 ] == "reset" && a.empty() ) { st->reset(); last_event_time = 0; return st->state(); }
            if ( w[ 0 ] == "plan" && a.size() == 5 && a[ 0 ] <= 0xffff && a[ 1 ] < 64 && a[ 3 ] < 2 && a[ 4 ] <= 0xffff )
            {
                const ll::connection_event_events e( a[ 1 ] & 1, a[ 1 ] & 2, a[ 1 ] & 4, a[ 1 ] & 8, a[ 1 ] & 16, a[ 1 ] & 32 );
                st->plan( a[ 0 ], e, delta_time( a[ 2 ] ), std::pair< bool, std::uint16_t >( a[ 3 ] != 0, a[ 4 ] ) );
                last_event_time = 0;
                return st->state();
            }
            if ( w[ 0 ] == "timeout" && a.size() == 1 )
            {
                const unsigned long long planned = st->time();
                st->timeout( delta_time( a[ 0 ] ) );
                last_event_time = planned;
                return st->state();
            }
            if ( w[ 0 ] == "hresched" && a.size() == 3 && a[ 0 ] < 2 && a[ 1 ] <= 1000 )
            {
                const unsigned long long planned = st->time();
                const unsigned long long now = planned >= last_event_time
                    ? last_event_time + a[ 1 ] * ( planned - last_event_time ) / 1000 : last_event_time;
                unsigned calls = 0;
                int pulled = 0;
                const bool r = st->resched( a[ 0 ] != 0, delta_time( now ), delta_time( a[ 2 ] ), calls, pulled );
                return std::string( r ? "1 " : "0 " ) + std::to_string( calls ) + " " + std::to_string( pulled ) + " " + st->state() + " " + std::to_string( now );
            }
            if ( w[ 0 ] == "resched" && a.size() == 3 && a[ 0 ] < 2 )
            {
                unsigned calls = 0;
                int pulled = 0;
                const bool r = st->resched( a[ 0 ] != 0, delta_time( a[ 1 ] ), delta_time( a[ 2 ] ), calls, pulled );
                return std::string( r ? "1 " : "0 " ) + std::to_string( calls ) + " " + std::to_string( pulled ) + " " + st->state();
            }
        }
        catch ( const verif_assert_failure& )
        {
            // a failed assert inside the stateless delta_time operations does not touch the object
            if ( w[ 0 ] != "ppm" && w[ 0 ] != "add" && w[ 0 ] != "sub" && w[ 0 ] != "mul" && w[ 0 ] != "div" )
                dead = true;
            return "assert";
        }
        return "bad-op";
    } );
}
