// Correspondence harness for the scan request half of C25: the REAL radio ISR of the nRF52 binding
// (bluetoe/bindings/nordic/nrf52/include/bluetoe/nrf52.hpp: nrf52_radio_base::schedule_advertisment,
// radio_interrupt_handler, is_valid_scan_request) built on the host.  nrf52_radio<> takes the hardware
// access as a template parameter (`Hardware`, in production radio_hardware_without_crypto_support
// whose functions live in nrf52.cpp and touch the peripherals); here `host_hw` records the calls.
// <nrf.h> is harness/adv/nrf_stub/nrf.h (plain memory; only needed to compile nrf.hpp / nrf52.hpp).
// The advertising / scan response PDUs handed to the radio are built by the REAL advertiser classes of
// advertising.hpp, the scan filter is the REAL white_list<4>.
//
//   reset <cfg>    0: connectable undirected  5: directed  6: scannable undirected  7: non-connectable
//   local a | direct a | scanfilter b | wladd a | wlremove a
//   llstart        handle_start_advertising -> nrf52 schedule_advertisment
//   nrfscan <hex>  radio interrupt "advertising PDU sent" (-> receiving), the PDU is placed in the zeroed
//                  receive buffer with valid CRC, radio interrupt "PDU received":
//                  `n=1` the ISR configured the transmission of the scan response
//                  `n=0` the PDU is handed to the link layer (adv_received_), no answer
//                  `n=idle` nothing was scheduled;   afterwards the next advertising PDU is scheduled
#include "common/proto.hpp"
#include <iterator>
#include <algorithm>
#include <cstring>
#include <cassert>
#include <memory>
#include <tuple>

#define private public
#define protected public
#include <bluetoe/nrf52.hpp>
#undef private
#undef protected
#include <bluetoe/advertising.hpp>
#include <bluetoe/white_list.hpp>

using namespace bluetoe::link_layer;

namespace {

struct host_hw
{
    static bool final_transmit;
    static bool radio_stopped;

    struct lock_guard {};

    static int  pdu_gap_required_by_encryption() { return 0; }
    static void init( void (*)( void* ), void* ) {}
    static void configure_radio_channel( unsigned ) {}
    static void configure_transmit_train( const write_buffer& ) {}
    static void configure_final_transmit( const write_buffer& ) { final_transmit = true; }
    static void configure_receive_train( const read_buffer& ) {}
    static void stop_radio() { radio_stopped = true; }
    static void store_timer_anchor( int ) {}
    static std::tuple< bool, bool, bool > received_pdu() { return std::tuple< bool, bool, bool >( true, true, true ); }
    static std::uint32_t now() { return 0; }
    static void setup_identity_resolving( const std::uint8_t* ) {}
    static bool resolving_address_invalid() { return false; }
    static void set_access_address_and_crc_init( std::uint32_t, std::uint32_t ) {}
    static bool schedule_advertisment_event_timer( delta_time, std::uint32_t, std::uint32_t ) { return false; }
    static void schedule_connection_event_timer( std::uint32_t, std::uint32_t, std::uint32_t ) {}
    static std::pair< bool, std::uint32_t > can_stop_connection_event_timer( std::uint32_t ) { return std::pair< bool, std::uint32_t >( false, 0 ); }
    static void stop_timeout_timer() {}
    static std::uint32_t static_random_address_seed() { return 0x47110815; }
    static bool schedule_user_timer( void (*)( void* ), std::uint32_t, std::uint32_t ) { return false; }
    static bool stop_user_timer() { return false; }
    static bool user_timer_anchor_moved() { return false; }
};

bool host_hw::final_transmit = false;
bool host_hw::radio_stopped  = false;

}

// the registers named by nrf.hpp (never touched by the code under test)
NRF_RNG_Type    verif_nrf_rng;
NRF_ECB_Type    verif_nrf_ecb;
NRF_CLOCK_Type  verif_nrf_clock;
NRF_RTC_Type    verif_nrf_rtc0;
NRF_RADIO_Type  verif_nrf_radio;
NRF_TIMER_Type  verif_nrf_timer0, verif_nrf_timer1;
NRF_TEMP_Type   verif_nrf_temp;
NRF_CCM_Type    verif_nrf_ccm;
NRF_AAR_Type    verif_nrf_aar;
NRF_PPI_Type    verif_nrf_ppi;
NRF_GPIOTE_Type verif_nrf_gpiote;
NVIC_Type       verif_nrf_nvic;

namespace {

struct host_clock
{
    using meta_type = bluetoe::nrf::nrf_details::sleep_clock_source_meta_type;
    static void start_clocks() {}
    static void stop_high_frequency_crystal_oscilator() {}
};

device_address make_addr( unsigned long long a )
{
    const bool random = a & 1;
    a >>= 1;
    std::uint8_t b[ 6 ];
    for ( int i = 0; i != 6; ++i )
        b[ i ] = ( a >> ( 8 * i ) ) & 0xff;
    return device_address( b, random );
}

template < typename ... Options >
struct nrf_ll :
    details::select_advertiser_implementation< nrf_ll< Options... >, Options... >,
    bluetoe::nrf52_details::nrf52_radio< 61, 61, false, nrf_ll< Options... >, host_hw, host_clock >,
    white_list< 4 >::template impl< bluetoe::nrf52_details::nrf52_radio< 61, 61, false, nrf_ll< Options... >, host_hw, host_clock >, nrf_ll< Options... > >
{
    typedef bluetoe::nrf52_details::nrf52_radio< 61, 61, false, nrf_ll< Options... >, host_hw, host_clock > radio_t;

    nrf_ll() : address_( make_addr( 2 * 0xc0ffee112233ull + 1 ) )
    {
        buffer_.reset( new std::uint8_t[ this->maximum_required_advertising_buffer() ] );
        std::memset( buffer_.get(), 0, this->maximum_required_advertising_buffer() );
    }

    std::uint8_t* raw_pdu_buffer() { return buffer_.get(); }
    const device_address& local_address() const { return address_; }
    std::size_t fill_l2cap_advertising_data( std::uint8_t* b, std::size_t s ) { assert( s >= 3 ); b[ 0 ] = 2; b[ 1 ] = 1; b[ 2 ] = 6; return 3; }
    std::size_t fill_l2cap_scan_response_data( std::uint8_t* b, std::size_t s ) { assert( s >= 2 ); b[ 0 ] = 0; b[ 1 ] = 0; return 2; }
    bool l2cap_adverting_data_or_scan_response_data_changed() { return false; }

    device_address address_;
    std::unique_ptr< std::uint8_t[] > buffer_;
};

struct iface
{
    virtual ~iface() {}
    virtual void llstart() = 0;
    virtual std::string nrfscan( const std::vector< std::uint8_t >& ) = 0;
    virtual void local( const device_address& ) = 0;
    virtual void scanfilter( bool ) = 0;
    virtual bool wladd( const device_address& ) = 0;
    virtual bool wlremove( const device_address& ) = 0;
    virtual bool direct( const device_address& ) { return false; }
};

template < class LL >
struct common : iface
{
    // nrf52_radio_base does not initialise state_ / adv_received_ / adv_timeout_ / ... in its constructor:
    // it relies on the zero initialisation of objects with static storage duration (how a link layer is
    // normally defined on the target).  The harness gives it zeroed, exactly sized heap memory.
    struct zeroed_delete { void operator()( LL* p ) const { p->~LL(); ::operator delete( static_cast< void* >( p ) ); } };
    std::unique_ptr< LL, zeroed_delete > ll;

    static LL* make_zeroed()
    {
        void* const mem = ::operator new( sizeof( LL ) );
        std::memset( mem, 0, sizeof( LL ) );
        return new ( mem ) LL;
    }

    common() : ll( make_zeroed() ) {}

    typedef typename LL::radio_t radio_t;

    bool scheduled() const { return ll->radio_t::state_ == radio_t::state::adv_transmitting; }

    void llstart() override { ll->handle_start_advertising(); }

    std::string nrfscan( const std::vector< std::uint8_t >& pdu ) override
    {
        if ( !scheduled() )
            return "n=idle";

        // RADIO DISABLED after the advertising PDU was sent: switch to receiving
        ll->radio_interrupt_handler();
        assert( ll->radio_t::state_ == radio_t::state::adv_receiving );

        read_buffer& rx = ll->receive_buffer_;
        if ( pdu.size() > rx.size )
            return "bad-op";
        std::memset( rx.buffer, 0, rx.size );
        std::copy( pdu.begin(), pdu.end(), rx.buffer );

        // RADIO DISABLED after a PDU with valid CRC was received
        host_hw::final_transmit = false;
        ll->radio_interrupt_handler();

        const bool answered = host_hw::final_transmit && ll->radio_t::state_ == radio_t::state::adv_transmitting_response;
        if ( answered )
            ll->radio_interrupt_handler();      // scan response sent

        assert( ll->radio_t::state_ == radio_t::state::idle );
        assert( answered ? ll->adv_timeout_ && !ll->adv_received_ : ll->adv_received_ && !ll->adv_timeout_ );

        // what run() does with the flags; both ways end in handle_adv_timeout() for a PDU that is no CONNECT_IND
        ll->adv_timeout_  = false;
        ll->adv_received_ = false;
        ll->handle_adv_timeout();

        return answered ? "n=1" : "n=0";
    }

    void local( const device_address& a ) override { ll->address_ = a; }
    void scanfilter( bool b ) override { ll->scan_request_filter( b ); }
    bool wladd( const device_address& a ) override { return ll->add_to_white_list( a ); }
    bool wlremove( const device_address& a ) override { return ll->remove_from_white_list( a ); }
};

template < class Base > struct with_direct : Base
{
    bool direct( const device_address& a ) override { this->ll->directed_advertising_address( a ); return true; }
};

std::unique_ptr< iface > make( unsigned long long cfg )
{
    switch ( cfg )
    {
    case 0: return std::unique_ptr< iface >( new common< nrf_ll<> > );
    case 5: return std::unique_ptr< iface >( new with_direct< common< nrf_ll< connectable_directed_advertising > > > );
    case 6: return std::unique_ptr< iface >( new common< nrf_ll< scannable_undirected_advertising > > );
    case 7: return std::unique_ptr< iface >( new common< nrf_ll< non_connectable_undirected_advertising > > );
    }
    return std::unique_ptr< iface >();
}

}

int main()
{
    std::unique_ptr< iface > a = make( 0 );
    return verif::line_loop( [&]( const std::vector< std::string >& w ) -> std::string {
        if ( w.empty() ) return "bad-op";
        unsigned long long v = 0;
        const bool has_arg = w.size() == 2 && verif::parse_u64( w[ 1 ], v );
        const std::string& op = w[ 0 ];
        if ( op == "reset" && has_arg ) { auto n = make( v ); if ( !n ) return "bad-op"; a = std::move( n ); return "ok"; }
        if ( op == "llstart" && w.size() == 1 ) { a->llstart(); return "ok"; }
        if ( op == "local" && has_arg ) { a->local( make_addr( v ) ); return "ok"; }
        if ( op == "direct" && has_arg ) return a->direct( make_addr( v ) ) ? "ok" : "bad-op";
        if ( op == "scanfilter" && has_arg && v < 2 ) { a->scanfilter( v ); return "ok"; }
        if ( op == "wladd" && has_arg ) return a->wladd( make_addr( v ) ) ? "1" : "0";
        if ( op == "wlremove" && has_arg ) return a->wlremove( make_addr( v ) ) ? "1" : "0";
        if ( op == "nrfscan" && w.size() == 2 )
        {
            std::vector< std::uint8_t > pdu;
            if ( !verif::parse_hex( w[ 1 ], pdu ) || pdu.size() < 2 ) return "bad-op";
            return a->nrfscan( pdu );
        }
        return "bad-op";
    } );
}
