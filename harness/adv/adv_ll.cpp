// Correspondence harness for C25 on the REAL bluetoe::link_layer::link_layer<> driven on
// tests/test_tools/test_radio (harness/adv.cpp drives handle_adv_receive through a mock link layer).
// The op language is the one of harness/adv.cpp / lean/Driver/Adv.lean, so the same sessions run on
// the Lean model:
//
//   reset <cfg>    0: link_layer< server, test::radio, white_list<4> >   (connectable undirected)
//                  1: + variable_advertising_channel_map, variable_advertising_interval, no_auto_start_advertising
//                  4: as 1 with undirected + directed + scannable + non-connectable (change_advertising)
//                  5: connectable_directed_advertising   6: scannable_undirected_advertising
//                  7: non_connectable_undirected_advertising        (all with white_list<4>)
//   llstart        state initial: start_advertising_impl() (first action of link_layer::run()); state connecting /
//                  connected: the central stays silent until the link layer gives up and advertises again
//   llstop         no-op (the link layer calls handle_stop_advertising itself when it accepts a CONNECT_IND)
//   start | startn n | direct a | change t | local a | filter b | scanfilter b | wladd a | wlremove a
//   timeout        one advertising PDU without response (radio callback adv_timeout)
//   recv <hex>     the PDU (2 octet header + body, over-the-air format) is received in response to the
//                  scheduled advertising PDU (radio callback adv_received through copy_air_to_memory)
// output of recv: `acc <initiator>` if the link layer left state advertising (connection entered; the
// initiator is what connection_callbacks::ll_connection_requested reports), `rej <sched>` if it
// still advertises, `idle` if no advertising PDU was scheduled (nothing can be received).
#include "common/proto.hpp"
#include <iterator>
#include <algorithm>
#include <cstring>
#include <cassert>
#include <vector>
#include <functional>
#include <iosfwd>
#include <initializer_list>
#include <iostream>
#include <sstream>
#include <memory>
#include <set>
#include <map>
#include <tuple>
#include <utility>
#include <type_traits>
#include <atomic>
#include <array>
#include <limits>
#include <string>
#include <numeric>
#include <random>
#include <chrono>
#include <ostream>
#include <iomanip>

#define private public
#define protected public
#include <bluetoe/link_layer.hpp>
#include <bluetoe/server.hpp>
#include <bluetoe/white_list.hpp>
#include "tests/test_tools/test_radio.hpp"
#undef private
#undef protected

using namespace bluetoe::link_layer;

namespace {

unsigned long long addr_num( const device_address& a )
{
    unsigned long long r = 0;
    int i = 0;
    for ( auto p = a.begin(); p != a.end(); ++p, ++i )
        r |= static_cast< unsigned long long >( *p ) << ( 8 * i );
    return r * 2 + ( a.is_random() ? 1 : 0 );
}

device_address make_addr( unsigned long long a )
{
    const bool random = a & 1;
    a >>= 1;
    std::uint8_t b[ 6 ];
    for ( int i = 0; i != 6; ++i )
        b[ i ] = ( a >> ( 8 * i ) ) & 0xff;
    return device_address( b, random );
}

bool               requested = false;
unsigned long long requested_remote = 0;

struct callbacks_t
{
    template < typename ConnectionData >
    void ll_connection_requested( const connection_details&, const connection_addresses& a, const ConnectionData& )
    {
        requested        = true;
        requested_remote = addr_num( a.remote_address() );
    }
} callbacks_obj;

std::uint16_t value = 0x0815;

using server_t = bluetoe::server<
    bluetoe::service<
        bluetoe::service_uuid< 0x8C8B4094, 0x0DE2, 0x499F, 0xA28A, 0x4EED5BC73CA9 >,
        bluetoe::characteristic<
            bluetoe::characteristic_uuid< 0x8C8B4094, 0x0DE2, 0x499F, 0xA28A, 0x4EED5BC73CAA >,
            bluetoe::bind_characteristic_value< decltype( value ), &value >,
            bluetoe::no_write_access
        >
    >
>;

using cb_option = connection_callbacks< callbacks_t, callbacks_obj >;

template < typename ... Options >
using ll_t = link_layer< server_t, test::radio, white_list< 4 >, cb_option, test::buffer_sizes, Options... >;

typedef ll_t<> ll0;
typedef ll_t< variable_advertising_channel_map, variable_advertising_interval, no_auto_start_advertising > ll1;
typedef ll_t< variable_advertising_channel_map, variable_advertising_interval, no_auto_start_advertising,
    connectable_undirected_advertising, connectable_directed_advertising,
    scannable_undirected_advertising, non_connectable_undirected_advertising > ll4;
typedef ll_t< connectable_directed_advertising > ll5;
typedef ll_t< scannable_undirected_advertising > ll6;
typedef ll_t< non_connectable_undirected_advertising > ll7;

struct iface
{
    virtual ~iface() {}
    virtual std::string llstart() = 0;
    virtual std::string timeout() = 0;
    virtual std::string recv( const std::vector< std::uint8_t >& ) = 0;
    virtual void local( const device_address& ) = 0;
    virtual void filter( bool ) = 0;
    virtual void scanfilter( bool ) = 0;
    virtual bool wladd( const device_address& ) = 0;
    virtual bool wlremove( const device_address& ) = 0;
    virtual bool start( std::string& ) { return false; }
    virtual bool startn( unsigned, std::string& ) { return false; }
    virtual bool direct( const device_address&, std::string& ) { return false; }
    virtual bool change( unsigned ) { return false; }
};

template < class LL >
struct common : iface
{
    // exactly sized heap block: ASan sees every access outside the link layer object
    std::unique_ptr< LL > ll;
    std::size_t           seen;

    common() : ll( new LL ), seen( 0 )
    {
        ll->local_address( make_addr( 2 * 0xc0ffee112233ull + 1 ) );
    }

    bool advertising() const { return ll->state_ == LL::state::advertising; }

    // what was handed to the radio since the last call: `s <channel> <delay> t<advertising PDU type>` or `-`
    std::string sched()
    {
        if ( ll->advertised_data_.size() > seen && ll->advertising_response_ )
        {
            const auto& d = ll->advertised_data_.back();
            seen = ll->advertised_data_.size();
            // + the type of the advertising PDU on air (lower 4 bits of the transmitted header)
            return "s " + std::to_string( d.channel ) + " " + std::to_string( d.transmision_time.usec() )
                + " t" + std::to_string( d.transmitted_data.empty() ? 15u : unsigned( d.transmitted_data[ 0 ] & 0x0f ) );
        }
        seen = ll->advertised_data_.size();
        return "-";
    }

    void trim()
    {
        if ( ll->advertised_data_.size() > 8 )
        {
            ll->advertised_data_.erase( ll->advertised_data_.begin(), ll->advertised_data_.end() - 2 );
            seen = ll->advertised_data_.size();
        }
        if ( ll->connection_events_.size() > 8 )
            ll->connection_events_.erase( ll->connection_events_.begin(), ll->connection_events_.end() - 2 );
    }

    void step()
    {
        if ( ll->advertising_response_ )
        {
            ll->advertising_response_ = false;
            ll->simulate_advertising_response();
        }
        else if ( ll->connection_event_response_ )
        {
            ll->connection_event_response_ = false;
            ll->simulate_connection_event_response();
        }
    }

    std::string llstart() override
    {
        if ( ll->state_ == LL::state::initial )
        {
            // what link_layer::run() does before it enters the radio's simulation loop
            ll->start_advertising_impl();
            return sched();
        }
        if ( advertising() )
            return "bad-op";

        // connection made: the central never shows up, the link layer gives up and advertises again
        for ( int i = 0; i != 200 && !advertising(); ++i )
        {
            ll->connection_events_response_.clear();
            ll->add_connection_event_respond_timeout();
            if ( !ll->connection_event_response_ )
                break;
            step();
        }
        if ( !advertising() )
            return "still-connected";
        const std::string r = sched();
        trim();
        return r;
    }

    std::string timeout() override
    {
        if ( !advertising() || !ll->advertising_response_ )
            return "-";
        ll->responders_.clear();
        step();
        const std::string r = sched();
        trim();
        return r;
    }

    std::string recv( const std::vector< std::uint8_t >& pdu ) override
    {
        if ( !advertising() || !ll->advertising_response_ )
            return "idle";

        requested = false;
        ll->responders_.clear();
        ll->respond_to( ll->advertised_data_.back().channel, pdu );
        step();
        ll->responders_.clear();

        if ( !advertising() )
            return "acc " + std::to_string( requested ? requested_remote : 0 );

        const std::string r = sched();
        trim();
        return "rej " + r;
    }

    void local( const device_address& a ) override { ll->local_address( a ); }
    void filter( bool b ) override { ll->connection_request_filter( b ); }
    void scanfilter( bool b ) override { ll->scan_request_filter( b ); }
    bool wladd( const device_address& a ) override { return ll->add_to_white_list( a ); }
    bool wlremove( const device_address& a ) override { return ll->remove_from_white_list( a ); }
};

template < class Base > struct with_start : Base
{
    bool start( std::string& out ) override { this->ll->start_advertising(); out = this->sched(); return true; }
    bool startn( unsigned n, std::string& out ) override { this->ll->start_advertising( n ); out = this->sched(); return true; }
};

template < class Base > struct with_direct : Base
{
    bool direct( const device_address& a, std::string& out ) override { this->ll->directed_advertising_address( a ); out = this->sched(); return true; }
};

template < class Base > struct with_change : Base
{
    bool change( unsigned t ) override
    {
        switch ( t )
        {
        case 0: this->ll->template change_advertising< connectable_undirected_advertising >(); return true;
        case 1: this->ll->template change_advertising< connectable_directed_advertising >(); return true;
        case 2: this->ll->template change_advertising< scannable_undirected_advertising >(); return true;
        case 3: this->ll->template change_advertising< non_connectable_undirected_advertising >(); return true;
        }
        return false;
    }
};

std::unique_ptr< iface > make( unsigned long long cfg )
{
    switch ( cfg )
    {
    case 0: return std::unique_ptr< iface >( new common< ll0 > );
    case 1: return std::unique_ptr< iface >( new with_start< common< ll1 > > );
    case 4: return std::unique_ptr< iface >( new with_change< with_direct< with_start< common< ll4 > > > > );
    case 5: return std::unique_ptr< iface >( new with_direct< common< ll5 > > );
    case 6: return std::unique_ptr< iface >( new common< ll6 > );
    case 7: return std::unique_ptr< iface >( new common< ll7 > );
    }
    return std::unique_ptr< iface >();
}

}

int main()
{
    std::unique_ptr< iface > a = make( 0 );
    return verif::line_loop( [&]( const std::vector< std::string >& w ) -> std::string {
        if ( w.empty() ) return "bad-op";
        unsigned long long v = 0;
        const bool has_arg = w.size() == 2 && verif::parse_u64( w[ 1 ], v );
        const std::string& op = w[ 0 ];
        std::string out;
        if ( op == "reset" && has_arg ) { auto n = make( v ); if ( !n ) return "bad-op"; a = std::move( n ); return "ok"; }
        if ( op == "start" && w.size() == 1 ) return a->start( out ) ? out : "bad-op";
        if ( op == "startn" && has_arg && v >= 1 && v <= 1000000 ) return a->startn( v, out ) ? out : "bad-op";
        if ( op == "change" && has_arg ) return a->change( v ) ? "ok" : "bad-op";
        if ( op == "direct" && has_arg ) return a->direct( make_addr( v ), out ) ? out : "bad-op";
        if ( op == "llstart" && w.size() == 1 ) return a->llstart();
        if ( op == "llstop" && w.size() == 1 ) return "ok";
        if ( op == "timeout" && w.size() == 1 ) return a->timeout();
        if ( op == "local" && has_arg ) { a->local( make_addr( v ) ); return "ok"; }
        if ( op == "filter" && has_arg && v < 2 ) { a->filter( v ); return "ok"; }
        if ( op == "scanfilter" && has_arg && v < 2 ) { a->scanfilter( v ); return "ok"; }
        if ( op == "wladd" && has_arg ) return a->wladd( make_addr( v ) ) ? "1" : "0";
        if ( op == "wlremove" && has_arg ) return a->wlremove( make_addr( v ) ) ? "1" : "0";
        if ( op == "recv" && w.size() == 2 )
        {
            std::vector< std::uint8_t > pdu;
            // the receive buffer of the advertiser has room for a 34 octet body (the test radio copies
            // min( length field, octets on air ) octets into it)
            if ( !verif::parse_hex( w[ 1 ], pdu ) || pdu.size() < 2 || pdu.size() > 36 ) return "bad-op";
            return a->recv( pdu );
        }
        return "bad-op";
    } );
}
