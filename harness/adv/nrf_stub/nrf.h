// Stand-in for Nordic's <nrf.h> to compile bluetoe/bindings/nordic/include/bluetoe/nrf.hpp and
// bluetoe/bindings/nordic/nrf52/include/bluetoe/nrf52.hpp on the host (verification harness
// harness/adv/nrf_scan.cpp only).  The code under test (nrf52_radio_base) reaches the hardware through
// its `Hardware` template parameter, which the harness replaces; the registers named here are plain
// memory and only exist so that the headers compile.  (Same approach as harness/crypto/nrf_stub.)
#ifndef VERIF_ADV_NRF_STUB_NRF_H
#define VERIF_ADV_NRF_STUB_NRF_H

#include <stdint.h>

#define __NVIC_PRIO_BITS 3

static inline uint32_t __get_PRIMASK( void ) { return 0; }
static inline void     __set_PRIMASK( uint32_t ) {}
static inline void     __disable_irq( void ) {}
static inline void     __enable_irq( void ) {}
static inline void     __WFI( void ) {}

struct NRF_RNG_Type    { volatile uint32_t TASKS_START, TASKS_STOP, EVENTS_VALRDY, VALUE; };
struct NRF_ECB_Type    { volatile uint32_t TASKS_STARTECB, TASKS_STOPECB, EVENTS_ENDECB, EVENTS_ERRORECB, ECBDATAPTR; };
struct NRF_CLOCK_Type  {
    volatile uint32_t TASKS_HFCLKSTART, TASKS_HFCLKSTOP, TASKS_LFCLKSTART, TASKS_LFCLKSTOP;
    volatile uint32_t EVENTS_HFCLKSTARTED, EVENTS_LFCLKSTARTED;
    volatile uint32_t LFCLKSRC;
};
struct NRF_RTC_Type    { volatile uint32_t TASKS_START, TASKS_STOP, EVTEN; };
struct NRF_RADIO_Type  { volatile uint32_t PACKETPTR; };
struct NRF_TIMER_Type  { volatile uint32_t dummy; };
struct NRF_TEMP_Type   { volatile uint32_t dummy; };
struct NRF_CCM_Type    { volatile uint32_t dummy; };
struct NRF_AAR_Type    { volatile uint32_t dummy; };
struct NRF_PPI_Type    { volatile uint32_t dummy; };
struct NRF_GPIOTE_Type { volatile uint32_t dummy; };
struct NVIC_Type       { volatile uint32_t dummy; };

extern NRF_RNG_Type    verif_nrf_rng;
extern NRF_ECB_Type    verif_nrf_ecb;
extern NRF_CLOCK_Type  verif_nrf_clock;
extern NRF_RTC_Type    verif_nrf_rtc0;
extern NRF_RADIO_Type  verif_nrf_radio;
extern NRF_TIMER_Type  verif_nrf_timer0, verif_nrf_timer1;
extern NRF_TEMP_Type   verif_nrf_temp;
extern NRF_CCM_Type    verif_nrf_ccm;
extern NRF_AAR_Type    verif_nrf_aar;
extern NRF_PPI_Type    verif_nrf_ppi;
extern NRF_GPIOTE_Type verif_nrf_gpiote;
extern NVIC_Type       verif_nrf_nvic;

#define NRF_RNG    ( &verif_nrf_rng )
#define NRF_ECB    ( &verif_nrf_ecb )
#define NRF_CLOCK  ( &verif_nrf_clock )
#define NRF_RTC0   ( &verif_nrf_rtc0 )
#define NRF_RADIO  ( &verif_nrf_radio )
#define NRF_TIMER0 ( &verif_nrf_timer0 )
#define NRF_TIMER1 ( &verif_nrf_timer1 )
#define NRF_TEMP   ( &verif_nrf_temp )
#define NRF_CCM    ( &verif_nrf_ccm )
#define NRF_AAR    ( &verif_nrf_aar )
#define NRF_PPI    ( &verif_nrf_ppi )
#define NRF_GPIOTE ( &verif_nrf_gpiote )
#define NVIC       ( &verif_nrf_nvic )

#define CLOCK_LFCLKSRCCOPY_SRC_Pos   0
#define CLOCK_LFCLKSRCCOPY_SRC_RC    0
#define CLOCK_LFCLKSRCCOPY_SRC_Xtal  1
#define CLOCK_LFCLKSRCCOPY_SRC_Synth 2
#define RTC_EVTEN_COMPARE0_Pos       16
#define RTC_EVTEN_COMPARE0_Enabled   1
#define RTC_EVTEN_COMPARE1_Pos       17
#define RTC_EVTEN_COMPARE1_Enabled   1
#define RTC_EVTEN_OVRFLW_Pos         1
#define RTC_EVTEN_OVRFLW_Enabled     1

#endif
