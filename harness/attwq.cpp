// Correspondence harness for C07: real bluetoe::server<> types that use shared_write_queue<S>
// (bluetoe/write_queue.hpp + the Prepare/Execute Write handlers and client_disconnected of
// bluetoe/server.hpp) with three connections. Line protocol and wrapper: attwq/att_wrapper.hpp
#include "attwq/att_wrapper.hpp"

namespace {
using namespace verif_att;

// ---- bound values -------------------------------------------------------------------------------
std::uint8_t       v4a[ 4 ], v4b[ 4 ], v2[ 2 ], v8[ 8 ], v20[ 20 ], v40[ 40 ], v1[ 1 ];
const std::uint8_t ro4[ 4 ] = { 0xc0, 0xc1, 0xc2, 0xc3 };

const char name_c[] = "CCC";

// W0: no write queue at all
using W0 = b::server<
    b::no_gap_service_for_gatt_servers, cbopt,
    b::service< b::service_uuid16< 0x1000 >,
        b::characteristic< cu< 0x2000 >, b::bind_characteristic_value< decltype( v4a ), &v4a > > > >;

// W1: 16 byte queue, two plain values
using W1 = b::server<
    b::no_gap_service_for_gatt_servers, cbopt, b::shared_write_queue< 16 >,
    b::service< b::service_uuid16< 0x1000 >,
        b::characteristic< cu< 0x2000 >, b::bind_characteristic_value< decltype( v4a ), &v4a > >,
        b::characteristic< cu< 0x2001 >, b::bind_characteristic_value< decltype( v20 ), &v20 > > > >;

// W2: 64 byte queue, long value, constant value, CCCD + user description, no_write_access value
using W2 = b::server<
    b::no_gap_service_for_gatt_servers, cbopt, b::shared_write_queue< 64 >,
    b::service< b::service_uuid16< 0x1000 >,
        b::characteristic< cu< 0x2000 >, b::bind_characteristic_value< decltype( v40 ), &v40 > >,
        b::characteristic< cu< 0x2001 >, b::bind_characteristic_value< decltype( ro4 ), &ro4 > >,
        b::characteristic< cu< 0x2002 >, b::bind_characteristic_value< decltype( v4a ), &v4a >, b::notify, b::characteristic_name< name_c > >,
        b::characteristic< cu< 0x2003 >, b::bind_characteristic_value< decltype( v2 ), &v2 >, b::no_write_access > > >;

// W3: 64 byte queue, MTU 65, encryption at characteristic and at service level, two services
using W3 = b::server<
    b::no_gap_service_for_gatt_servers, cbopt, b::shared_write_queue< 64 >, b::max_mtu_size< 65 >,
    b::service< b::service_uuid16< 0x1000 >,
        b::characteristic< cu< 0x2000 >, b::bind_characteristic_value< decltype( v8 ), &v8 >, b::requires_encryption >,
        b::characteristic< cu< 0x2001 >, b::bind_characteristic_value< decltype( v4a ), &v4a > > >,
    b::service< b::service_uuid16< 0x1001 >, b::requires_encryption,
        b::characteristic< cu< 0x2002 >, b::bind_characteristic_value< decltype( v20 ), &v20 >, b::notify, b::indicate >,
        b::characteristic< cu< 0x2003 >, b::bind_characteristic_value< decltype( v4b ), &v4b >, b::no_encryption_required > > >;

// W4: 142 byte queue (the documented size for a 100 byte object), server level encryption, five
// CCCDs (crossing the 4-per-byte packing boundary)
using W4 = b::server<
    b::no_gap_service_for_gatt_servers, cbopt, b::shared_write_queue< 142 >, b::requires_encryption,
    b::service< b::service_uuid16< 0x1000 >,
        b::characteristic< cu< 0x2000 >, b::bind_characteristic_value< decltype( v40 ), &v40 >, b::notify >,
        b::characteristic< cu< 0x2001 >, b::bind_characteristic_value< decltype( v4a ), &v4a >, b::indicate >,
        b::characteristic< cu< 0x2002 >, b::bind_characteristic_value< decltype( v4b ), &v4b >, b::notify, b::no_encryption_required >,
        b::characteristic< cu< 0x2003 >, b::bind_characteristic_value< decltype( v2 ), &v2 >, b::notify, b::indicate >,
        b::characteristic< cu< 0x2004 >, b::bind_characteristic_value< decltype( v1 ), &v1 >, b::notify > > >;

// W5: the smallest useful queue (7 = 2 length + 4 header + 1 data byte)
using W5 = b::server<
    b::no_gap_service_for_gatt_servers, cbopt, b::shared_write_queue< 7 >,
    b::service< b::service_uuid16< 0x1000 >,
        b::characteristic< cu< 0x2000 >, b::bind_characteristic_value< decltype( v2 ), &v2 > > > >;

// memory index order = the order of the v… entries in the python server table
const std::vector< named >& servers()
{
    static const std::vector< named > all = {
        { "W0", &make< W0 >, { rw( v4a, 4 ) } },
        { "W1", &make< W1 >, { rw( v4a, 4 ), rw( v20, 20 ) } },
        { "W2", &make< W2 >, { rw( v40, 40 ), ro( ro4, 4 ), rw( v4a, 4 ), rw( v2, 2 ) } },
        { "W3", &make< W3 >, { rw( v8, 8 ), rw( v4a, 4 ), rw( v20, 20 ), rw( v4b, 4 ) } },
        { "W4", &make< W4 >, { rw( v40, 40 ), rw( v4a, 4 ), rw( v4b, 4 ), rw( v2, 2 ), rw( v1, 1 ) } },
        { "W5", &make< W5 >, { rw( v2, 2 ) } },
    };
    return all;
}


}

int main()
{
    return run( servers() );
}
