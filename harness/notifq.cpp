// Correspondence harness for C11/C12/C13: drives the real bluetoe::notification_queue<> of
// bluetoe/notification_queue.hpp.
//   reset <cfg>        priority partition: 0=[1] 1=[2] 2=[5] 3=[1,1] 4=[1,3] 5=[3,1] 6=[4,4,1] 7=[1,2]
//   qn <i> | qi <i>    queue_notification / queue_indication          -> 0 | 1
//   deq                dequeue_indication_or_confirmation             -> e | n<i> | i<i>
//   conf | clear       indication_confirmed / clear_indications_and_confirmations -> ok
//   raw                private state: per level <queue_ bytes hex>/<next_>, then out=<0|1>
//   irq <qn|qi> <i>    C13: for EVERY instruction boundary k of one real dequeue call on (a copy of)
//                      the current state, run the call with an "interrupt" (SIGTRAP single step
//                      handler) that performs the producer call at boundary k; prints the sorted set
//                      of distinct outcomes  p<producer result>:<dequeue result>:<what a conf;deq
//                      drain finds afterwards>.  The queue is unchanged afterwards.
//   confpdu <hex>      C11: the bytes (first byte 1e) go through the real server::l2cap_input of a small
//                      server whose link-layer callback forwards `confirmation` to indication_confirmed()
//                      of the queue under test -> response PDU hex ("-" = none)
//   stress <n>         2 threads hammering the real queue (non deterministic; reported only)
#include "common/proto.hpp"
#include <tuple>
#include <memory>
#include <set>
#include <thread>
#include <atomic>
#include <csignal>
#include <ucontext.h>
#define private public
#include <bluetoe/notification_queue.hpp>
#undef private
#include <bluetoe/server.hpp>
#include <bluetoe/service.hpp>
#include <bluetoe/characteristic.hpp>

namespace d = bluetoe::details;
typedef std::pair< d::notification_queue_entry_type, std::size_t > entry_t;

static std::string entry_str( const entry_t& e )
{
    if ( e.first == d::notification_queue_entry_type::empty ) return "e";
    return ( e.first == d::notification_queue_entry_type::notification ? "n" : "i" ) + std::to_string( e.second );
}

struct queue_if
{
    virtual ~queue_if() {}
    virtual bool qn( std::size_t ) = 0;
    virtual bool qi( std::size_t ) = 0;
    virtual entry_t deq() = 0;
    virtual void conf() = 0;
    virtual void clear() = 0;
    virtual std::string raw() = 0;
    virtual std::string irq( bool indication, std::size_t idx ) = 0;
    virtual std::string stress( unsigned long long n ) = 0;
};

struct empty_mixin {};

template < int Size, int C >
static std::string level_str( d::notification_queue_impl< Size, C >& l )
{
    return verif::to_hex( l.queue_, sizeof( l.queue_ ) ) + "/" + std::to_string( l.next_ );
}

template < int C >
static std::string level_str( d::notification_queue_impl< 1, C >& l )
{
    const std::uint8_t b = static_cast< std::uint8_t >( static_cast< int >( l.state_ ) );
    return verif::to_hex( &b, 1 ) + "/0";
}

template < class Q, class Sizes, int C >
struct raw_printer;

template < class Q, int C >
struct raw_printer< Q, std::tuple<>, C >
{
    static void print( Q&, std::string& ) {}
};

template < class Q, int S, class ... Ts, int C >
struct raw_printer< Q, std::tuple< std::integral_constant< int, S >, Ts... >, C >
{
    static void print( Q& q, std::string& out )
    {
        out += level_str( ( d::notification_queue_impl< S, C >& )q ) + " ";
        raw_printer< Q, std::tuple< Ts... >, C + 1 >::print( q, out );
    }
};

// --- interrupt injection -----------------------------------------------------------------------
static queue_if*        irq_queue;
static volatile long    irq_count, irq_fire_at;
static volatile int     irq_tracing, irq_result, irq_indication;
static volatile std::size_t irq_index;

static void trap_handler( int, siginfo_t*, void* ctx )
{
#if defined( __x86_64__ )
    ucontext_t* uc = static_cast< ucontext_t* >( ctx );
    if ( !irq_tracing )
    {
        uc->uc_mcontext.gregs[ REG_EFL ] &= ~0x100L;
        return;
    }
    if ( irq_count == irq_fire_at )
    {
        irq_result = irq_indication ? irq_queue->qi( irq_index ) : irq_queue->qn( irq_index );
        // nothing left to do in this run: stop single stepping
        irq_tracing = 0;
        uc->uc_mcontext.gregs[ REG_EFL ] &= ~0x100L;
    }
    ++irq_count;
#endif
}

template < class Sizes >
struct wrapper : queue_if
{
    typedef bluetoe::notification_queue< Sizes, empty_mixin > queue_t;
    queue_t q;

    bool qn( std::size_t i ) override { return q.queue_notification( i ); }
    bool qi( std::size_t i ) override { return q.queue_indication( i ); }
    entry_t deq() override { return q.dequeue_indication_or_confirmation(); }
    void conf() override { q.indication_confirmed(); }
    void clear() override { q.clear_indications_and_confirmations(); }

    std::string raw() override
    {
        std::string out;
        raw_printer< queue_t, Sizes, 0 >::print( q, out );
        return out + ( q.outstanding_confirmation_index_ == d::no_outstanding_indicaton ? "out=0" : "out=1" );
    }

    std::string irq( bool indication, std::size_t idx ) override
    {
#if defined( __x86_64__ )
        const queue_t saved = q;
        std::set< std::string > outcomes;
        long total = -1;
        irq_queue = this; irq_indication = indication; irq_index = idx;
        // run -1 never fires and counts the instruction boundaries of the call
        for ( long k = -1; total < 0 || k < total; ++k )
        {
            q = saved;
            irq_count = 0; irq_fire_at = k; irq_result = -1; irq_tracing = 1;
            asm volatile( "pushfq; orq $0x100,(%%rsp); popfq" ::: "memory", "cc" );
            const entry_t r = q.dequeue_indication_or_confirmation();
            irq_tracing = 0;
            asm volatile( "nop" ::: "memory" );
            if ( total < 0 ) total = irq_count;
            if ( irq_result < 0 ) continue;   // boundary outside the call
            std::string rest;
            for ( int n = 0; n != 64; ++n )
            {
                q.indication_confirmed();
                const entry_t e = q.dequeue_indication_or_confirmation();
                if ( e.first == d::notification_queue_entry_type::empty ) break;
                rest += ( rest.empty() ? "" : "," ) + entry_str( e );
            }
            outcomes.insert( "p" + std::to_string( irq_result ) + ":" + entry_str( r ) + ":" + ( rest.empty() ? "-" : rest ) );
        }
        q = saved;
        std::string out;
        for ( const auto& o : outcomes ) out += ( out.empty() ? "" : " " ) + o;
        return out;
#else
        return "unsupported";
#endif
    }

    // producer thread: queue_notification( last index ) n times; consumer (this thread): keeps index 0
    // queued and dequeues.  lost = requests reported as newly queued that were never dequeued
    std::string stress( unsigned long long n ) override
    {
        q.clear_indications_and_confirmations();
        const std::size_t last = total_ - 1;
        if ( last == 0 ) return "stress n/a";
        std::atomic< bool > done( false );
        unsigned long long accepted = 0, dequeued = 0;
        std::thread producer( [&]{
            for ( unsigned long long i = 0; i != n; ++i )
                if ( q.queue_notification( last ) ) ++accepted;
            done = true;
        } );
        while ( !done )
        {
            q.queue_notification( 0 );
            const entry_t e = q.dequeue_indication_or_confirmation();
            if ( e.first != d::notification_queue_entry_type::empty && e.second == last ) ++dequeued;
        }
        producer.join();
        for ( int i = 0; i != 64; ++i )
        {
            const entry_t e = q.dequeue_indication_or_confirmation();
            if ( e.first != d::notification_queue_entry_type::empty && e.second == last ) ++dequeued;
        }
        q.clear_indications_and_confirmations();
        return "stress accepted=" + std::to_string( accepted ) + " dequeued=" + std::to_string( dequeued );
    }

    explicit wrapper( std::size_t total ) : total_( total ) {}
    std::size_t total_;
};

template < int ... Ns >
static std::unique_ptr< queue_if > make_queue()
{
    const int sizes[] = { Ns... };
    std::size_t total = 0;
    for ( int s : sizes ) total += s;
    return std::unique_ptr< queue_if >( new wrapper< std::tuple< std::integral_constant< int, Ns >... > >( total ) );
}

static std::unique_ptr< queue_if > make( unsigned long long n )
{
    switch ( n )
    {
    case 0: return make_queue< 1 >();
    case 1: return make_queue< 2 >();
    case 2: return make_queue< 5 >();
    case 3: return make_queue< 1, 1 >();
    case 4: return make_queue< 1, 3 >();
    case 5: return make_queue< 3, 1 >();
    case 6: return make_queue< 4, 4, 1 >();
    case 7: return make_queue< 1, 2 >();
    }
    return std::unique_ptr< queue_if >();
}

// --- Handle Value Confirmation through the real ATT server ---------------------------------------
static std::uint8_t ind_value = 0x42;
typedef bluetoe::server<
    bluetoe::service< bluetoe::service_uuid16< 0x1234 >,
        bluetoe::characteristic< bluetoe::characteristic_uuid16< 0x1111 >,
            bluetoe::bind_characteristic_value< std::uint8_t, &ind_value >, bluetoe::indicate > > > conf_server_t;

struct conf_server : conf_server_t
{
    typedef conf_server_t::channel_data_t< bluetoe::details::link_state > con_t;
    con_t con;
    queue_if* target;

    static bool callback( const bluetoe::details::notification_data&, void* self, bluetoe::details::notification_type type )
    {
        if ( type == bluetoe::details::notification_type::confirmation )
            static_cast< conf_server* >( self )->target->conf();
        return true;
    }

    conf_server() : target( nullptr ) { this->notification_callback( &conf_server::callback, this ); }

    std::string input( const std::vector< std::uint8_t >& pdu, queue_if* q )
    {
        target = q;
        std::unique_ptr< std::uint8_t[] > in( new std::uint8_t[ pdu.size() ] ), out( new std::uint8_t[ 23 ] );
        std::copy( pdu.begin(), pdu.end(), in.get() );
        std::size_t out_size = 23;
        this->l2cap_input( in.get(), pdu.size(), out.get(), out_size, con );
        return verif::to_hex( out.get(), out_size );
    }
};

int main()
{
    conf_server att;
    struct sigaction sa;
    std::memset( &sa, 0, sizeof( sa ) );
    sa.sa_sigaction = trap_handler;
    sa.sa_flags = SA_SIGINFO;
    sigemptyset( &sa.sa_mask );
    sigaction( SIGTRAP, &sa, 0 );

    std::unique_ptr< queue_if > q = make( 1 );
    return verif::line_loop( [&]( const std::vector< std::string >& w ) -> std::string {
        unsigned long long v = 0;
        if ( w.empty() ) return "bad-op";
        const bool arg1 = w.size() == 2 && verif::parse_u64( w[ 1 ], v );
        if ( w[ 0 ] == "reset" && arg1 ) { auto n = make( v ); if ( !n ) return "bad-op"; q = std::move( n ); return "ok"; }
        if ( w[ 0 ] == "qn" && arg1 ) return q->qn( v ) ? "1" : "0";
        if ( w[ 0 ] == "qi" && arg1 ) return q->qi( v ) ? "1" : "0";
        if ( w[ 0 ] == "deq" && w.size() == 1 ) return entry_str( q->deq() );
        if ( w[ 0 ] == "conf" && w.size() == 1 ) { q->conf(); return "ok"; }
        if ( w[ 0 ] == "clear" && w.size() == 1 ) { q->clear(); return "ok"; }
        if ( w[ 0 ] == "raw" && w.size() == 1 ) return q->raw();
        if ( w[ 0 ] == "irq" && w.size() == 3 && ( w[ 1 ] == "qn" || w[ 1 ] == "qi" ) && verif::parse_u64( w[ 2 ], v ) )
            return q->irq( w[ 1 ] == "qi", v );
        if ( w[ 0 ] == "confpdu" && w.size() == 2 )
        {
            std::vector< std::uint8_t > pdu;
            if ( !verif::parse_hex( w[ 1 ], pdu ) || pdu.empty() || pdu[ 0 ] != 0x1e ) return "bad-op";
            return att.input( pdu, q.get() );
        }
        if ( w[ 0 ] == "stress" && arg1 ) return q->stress( v );
        return "bad-op";
    } );
}
