// -O0 / no-sanitizer build of the same harness (separate name so that both binaries stay cached)
#include "notifq.cpp"
