// Shared by harness/attwq.cpp (C07) and harness/cccd.cpp (C09): a type erased wrapper around a real
// bluetoe::server<> type with three connections, and the line protocol loop.
//
//   reset <name> <spec…>   new server object of the named type, fresh values, 3 fresh connections;
//                          prints what the REAL templates produced:
//                          "ok q=<S> mtu=<M> cccd=<n> kinds=<one letter per attribute>
//                           idx=<cccd_indices> prios=<priority per characteristic with CCCD>"
//                          (the model prints the same line computed from <spec>)
//   sec <c> <enc> <pair>   link security state of connection c (pair 0..3 = device_pairing_status)
//   mtu <c> <n>            connection_data::client_mtu( n )  (what Exchange MTU ends in)
//   pdu <c> <hex>          l2cap_input( … ) -> response hex or "-", then " cb=<n>": the number of
//                          notification_subscription_changed calls during the request
//   disc <c>               server.client_disconnected( con c ), then the connection data is
//                          re-constructed (what a link layer does for the next connection)
//   mem                    all bound values, "/" separated, then " | " and the CCCD bytes of the
//                          three connections
//   q                      owner=<c|-> end=<buffer_end_> data=<buffer_[0..buffer_end_)>
#ifndef VERIF_ATT_WRAPPER_HPP
#define VERIF_ATT_WRAPPER_HPP
#include "common/proto.hpp"
#include <cassert>
#include <climits>
#include <cstddef>
#include <cstdlib>
#include <initializer_list>
#include <iosfwd>
#include <atomic>
#include <memory>
#include <tuple>
#include <type_traits>
#include <utility>
#include <new>

// the write queue is a private base of the server, its members are private: the harness reads
// current_client_ / buffer_end_ / buffer_ for the `q` op (observation only)
#define private public
#include <bluetoe/server.hpp>
#include <bluetoe/service.hpp>
#include <bluetoe/characteristic.hpp>
#include <bluetoe/encryption.hpp>
#include <bluetoe/gap_service.hpp>
#include <bluetoe/outgoing_priority.hpp>
#include <bluetoe/find_notification_data.hpp>
#undef private


namespace verif_att {

namespace b = bluetoe;

struct mem_entry { std::uint8_t* ptr; const std::uint8_t* cptr; std::size_t size; };

inline void fill( std::uint8_t* p, std::size_t n, unsigned tag )
{
    for ( std::size_t i = 0; i != n; ++i )
        p[ i ] = static_cast< std::uint8_t >( tag * 16 + i );
}

// counts the calls of server::notification_subscription_changed
struct cb_counter
{
    unsigned calls = 0;
    template < class Server >
    void client_characteristic_configuration_updated( Server&, const bluetoe::details::client_characteristic_configuration& ) { ++calls; }
};
cb_counter cb;   // (this header is included by exactly one translation unit per harness)

using cbopt = b::client_characteristic_configuration_update_callback< cb_counter, cb >;

// the real cccd_indices (a std::tuple of integral_constants) as text
template < class T > struct index_list;
template <> struct index_list< std::tuple<> > { static std::string str() { return ""; } };
template < class I, class ... Is >
struct index_list< std::tuple< I, Is... > >
{
    static std::string str()
    {
        const std::string rest = index_list< std::tuple< Is... > >::str();
        return std::to_string( I::value ) + ( rest.empty() ? "" : "," + rest );
    }
};


// the priorities the real templates computed, in declaration order of the CCCDs
template < class T > struct prio_list;
template <> struct prio_list< std::tuple<> > { static std::string str() { return ""; } };
template < class I, class ... Is >
struct prio_list< std::tuple< I, Is... > >
{
    static std::string str()
    {
        const std::string rest = prio_list< std::tuple< Is... > >::str();
        return std::to_string( I::priority ) + ( rest.empty() ? "" : "," + rest );
    }
};

template < std::uint16_t N > using cu = b::characteristic_uuid16< N >;

struct server_if
{
    virtual ~server_if() {}
    virtual std::string describe() = 0;
    virtual void sec( unsigned c, bool enc, unsigned pair ) = 0;
    virtual bool mtu( unsigned c, unsigned n ) = 0;
    virtual std::string pdu( unsigned c, const std::vector< std::uint8_t >& in ) = 0;
    virtual void disc( unsigned c ) = 0;
    virtual std::string cccds() = 0;
    virtual std::string queue() = 0;
};

template < class S, bool HasQueue >
struct queue_view
{
    static std::string print( S&, void** ) { return "none"; }
    static unsigned size() { return 0; }
};

template < class S >
struct queue_view< S, true >
{
    using wq_t = b::details::write_queue< typename S::write_queue_type >;

    static unsigned size() { return S::write_queue_type::queue_size; }

    static std::string print( S& srv, void** cons )
    {
        wq_t& q = srv;
        std::string owner = "?";
        if ( q.current_client_ == nullptr )
            owner = "-";
        for ( unsigned c = 0; c != 3; ++c )
            if ( q.current_client_ == cons[ c ] )
                owner = std::to_string( c );

        return "owner=" + owner + " end=" + std::to_string( q.buffer_end_ ) + " data=" + verif::to_hex( q.buffer_, q.buffer_end_ );
    }
};

template < class S >
struct wrapper : server_if
{
    using con_t = typename S::template channel_data_t< b::details::link_state >;
    static constexpr bool has_queue = !std::is_same< typename S::write_queue_type, b::details::no_such_type >::value;

    S      srv;
    // the connections live in fixed storage: the write queue identifies its owner by address
    con_t  con[ 3 ];

    std::string describe() override
    {
        std::string kinds;
        for ( std::size_t i = 0; i != S::number_of_attributes; ++i )
        {
            const std::uint16_t uuid = srv.attribute_at( i ).uuid;
            kinds += uuid == 0x2800 || uuid == 0x2801 ? 's'
                   : uuid == 0x2803 ? 'c'
                   : uuid == 0x2902 ? 'd'
                   : uuid == 0x2901 ? 'u' : 'v';
        }
        return "ok q=" + std::to_string( queue_view< S, has_queue >::size() )
            + " mtu=" + std::to_string( S::maximum_channel_mtu_size )
            + " cccd=" + std::to_string( S::number_of_client_configs )
            + " kinds=" + kinds
            + " idx=" + index_list< typename S::cccd_indices >::str()
            + " prios=" + prio_list< typename b::details::find_notification_data_in_list<
                    typename S::notification_priority, typename S::services >::characteristics_with_cccd_position >::str();
    }

    void sec( unsigned c, bool enc, unsigned pair ) override
    {
        con[ c ].is_encrypted( enc );
        con[ c ].pairing_status( static_cast< b::device_pairing_status >( pair ) );
    }

    bool mtu( unsigned c, unsigned n ) override
    {
        if ( n < 23 || n > 0xffff )
            return false;
        con[ c ].client_mtu( n );
        return true;
    }

    std::string pdu( unsigned c, const std::vector< std::uint8_t >& in ) override
    {
        // exactly sized heap blocks: ASan sees every access outside of the PDU / the MTU
        std::unique_ptr< std::uint8_t[] > input( new std::uint8_t[ in.size() ] );
        std::copy( in.begin(), in.end(), input.get() );

        const std::size_t size = con[ c ].negotiated_mtu();
        std::unique_ptr< std::uint8_t[] > output( new std::uint8_t[ size ] );
        std::size_t out_size = size;

        const unsigned before = cb.calls;
        srv.l2cap_input( input.get(), in.size(), output.get(), out_size, con[ c ] );
        if ( out_size > size )
            return "out_size>" + std::to_string( size );
        return verif::to_hex( output.get(), out_size ) + " cb=" + std::to_string( cb.calls - before );
    }

    void disc( unsigned c ) override
    {
        srv.client_disconnected( con[ c ] );
        con[ c ].~con_t();
        new ( &con[ c ] ) con_t();
    }

    template < std::size_t N >
    static std::string cccd_bytes( b::details::client_characteristic_configurations< N >& cc )
    {
        return verif::to_hex( cc.serialized_cccds_begin(), cc.serialized_cccds_end() - cc.serialized_cccds_begin() );
    }

    static std::string cccd_bytes( b::details::client_characteristic_configurations< 0 >& ) { return "-"; }

    std::string cccds() override
    {
        return cccd_bytes( con[ 0 ] ) + " " + cccd_bytes( con[ 1 ] ) + " " + cccd_bytes( con[ 2 ] );
    }

    std::string queue() override
    {
        void* cons[ 3 ] = { &con[ 0 ], &con[ 1 ], &con[ 2 ] };
        return queue_view< S, has_queue >::print( srv, cons );
    }
};

struct named { const char* name; server_if* ( *make )(); std::vector< mem_entry > mem; };

template < class S > server_if* make() { return new wrapper< S >; }

mem_entry rw( std::uint8_t* p, std::size_t n ) { return mem_entry{ p, p, n }; }
mem_entry ro( const std::uint8_t* p, std::size_t n ) { return mem_entry{ nullptr, p, n }; }



inline int run( const std::vector< named >& servers )
{

    std::unique_ptr< server_if > srv;
    const named* current = nullptr;

    return verif::line_loop( [&]( const std::vector< std::string >& w ) -> std::string {
        if ( w.empty() ) return "bad-op";
        if ( w[ 0 ] == "reset" && w.size() >= 2 )
        {
            for ( const named& n : servers )
                if ( w[ 1 ] == n.name )
                {
                    current = &n;
                    for ( std::size_t i = 0; i != n.mem.size(); ++i )
                        if ( n.mem[ i ].ptr )
                            fill( n.mem[ i ].ptr, n.mem[ i ].size, i + 1 );
                    srv.reset( n.make() );
                    return srv->describe();
                }
            return "bad-op";
        }
        if ( !srv ) return "bad-op";

        unsigned long long c = 0, x = 0, y = 0;
        const bool has_c = w.size() >= 2 && verif::parse_u64( w[ 1 ], c ) && c < 3;

        if ( w[ 0 ] == "sec" && w.size() == 4 && has_c && verif::parse_u64( w[ 2 ], x ) && x < 2 && verif::parse_u64( w[ 3 ], y ) && y < 4 )
        {
            srv->sec( c, x, y );
            return "ok";
        }
        if ( w[ 0 ] == "mtu" && w.size() == 3 && has_c && verif::parse_u64( w[ 2 ], x ) )
            return srv->mtu( c, x ) ? "ok" : "bad-op";
        if ( w[ 0 ] == "pdu" && w.size() == 3 && has_c )
        {
            std::vector< std::uint8_t > in;
            if ( !verif::parse_hex( w[ 2 ], in ) || in.empty() )
                return "bad-op";
            return srv->pdu( c, in );
        }
        if ( w[ 0 ] == "disc" && w.size() == 2 && has_c )
        {
            srv->disc( c );
            return "ok";
        }
        if ( w[ 0 ] == "mem" && w.size() == 1 )
        {
            std::string out;
            for ( std::size_t i = 0; i != current->mem.size(); ++i )
                out += ( i ? "/" : "" ) + verif::to_hex( current->mem[ i ].cptr, current->mem[ i ].size );
            return out + " | " + srv->cccds();
        }
        if ( w[ 0 ] == "q" && w.size() == 1 )
            return srv->queue();
        return "bad-op";
    } );
}

}
#endif
