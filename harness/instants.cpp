// Correspondence harness for C21 (instant based procedures): drives the REAL
// bluetoe::link_layer::link_layer<> on tests/test_tools/test_radio, one connection event per op.
//
//   reset <cfg> <latency> <counter> <hop> [<timeout>]
//          new link layer (cfg 0: peripheral_latency_configuration<> = use the full peripheral
//          latency, cfg 1: peripheral_latency_ignored = listen always), CONNECT_IND with the given
//          peripheral latency and hop, first connection event (an empty PDU) performed, then the
//          16-bit connEventCounter of the *planned* event is set to <counter> (a harness device to
//          reach the wrap-around without simulating 65536 events).
//          <timeout>: connSupervisionTimeout of the CONNECT_IND in 10 ms (default 3200).
//   connect <latency> <counter> <hop> <timeout>
//          only while advertising (after the connection ended): a new CONNECT_IND on the SAME link
//          layer object, first connection event performed, counter set as for `reset`.
//   disconnect           three connection events with empty PDUs take place (responses still queued are
//          sent, time_since_last_event is that of a regular event: the moment the LL_TERMINATE_IND is
//          acknowledged and the procedure response timer are then independent of the history), then the
//          local host calls disconnect() and connection events with empty PDUs take place until the
//          LL_TERMINATE_IND is sent and acknowledged and the link layer advertises again
//   ev [<hex-pdu> ...]   the planned connection event takes place, the central sends the given
//          PDUs (2 byte LL header + payload; none = one empty PDU)
//   to                   the planned connection event is lost (no reception = timeout())
//   cancel               the host queued outgoing data: the radio binding calls try_event_cancelation()
//   plan <cfgmask> <counter> <chidx> <latency> <evflags> <pending> <instant>
//          direct call of peripheral_latency_state<configuration<...>>::plan_next_connection_event
//
// Every op answers with the state *after* the event has been processed, i.e. with the next
// connection event planned (see state_line()).
#include "common/proto.hpp"
#include <functional>
#include <vector>
#include <initializer_list>
#include <iosfwd>
#include <iostream>
#include <sstream>
#include <memory>
#include <tuple>
#include <type_traits>
#include <cassert>
#include <utility>
#include <map>
#include <set>
#include <array>
#include <limits>
#include <ostream>
#include <string>
#include <atomic>

#define private public
#define protected public
#include <bluetoe/link_layer.hpp>
#include <bluetoe/server.hpp>
#include "tests/test_tools/test_radio.hpp"
#undef private
#undef protected

namespace ll = bluetoe::link_layer;

static std::uint8_t char_value = 0;

typedef bluetoe::server<
    bluetoe::service<
        bluetoe::service_uuid< 0x8C8B4094, 0x0DE2, 0x499F, 0xA28A, 0x4EED5BC73CA9 >,
        bluetoe::characteristic<
            bluetoe::characteristic_uuid< 0x8C8B4094, 0x0DE2, 0x499F, 0xA28A, 0x4EED5BC73CAA >,
            bluetoe::bind_characteristic_value< std::uint8_t, &char_value >
        >
    >,
    bluetoe::no_gap_service_for_gatt_servers
> server_t;

struct ll_if
{
    virtual ~ll_if() {}
    virtual void connect( unsigned latency, unsigned counter, unsigned hop, unsigned timeout ) = 0;
    virtual bool is_connected() = 0;
    virtual std::string local_disconnect() = 0;
    virtual std::string event( const std::vector< std::vector< std::uint8_t > >& pdus ) = 0;
    virtual std::string lost() = 0;
    virtual std::string state() = 0;
    virtual std::string cancel() = 0;
};

template < class... Options >
struct link : ll::link_layer< server_t, test::radio_with_2mbit, Options... >, ll_if
{
    typedef ll::link_layer< server_t, test::radio_with_2mbit, Options... > base;

    bool connected() const
    {
        return this->state_ == base::state::connected || this->state_ == base::state::connecting
            || this->state_ == base::state::connection_changed || this->state_ == base::state::disconnecting;
    }

    // exactly one iteration of the radio's simulation loop (one advertising or connection event)
    void one_step()
    {
        this->wake_up();
        base::run();
    }

    bool is_connected() override { return connected(); }

    std::string local_disconnect() override
    {
        if ( !connected() )
            return state_line();

        for ( int i = 0; i != 3 && connected(); ++i )
            event( std::vector< std::vector< std::uint8_t > >() );

        if ( !connected() )
            return state_line();

        this->disconnect();
        for ( int i = 0; i != 60 && connected(); ++i )
            event( std::vector< std::vector< std::uint8_t > >() );

        return state_line();
    }

    void connect( unsigned latency, unsigned counter, unsigned hop, unsigned timeout ) override
    {
        // a new connection starts with SN = NESN = 0 on both sides
        this->central_sequence_number_    = 0;
        this->central_ne_sequence_number_ = 0;
        this->end_of_simulation( ll::delta_time::seconds( 2000 ) );
        this->respond_to( 37, {
            0xc5, 0x22,
            0x3c, 0x1c, 0x62, 0x92, 0xf0, 0x48,
            0x47, 0x11, 0x08, 0x15, 0x0f, 0xc0,
            0x5a, 0xb3, 0x9a, 0xaf,
            0x08, 0x81, 0xf6,
            0x03,
            0x0b, 0x00,
            0x18, 0x00,                                     // interval 30 ms
            static_cast< std::uint8_t >( latency ), static_cast< std::uint8_t >( latency >> 8 ),
            static_cast< std::uint8_t >( timeout ), static_cast< std::uint8_t >( timeout >> 8 ),
            0xff, 0xff, 0xff, 0xff, 0x1f,
            static_cast< std::uint8_t >( 0xa0 | hop ) } );

        for ( int i = 0; i != 10 && !connected(); ++i )
            one_step();

        if ( !connected() )
            return;

        event( std::vector< std::vector< std::uint8_t > >() );
        this->event_counter_ = counter;
    }

    std::string event( const std::vector< std::vector< std::uint8_t > >& pdus ) override
    {
        if ( !connected() )
            return state_line();

        const std::uint8_t sn = this->central_sequence_number_, nesn = this->central_ne_sequence_number_;
        test::pdu_list_t list;
        for ( const auto& p : pdus )
            list.push_back( test::pdu_t( p ) );
        if ( list.empty() )
            list.push_back( test::pdu_t( { 0x01, 0x00 } ) );

        bool consumed = false;
        this->add_connection_event_respond( test::connection_event_response( std::function< test::pdu_list_t () >(
            [ &, sn, nesn ]() -> test::pdu_list_t {
                // run() has reset the central's sequence numbers; continue where the last event ended
                this->central_sequence_number_    = sn;
                this->central_ne_sequence_number_ = nesn;
                consumed = true;
                return list;
            } ) ) );

        one_step();
        assert( consumed );
        return state_line();
    }

    std::string lost() override
    {
        if ( !connected() )
            return state_line();

        const std::uint8_t sn = this->central_sequence_number_, nesn = this->central_ne_sequence_number_;
        this->add_connection_event_respond_timeout();
        one_step();
        this->central_sequence_number_    = sn;
        this->central_ne_sequence_number_ = nesn;
        return state_line();
    }

    // E: connEventCounter of the planned event; ch: its data channel; pend/inst: deferred procedure
    // and its instant; rxw: a received PDU is waiting unprocessed; then the connection parameters
    // in force for the planned event
    std::string state() override { return state_line(); }

    // what a radio binding does when the host queued outgoing data while an event is planned
    // (nrf52.hpp run(): request_event_cancelation_ -> try_event_cancelation())
    std::string cancel() override
    {
        if ( connected() )
            this->try_event_cancelation();
        return state_line();
    }

    std::string state_line()
    {
        std::ostringstream out;
        if ( !connected() )
        {
            out << "adv reason=" << unsigned( this->disconnecting_reason_ );
            return out.str();
        }

        unsigned long long mask = 0;
        for ( unsigned i = 0; i != 37; ++i )
            mask |= 1ull << this->channels_.data_channel( i );

        out << "E=" << this->connection_event_counter()
            << " ch=" << this->connection_events_.back().channel
            << " pend=" << ( this->defered_ll_control_pdu_.empty() ? 0 : 1 );
        if ( !this->defered_ll_control_pdu_.empty() )
            out << " inst=" << this->defered_conn_event_counter_;
        out << " rxw=" << ( this->next_ll_l2cap_received().size != 0 ? 1 : 0 )
            << " map=" << std::hex << mask << std::dec
            << " int=" << this->connection_interval_.usec() / 1250
            << " lat=" << this->peripheral_latency_
            << " sto=" << this->timeout_value_
            << " phy=" << unsigned( this->receiving_encoding_ ) << "/" << unsigned( this->transmiting_encoding_ )
            << " chg=" << ( this->state_ == base::state::connection_changed ? 1 : 0 );
        if ( std::getenv( "INSTANTS_DEBUG" ) )   // where the deferred PDU and the receive ring's ends are
            out << " dp=" << ( this->defered_ll_control_pdu_.buffer ? this->defered_ll_control_pdu_.buffer - this->receive_buffer() : -1 )
                << " front=" << ( this->receive_buffer_.front_ - this->receive_buffer() )
                << " end=" << ( this->receive_buffer_.end_ - this->receive_buffer() );
        return out.str();
    }
};

typedef ll::peripheral_latency_configuration<> full_latency;
typedef ll::peripheral_latency_ignored         listen_always;

// one instantiation only (compile time): the peripheral latency configuration is switched at run time
typedef link< ll::buffer_sizes< 600, 600 >, ll::peripheral_latency_configuration_set< full_latency, listen_always > > link_t;

static std::unique_ptr< ll_if > make( unsigned cfg )
{
    std::unique_ptr< link_t > result( new link_t );
    if ( cfg == 1 )
        result->change_peripheral_latency< listen_always >();
    return std::unique_ptr< ll_if >( result.release() );
}

// ---- plan_next_connection_event on the bare peripheral_latency_state, all 2^5 option subsets ----
typedef ll::peripheral_latency pl;

template < pl... Os >
static std::string plan_with( unsigned counter, unsigned chidx, unsigned latency, unsigned flags, bool pending, unsigned instant )
{
    ll::details::peripheral_latency_state< ll::peripheral_latency_configuration< Os... > > state;
    state.reset_connection_state();
    state.event_counter_ = counter;
    state.channel_index_ = chidx;

    ll::connection_event_events evts;
    evts.unacknowledged_data         = flags & 1;
    evts.last_received_not_empty     = flags & 2;
    evts.last_transmitted_not_empty  = flags & 4;
    evts.last_received_had_more_data = flags & 8;
    evts.pending_outgoing_data       = flags & 16;
    evts.error_occured               = flags & 32;

    state.plan_next_connection_event( latency, evts, ll::delta_time( 30000 ), std::pair< bool, std::uint16_t >( pending, instant ) );

    std::ostringstream out;
    out << state.connection_event_counter() << " " << state.current_channel_index();
    return out.str();
}

// option bits: 1 pending_transmit_data, 2 unacknowledged_data, 4 last_received_not_empty,
//              8 last_transmitted_not_empty, 16 last_received_had_more_data; 32 = listen_always alone
static std::string plan( unsigned mask, unsigned a, unsigned b, unsigned c, unsigned d, bool e, unsigned f )
{
    static const pl P = pl::listen_if_pending_transmit_data, U = pl::listen_if_unacknowledged_data,
        R = pl::listen_if_last_received_not_empty, T = pl::listen_if_last_transmitted_not_empty,
        M = pl::listen_if_last_received_had_more_data;
    switch ( mask )
    {
    case 0:  return plan_with<>( a, b, c, d, e, f );
    case 1:  return plan_with< P >( a, b, c, d, e, f );
    case 2:  return plan_with< U >( a, b, c, d, e, f );
    case 3:  return plan_with< P, U >( a, b, c, d, e, f );
    case 4:  return plan_with< R >( a, b, c, d, e, f );
    case 5:  return plan_with< P, R >( a, b, c, d, e, f );
    case 6:  return plan_with< U, R >( a, b, c, d, e, f );
    case 7:  return plan_with< P, U, R >( a, b, c, d, e, f );
    case 8:  return plan_with< T >( a, b, c, d, e, f );
    case 9:  return plan_with< P, T >( a, b, c, d, e, f );
    case 10: return plan_with< U, T >( a, b, c, d, e, f );
    case 11: return plan_with< P, U, T >( a, b, c, d, e, f );
    case 12: return plan_with< R, T >( a, b, c, d, e, f );
    case 13: return plan_with< P, R, T >( a, b, c, d, e, f );
    case 14: return plan_with< U, R, T >( a, b, c, d, e, f );
    case 15: return plan_with< P, U, R, T >( a, b, c, d, e, f );
    case 16: return plan_with< M >( a, b, c, d, e, f );
    case 17: return plan_with< P, M >( a, b, c, d, e, f );
    case 18: return plan_with< U, M >( a, b, c, d, e, f );
    case 19: return plan_with< P, U, M >( a, b, c, d, e, f );
    case 20: return plan_with< R, M >( a, b, c, d, e, f );
    case 21: return plan_with< P, R, M >( a, b, c, d, e, f );
    case 22: return plan_with< U, R, M >( a, b, c, d, e, f );
    case 23: return plan_with< P, U, R, M >( a, b, c, d, e, f );
    case 24: return plan_with< T, M >( a, b, c, d, e, f );
    case 25: return plan_with< P, T, M >( a, b, c, d, e, f );
    case 26: return plan_with< U, T, M >( a, b, c, d, e, f );
    case 27: return plan_with< P, U, T, M >( a, b, c, d, e, f );
    case 28: return plan_with< R, T, M >( a, b, c, d, e, f );
    case 29: return plan_with< P, R, T, M >( a, b, c, d, e, f );
    case 30: return plan_with< U, R, T, M >( a, b, c, d, e, f );
    case 31: return plan_with< P, U, R, T, M >( a, b, c, d, e, f );
    case 32: return plan_with< pl::listen_always >( a, b, c, d, e, f );
    }
    return "bad-op";
}

int main()
{
    std::unique_ptr< ll_if > link_layer;

    return verif::line_loop( [&]( const std::vector< std::string >& w ) -> std::string {
        if ( w.empty() ) return "bad-op";

        std::vector< unsigned long long > n;
        bool numeric = true;
        for ( std::size_t i = 1; i < w.size(); ++i )
        {
            unsigned long long v = 0;
            if ( verif::parse_u64( w[ i ], v ) ) n.push_back( v ); else numeric = false;
        }

        // the CONNECT_IND must be one the link layer accepts: interval is 24 (30 ms)
        const auto acceptable = []( unsigned long long latency, unsigned long long counter, unsigned long long hop, unsigned long long timeout ) {
            return latency <= 499 && counter <= 0xffff && hop >= 5 && hop <= 16 && timeout >= 10 && timeout <= 3200
                && timeout * 10000 > ( latency + 1 ) * 2 * 30000;
        };

        if ( w[ 0 ] == "reset" && numeric && ( n.size() == 4 || n.size() == 5 ) )
        {
            const unsigned long long timeout = n.size() == 5 ? n[ 4 ] : 3200;
            if ( n[ 0 ] > 1 || !acceptable( n[ 1 ], n[ 2 ], n[ 3 ], timeout ) ) return "bad-op";
            link_layer = make( n[ 0 ] );
            link_layer->connect( n[ 1 ], n[ 2 ], n[ 3 ], timeout );
            return link_layer->state();
        }
        if ( w[ 0 ] == "connect" && numeric && n.size() == 4 && link_layer )
        {
            if ( link_layer->is_connected() || !acceptable( n[ 0 ], n[ 1 ], n[ 2 ], n[ 3 ] ) ) return "bad-op";
            link_layer->connect( n[ 0 ], n[ 1 ], n[ 2 ], n[ 3 ] );
            return link_layer->state();
        }
        if ( w[ 0 ] == "disconnect" && w.size() == 1 && link_layer )
            return link_layer->local_disconnect();
        if ( w[ 0 ] == "ev" && link_layer )
        {
            std::vector< std::vector< std::uint8_t > > pdus;
            for ( std::size_t i = 1; i < w.size(); ++i )
            {
                std::vector< std::uint8_t > p;
                if ( !verif::parse_hex( w[ i ], p ) || p.size() < 2 || p.size() > 29 || p[ 1 ] != p.size() - 2 ) return "bad-op";
                pdus.push_back( p );
            }
            return link_layer->event( pdus );
        }
        if ( w[ 0 ] == "to" && w.size() == 1 && link_layer )
            return link_layer->lost();
        if ( w[ 0 ] == "cancel" && w.size() == 1 && link_layer )
            return link_layer->cancel();
        if ( w[ 0 ] == "plan" && numeric && n.size() == 7 )
            return plan( n[ 0 ], n[ 1 ] & 0xffff, n[ 2 ] % 37, n[ 3 ] & 0xffff, n[ 4 ], n[ 5 ] != 0, n[ 6 ] & 0xffff );
        return "bad-op";
    } );
}
