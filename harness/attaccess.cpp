// Correspondence harness for C01 / C05 / C06 / C08: drives the real bluetoe::server<>::l2cap_input
// and ::l2cap_output of /repo for a family of server types (harness/attaccess/servers.hpp).
//
//   reset <S>                 select server type S, fresh server object, 3 fresh connections,
//                             all memory cells back to their initial content           -> ok
//   table                     attribute table of the selected server as produced by the REAL
//                             templates (see dump_table)                                -> one line
//   sec <c> <enc> <pairing>   link security state of connection c (pairing 0..3)        -> ok
//   pdu <c> <outsize> <hex>   l2cap_input; input and output live in exactly-sized heap blocks
//                                                                              -> response hex | -
//   ntf <c> <pos> <n|i> <outsize>  queue a notification / indication for the characteristic with
//                             CCCD position pos and call l2cap_output once              -> PDU hex | -
//   setcell <cell> <hex>      server side change of a value (size must match)           -> ok
//   mem <c>                   all cells of the server + CCCD flags of connection c      -> one line
//   mtu <c>                   "<client_mtu> <negotiated_mtu>"
//   enctable                  characteristic_requires_encryption<> for all 64 option placements
//                             (index = 16*server + 4*service + characteristic option; 0 none,
//                             1 requires, 2 no_encryption_required, 3 may_require) -> 64 x 0|1
#include "common/proto.hpp"
#include <memory>
#include <tuple>
#include <map>
#include <type_traits>
#include <cassert>
#define private public
#define protected public
#include <bluetoe/server.hpp>
#undef private
#undef protected
#include <bluetoe/link_state.hpp>
#include "attaccess/servers.hpp"

namespace {

struct cell { std::uint8_t* p; std::size_t n; bool is_const; std::vector< std::uint8_t > init; };
std::vector< cell >                g_cells;
std::map< const void*, int >       g_cell_by_ptr;

template < class T >
void reg_cell( int id, T& v )
{
    if ( static_cast< int >( g_cells.size() ) <= id )
        g_cells.resize( id + 1, cell{ nullptr, 0, true, {} } );
    std::uint8_t* p = const_cast< std::uint8_t* >( reinterpret_cast< const std::uint8_t* >( &v ) );
    g_cells[ id ] = cell{ p, sizeof( T ), std::is_const< T >::value, std::vector< std::uint8_t >( p, p + sizeof( T ) ) };
    g_cell_by_ptr[ &v ] = id;
}

void init_cells()
{
    using namespace fam;
    auto fill = []( std::uint8_t* p, std::size_t n, std::uint8_t seed ) { for ( std::size_t i = 0; i != n; ++i ) p[ i ] = seed + i; };
    fill( b_a3, 3, 0x30 ); fill( b_a20, 20, 0x40 ); fill( b_a22, 22, 0x60 ); fill( b_a40, 40, 0x80 );
    fill( b_a100, 100, 0x00 ); fill( b_a250, 250, 0x05 ); fill( b_p1, 16, 0xc0 ); fill( b_p2, 16, 0xd0 );
    fill( b_n0, 2, 0xa0 ); fill( b_n1, 2, 0xa2 ); fill( b_n2, 2, 0xa4 ); fill( b_n3, 2, 0xa6 ); fill( b_n4, 2, 0xa8 ); fill( b_n5, 2, 0xaa );
    reg_cell( 0, b_u8 ); reg_cell( 1, b_u16 ); reg_cell( 2, b_u32 ); reg_cell( 3, b_c32 ); reg_cell( 4, b_a3 );
    reg_cell( 5, b_a20 ); reg_cell( 6, b_a22 ); reg_cell( 7, b_a40 ); reg_cell( 8, b_a100 ); reg_cell( 9, b_a250 );
    reg_cell( 10, b_p1 ); reg_cell( 11, b_p2 );
    reg_cell( 12, b_n0 ); reg_cell( 13, b_n1 ); reg_cell( 14, b_n2 ); reg_cell( 15, b_n3 ); reg_cell( 16, b_n4 ); reg_cell( 17, b_n5 );
    g_cells.resize( first_handler_cell + n_handler_cells, cell{ nullptr, 0, true, {} } );
    for ( int c = 0; c != n_handler_cells; ++c )
    {
        h_ptr[ c ] = new std::uint8_t[ h_size[ c ] ];
        fill( h_ptr[ c ], h_size[ c ], 0x10 * ( c + 1 ) );
        g_cells[ first_handler_cell + c ] = cell{ h_ptr[ c ], h_size[ c ], false, std::vector< std::uint8_t >( h_ptr[ c ], h_ptr[ c ] + h_size[ c ] ) };
    }
}

void restore_cells()
{
    for ( auto& c : g_cells )
        if ( c.p && !c.is_const )
            std::copy( c.init.begin(), c.init.end(), c.p );
}

// ---------------------------------------------------------------------------------------------
// table dump: everything below is read off the real templates
// ---------------------------------------------------------------------------------------------
using bluetoe::details::has_option;

template < class T > struct opts_of;
template < template < class ... > class T, class ... O >
struct opts_of< T< O... > >
{
    static std::string enc()
    {
        std::string r;
        r += has_option< bluetoe::requires_encryption, O... >::value ? '1' : '0';
        r += has_option< bluetoe::no_encryption_required, O... >::value ? '1' : '0';
        r += has_option< bluetoe::may_require_encryption, O... >::value ? '1' : '0';
        return r;
    }
    static constexpr bool no_read  = has_option< bluetoe::no_read_access, O... >::value;
    static constexpr bool no_write = has_option< bluetoe::no_write_access, O... >::value;
    static constexpr bool has_queue = !std::is_same<
        typename bluetoe::details::find_by_meta_type< bluetoe::details::write_queue_meta_type, O... >::type,
        bluetoe::details::no_such_type >::value;
};

// handler identification: kind 0 none, 1 plain (no offset), 2 blob; cell = global cell id
template < class H > struct hinfo { static constexpr int kind = 0; static constexpr int cell = -1; };
#define HINFO( C ) \
    template <> struct hinfo< fam::RB< C > > { static constexpr int kind = 2; static constexpr int cell = fam::first_handler_cell + C; }; \
    template <> struct hinfo< fam::RP< C > > { static constexpr int kind = 1; static constexpr int cell = fam::first_handler_cell + C; }; \
    template <> struct hinfo< fam::WB< C > > { static constexpr int kind = 2; static constexpr int cell = fam::first_handler_cell + C; }; \
    template <> struct hinfo< fam::WP< C > > { static constexpr int kind = 1; static constexpr int cell = fam::first_handler_cell + C; };
HINFO( 0 ) HINFO( 1 ) HINFO( 2 ) HINFO( 3 ) HINFO( 4 ) HINFO( 5 )

std::string b01( bool b ) { return b ? "1" : "0"; }

template < class V, class Char >
struct value_info     // primary: handler values (value_handler_base)
{
    static std::string str()
    {
        using vt = typename Char::value_type;
        using rh = hinfo< typename vt::read_handler_type >;
        using wh = hinfo< typename vt::write_handler_type >;
        const int c = rh::cell >= 0 ? rh::cell : wh::cell;
        assert( c >= 0 && ( rh::cell < 0 || wh::cell < 0 || rh::cell == wh::cell ) );
        return "H," + std::to_string( rh::kind ) + "," + std::to_string( wh::kind ) + "," + std::to_string( c ) + "," + std::to_string( g_cells[ c ].n );
    }
};

template < class T, T* P, class Char >
struct value_info< bluetoe::bind_characteristic_value< T, P >, Char >
{
    static std::string str()
    {
        assert( g_cell_by_ptr.count( P ) );
        return "B," + std::to_string( g_cell_by_ptr[ P ] ) + "," + std::to_string( sizeof( T ) );
    }
};

template < class T, T V, class Char >
struct value_info< bluetoe::fixed_value< T, V >, Char >
{
    static std::string str()
    {
        std::uint8_t b[ sizeof( T ) ];
        for ( std::size_t i = 0; i != sizeof( T ); ++i ) b[ i ] = ( static_cast< unsigned long long >( V ) >> ( 8 * i ) ) & 0xff;
        return "F," + verif::to_hex( b, sizeof( T ) );
    }
};

template < const char* const N, class Char >
struct value_info< bluetoe::cstring_value< N >, Char >
{
    static std::string str() { return "C," + verif::to_hex( reinterpret_cast< const std::uint8_t* >( N ), std::strlen( N ) ); }
};

template < const std::uint8_t* const V, std::size_t S, class Char >
struct value_info< bluetoe::fixed_blob_value< V, S >, Char >
{
    static std::string str() { return "C," + verif::to_hex( V, S ); }
};

template < class Text, class Char >
struct value_info< bluetoe::cstring_wrapper< Text >, Char >
{
    static std::string str() { return "C," + verif::to_hex( reinterpret_cast< const std::uint8_t* >( Text::value() ), Text::size() ); }
};

template < class Server >
struct dumper
{
    std::vector< std::string > rows;
    std::size_t idx = 0, cccd = 0, svc = 0;

    // content of a static attribute read through its real access function (offset 0, big buffer)
    static std::vector< std::uint8_t > content( std::size_t index )
    {
        std::uint8_t buf[ 600 ];
        std::uint8_t cfg[ 64 ] = { 0 };
        auto read = bluetoe::details::attribute_access_arguments::read( buf, buf + sizeof( buf ), 0,
            bluetoe::details::client_characteristic_configuration( cfg, 64 ),
            bluetoe::connection_security_attributes( true, bluetoe::device_pairing_status::authenticated_key ), nullptr );
        const auto rc = Server::attribute_at( index ).access( read, index );
        assert( rc == bluetoe::details::attribute_access_result::success );
        return std::vector< std::uint8_t >( buf, buf + read.buffer_size );
    }

    std::string head( const std::string& svc_enc, const std::string& chr_enc, bool real_req )
    {
        char b[ 16 ];
        std::snprintf( b, sizeof( b ), "%04x", Server::attribute_at( idx ).uuid );
        return std::to_string( Server::handle_mapping::handle_by_index( idx ) ) + "," + b + "," + svc_enc + "," + chr_enc + "," + b01( real_req ) + ",";
    }

    template < class Service, class Char >
    void characteristic()
    {
        using vt = typename Char::value_type;
        using co = opts_of< Char >;
        // auto-generated UUID: no characteristic_uuid option; char_index as computed by fixup_auto_uuid
        constexpr bool auto_uuid = std::is_same< typename Char::configured_uuid, bluetoe::details::no_such_type >::value;
        const std::size_t char_index = bluetoe::details::index_of< Char, typename Service::characteristics >::value + 1;
        const std::string se = opts_of< Service >::enc(), ce = co::enc();
        const bool req = bluetoe::details::characteristic_requires_encryption< Char, Service, typename Server::server_t >::value;
        // declaration: uuid bytes as stored in the real declaration attribute
        const std::vector< std::uint8_t > decl = content( idx );
        rows.push_back( head( se, ce, req ) + "D," + verif::to_hex( decl.data() + 3, decl.size() - 3 ) + ","
            + b01( vt::has_write_without_response ) + "," + b01( vt::has_only_write_without_response ) + ","
            + b01( vt::has_notification ) + "," + b01( vt::has_indication ) + "," + std::to_string( auto_uuid ? char_index : 0 ) );
        ++idx;
        rows.push_back( head( se, ce, req ) + value_info< typename Char::base_value_type, Char >::str() + ","
            + b01( vt::has_read_access ) + "," + b01( vt::has_write_access ) + "," + b01( co::no_read ) + "," + b01( co::no_write ) );
        ++idx;
        if ( Char::number_of_client_configs )
        {
            rows.push_back( head( se, ce, req ) + "N," + std::to_string( cccd ) );
            ++idx; ++cccd;
        }
        for ( std::size_t rest = Char::number_of_attributes - 2 - Char::number_of_client_configs; rest; --rest, ++idx )
        {
            const auto c = content( idx );
            rows.push_back( head( se, ce, req ) + ( Server::attribute_at( idx ).uuid == 0x2901 ? "U," : "X," ) + verif::to_hex( c ) );
        }
    }

    template < class Service > void chars( std::tuple<>* ) {}
    template < class Service, class C, class ... Cs >
    void chars( std::tuple< C, Cs... >* ) { characteristic< Service, C >(); chars< Service >( static_cast< std::tuple< Cs... >* >( nullptr ) ); }

    void services( std::tuple<>* ) {}
    template < class S, class ... Ss >
    void services( std::tuple< S, Ss... >* )
    {
        static_assert( S::number_of_service_attributes == 1, "no includes in this family" );
        const auto c = content( idx );
        rows.push_back( head( opts_of< S >::enc(), "000", false ) + "S," + verif::to_hex( c ) + "," + std::to_string( S::number_of_attributes ) );
        ++idx;
        chars< S >( static_cast< typename S::characteristics* >( nullptr ) );
        ++svc;
        services( static_cast< std::tuple< Ss... >* >( nullptr ) );
    }

    std::string run()
    {
        services( static_cast< typename Server::services* >( nullptr ) );
        assert( idx == Server::number_of_attributes );
        assert( cccd == Server::number_of_client_configs );
        std::string r = "mtu=" + std::to_string( Server::maximum_channel_mtu_size ) + " enc=" + opts_of< typename Server::server_t >::enc()
            + " queue=" + b01( opts_of< typename Server::server_t >::has_queue ) + " ntf=";
        Server s;
        for ( std::size_t p = 0; p != cccd; ++p )
            r += ( p ? "," : "" ) + std::to_string( s.find_notification_data_by_index( p ).attribute_table_index() );
        if ( cccd == 0 ) r += "-";
        r += " attrs=";
        for ( std::size_t i = 0; i != rows.size(); ++i )
            r += ( i ? "|" : "" ) + rows[ i ];
        return r;
    }
};

// ---------------------------------------------------------------------------------------------
struct server_if
{
    virtual ~server_if() {}
    virtual std::string table() = 0;
    virtual void sec( unsigned c, bool enc, unsigned pairing ) = 0;
    virtual std::string pdu( unsigned c, std::size_t outsize, const std::vector< std::uint8_t >& in ) = 0;
    virtual std::string ntf( unsigned c, std::size_t pos, bool indication, std::size_t outsize ) = 0;
    virtual std::string cccd( unsigned c ) = 0;
    virtual std::string mtu( unsigned c ) = 0;
};

template < class Server >
struct wrapper : server_if
{
    using con_t = typename Server::template channel_data_t< bluetoe::details::link_state >;
    Server srv;
    con_t  con[ 3 ];

    std::string table() override { return dumper< Server >().run(); }

    void sec( unsigned c, bool enc, unsigned pairing ) override
    {
        con[ c ].is_encrypted( enc );
        con[ c ].pairing_status( static_cast< bluetoe::device_pairing_status >( pairing ) );
    }

    std::string pdu( unsigned c, std::size_t outsize, const std::vector< std::uint8_t >& in ) override
    {
        std::unique_ptr< std::uint8_t[] > ib( new std::uint8_t[ in.size() ] ), ob( new std::uint8_t[ outsize ] );
        std::copy( in.begin(), in.end(), ib.get() );
        std::fill( ob.get(), ob.get() + outsize, 0xA5 );
        std::size_t out_size = outsize;
        srv.l2cap_input( ib.get(), in.size(), ob.get(), out_size, con[ c ] );
        if ( out_size > outsize )
            return "OVERSIZE " + std::to_string( out_size );
        return verif::to_hex( ob.get(), out_size );
    }

    std::string ntf( unsigned c, std::size_t pos, bool indication, std::size_t outsize ) override
    {
        if ( pos >= Server::number_of_client_configs )
            return "bad-op";
        return ntf_impl( c, pos, indication, outsize, std::integral_constant< bool, Server::number_of_client_configs != 0 >() );
    }

    std::string ntf_impl( unsigned, std::size_t, bool, std::size_t, std::false_type ) { return "bad-op"; }
    std::string ntf_impl( unsigned c, std::size_t pos, bool indication, std::size_t outsize, std::true_type )
    {
        con[ c ].clear_indications_and_confirmations();
        if ( indication ) con[ c ].queue_indication( pos ); else con[ c ].queue_notification( pos );
        std::unique_ptr< std::uint8_t[] > ob( new std::uint8_t[ outsize ] );
        std::fill( ob.get(), ob.get() + outsize, 0xA5 );
        std::size_t out_size = outsize;
        srv.l2cap_output( ob.get(), out_size, con[ c ] );
        con[ c ].clear_indications_and_confirmations();
        if ( out_size > outsize )
            return "OVERSIZE " + std::to_string( out_size );
        return verif::to_hex( ob.get(), out_size );
    }

    std::string cccd( unsigned c ) override
    {
        return cccd_impl( c, std::integral_constant< bool, Server::number_of_client_configs != 0 >() );
    }
    std::string cccd_impl( unsigned, std::false_type ) { return "-"; }
    std::string cccd_impl( unsigned c, std::true_type )
    {
        std::string r;
        for ( std::size_t p = 0; p != Server::number_of_client_configs; ++p )
            r += static_cast< char >( '0' + con[ c ].client_configurations().flags( p ) );
        return r;
    }

    std::string mtu( unsigned c ) override
    {
        return std::to_string( con[ c ].client_mtu() ) + " " + std::to_string( con[ c ].negotiated_mtu() );
    }
};

// all 4^3 placements of {none, requires, no_encryption_required, may_require} at server / service /
// characteristic level, evaluated by the REAL characteristic_requires_encryption<> template (only
// the option packs matter, nothing else of the declarations is instantiated)
template < int O > struct eo { using type = typename fam::encopt< O >::type; };
template <> struct eo< 0 > { using type = bluetoe::no_gap_service_for_gatt_servers; };   // any non-encryption option
template < int A, int B, int C >
struct enc_case
{
    static constexpr bool value = bluetoe::details::characteristic_requires_encryption<
        bluetoe::characteristic< typename eo< C >::type >,
        bluetoe::service< typename eo< B >::type >,
        bluetoe::server< typename eo< A >::type > >::value;
};
template < int I >
struct enc_all { static void run( std::string& r ) { enc_all< I - 1 >::run( r ); r += enc_case< I / 16, ( I / 4 ) % 4, I % 4 >::value ? '1' : '0'; } };
template <>
struct enc_all< -1 > { static void run( std::string& ) {} };

template < class S > std::unique_ptr< server_if > mk() { return std::unique_ptr< server_if >( new wrapper< S > ); }

std::unique_ptr< server_if > make( const std::string& n )
{
    using namespace fam;
    if ( n == "G1" ) return mk< G1 >();
    if ( n == "G2" ) return mk< G2 >();
    if ( n == "G3" ) return mk< G3 >();
    if ( n == "G4" ) return mk< G4 >();
    if ( n == "G5" ) return mk< G5 >();
    if ( n == "G6" ) return mk< G6 >();
    if ( n == "G7" ) return mk< G7 >();
    if ( n == "G8" ) return mk< G8 >();
    if ( n == "G9" ) return mk< G9 >();
    if ( n == "A1" ) return mk< A1 >();
    if ( n == "A2" ) return mk< A2 >();
    if ( n == "Q1" ) return mk< Q1 >();
    if ( n == "Q2" ) return mk< Q2 >();
#define EE( a, b, c ) if ( n == "E" #a #b #c ) return mk< E< a, b, c > >();
    EE( 1, 2, 3 ) EE( 2, 3, 1 ) EE( 3, 1, 2 ) EE( 3, 3, 3 )
#define FF( b, c ) if ( n == "F" #b #c ) return mk< F< b, c > >();
    FF( 2, 1 )
    return std::unique_ptr< server_if >();
}

}

int main()
{
    init_cells();
    std::unique_ptr< server_if > s = make( "G1" );
    return verif::line_loop( [&]( const std::vector< std::string >& w ) -> std::string {
        unsigned long long a = 0, b = 0, c = 0;
        if ( w.empty() ) return "bad-op";
        if ( w[ 0 ] == "reset" && w.size() == 2 )
        {
            auto n = make( w[ 1 ] );
            if ( !n ) return "bad-op";
            restore_cells();
            s = std::move( n );
            return "ok";
        }
        if ( w[ 0 ] == "def" || w[ 0 ] == "defcells" ) return "ok";     // model-only ops (table / memory hand-over)
        if ( w[ 0 ] == "table" && w.size() == 1 ) return s->table();
        if ( w[ 0 ] == "enctable" && w.size() == 1 ) { std::string r; enc_all< 63 >::run( r ); return r; }
        if ( w[ 0 ] == "sec" && w.size() == 4 && verif::parse_u64( w[ 1 ], a ) && verif::parse_u64( w[ 2 ], b ) && verif::parse_u64( w[ 3 ], c ) && a < 3 && b < 2 && c < 4 )
        {
            s->sec( a, b, c );
            return "ok";
        }
        if ( w[ 0 ] == "pdu" && w.size() == 4 && verif::parse_u64( w[ 1 ], a ) && verif::parse_u64( w[ 2 ], b ) && a < 3 && b >= 23 && b <= 4096 )
        {
            std::vector< std::uint8_t > in;
            if ( !verif::parse_hex( w[ 3 ], in ) || in.empty() ) return "bad-op";
            return s->pdu( a, b, in );
        }
        if ( w[ 0 ] == "ntf" && w.size() == 5 && verif::parse_u64( w[ 1 ], a ) && verif::parse_u64( w[ 2 ], b ) && verif::parse_u64( w[ 4 ], c ) && a < 3 && c <= 4096
            && ( w[ 3 ] == "n" || w[ 3 ] == "i" ) )
            return s->ntf( a, b, w[ 3 ] == "i", c );
        if ( w[ 0 ] == "setcell" && w.size() == 3 && verif::parse_u64( w[ 1 ], a ) && a < g_cells.size() )
        {
            std::vector< std::uint8_t > v;
            cell& ce = g_cells[ a ];
            if ( !verif::parse_hex( w[ 2 ], v ) || !ce.p || ce.is_const || v.size() != ce.n ) return "bad-op";
            std::copy( v.begin(), v.end(), ce.p );
            return "ok";
        }
        if ( w[ 0 ] == "mem" && w.size() == 2 && verif::parse_u64( w[ 1 ], a ) && a < 3 )
        {
            std::string r;
            for ( std::size_t i = 0; i != g_cells.size(); ++i )
                if ( g_cells[ i ].p )
                    r += std::to_string( i ) + "=" + verif::to_hex( g_cells[ i ].p, g_cells[ i ].n ) + " ";
            return r + "cccd=" + s->cccd( a );
        }
        if ( w[ 0 ] == "mtu" && w.size() == 2 && verif::parse_u64( w[ 1 ], a ) && a < 3 ) return s->mtu( a );
        return "bad-op";
    } );
}
