// Correspondence harness for C19: drives the real ll_l2cap_sdu_buffer<> (fragmentation and
// reassembly of L2CAP SDUs) from the repository over a mock buffered radio.
//
//   reset <mtu> <ovh> <maxtx>   mtu in {24,65,100,247}, ovh (layout overhead) in {0,1}; the object
//                               under test lives in its own, exactly sized heap block
//   rx <pduhex>                 queue a received LL PDU (2 header bytes, ovh layout bytes, body);
//                               every PDU is its own exactly sized heap block
//   next                        next_ll_l2cap_received():  none | pdu <hex> | sdu <hex>
//                               followed by  q=<queued LL PDUs> cb=<data callbacks during the call>
//                               rs=<receive_size_> ru=<receive_buffer_used_> inv=<0|1> (inv: used, size and used + size within receive_buffer_)
//                               tx=<PDUs sent during the call>
//   free                        free_ll_l2cap_received():  ok q= rs= ru= | underflow ...
//   take                        what the link layer does: next, and free if something was handed out;
//                               prints both results separated by " | "
//   maxtx <n>                   max_tx_size() of the radio
//   bufs <n>                    n more free LL transmit buffers
//   send <framehex>             allocate_l2cap_transmit_buffer( frame.size - 4 ), fill, commit:
//                               busy | ok tx=<pdu>,<pdu>,... ts=<transmit_size_> tu=<transmit_buffer_used_>
//   pump <n>                    allocate_ll_transmit_buffer( n ) (calls try_send_pdus):  got=<size> tx=... ts= tu=
//   llsend <pduhex>             allocate_ll_transmit_buffer + fill + commit_ll_transmit_buffer:  full|ok tx=... ts= tu=
#include "common/proto.hpp"
#include <cassert>
#include <deque>
#include <memory>

#define private public
#include <bluetoe/ll_l2cap_sdu_buffer.hpp>
#undef private

using bluetoe::link_layer::read_buffer;
using bluetoe::link_layer::write_buffer;
typedef std::vector< std::uint8_t > bytes;

// same shape as tests/test_tools/test_layout.hpp: 16 bit header, Overhead unused bytes, body
template < std::size_t Overhead >
struct layout_with_overhead
{
    static constexpr std::size_t header_size = 2;

    static std::uint16_t header( const std::uint8_t* pdu ) { return pdu[ 0 ] | ( pdu[ 1 ] << 8 ); }
    static void header( std::uint8_t* pdu, std::uint16_t v ) { pdu[ 0 ] = v & 0xff; pdu[ 1 ] = v >> 8; }
    static std::uint16_t header( const read_buffer& pdu ) { assert( pdu.size >= header_size + Overhead ); return header( pdu.buffer ); }
    static std::uint16_t header( const write_buffer& pdu ) { assert( pdu.size >= header_size + Overhead ); return header( pdu.buffer ); }
    static void header( const read_buffer& pdu, std::uint16_t v ) { assert( pdu.size >= header_size + Overhead ); header( pdu.buffer, v ); }

    static std::pair< std::uint8_t*, std::uint8_t* > body( const read_buffer& pdu )
    {
        assert( pdu.size >= header_size + Overhead );
        return std::pair< std::uint8_t*, std::uint8_t* >( pdu.buffer + header_size + Overhead, pdu.buffer + pdu.size );
    }

    static std::pair< const std::uint8_t*, const std::uint8_t* > body( const write_buffer& pdu )
    {
        assert( pdu.size >= header_size + Overhead );
        return std::pair< const std::uint8_t*, const std::uint8_t* >( pdu.buffer + header_size + Overhead, pdu.buffer + pdu.size );
    }

    static constexpr std::size_t data_channel_pdu_memory_size( std::size_t payload ) { return header_size + Overhead + payload; }
};

struct mock_state
{
    std::deque< std::unique_ptr< std::uint8_t[] > > rx;
    std::deque< std::size_t >                      rx_size;
    std::size_t                                    free_tx = 0;
    std::size_t                                    max_tx  = 29;
    std::unique_ptr< std::uint8_t[] >              cur_tx;
    std::size_t                                    cur_tx_size = 0;
    std::vector< bytes >                           sent;
    unsigned                                       callbacks = 0;
    bool                                           underflow = false;
};

template < std::size_t Overhead >
struct mock_radio
{
    static constexpr std::size_t header_size     = 2;
    static constexpr std::size_t layout_overhead = Overhead;
    using layout = layout_with_overhead< Overhead >;

    mutable mock_state m;

    read_buffer allocate_transmit_buffer( std::size_t size )
    {
        if ( m.free_tx == 0 )
            return read_buffer{ nullptr, 0 };

        // idempotent as long as nothing was committed; exactly sized, so ASan sees every overrun
        if ( !m.cur_tx || m.cur_tx_size != size )
        {
            m.cur_tx.reset( new std::uint8_t[ size ? size : 1 ] );
            m.cur_tx_size = size;
            std::memset( m.cur_tx.get(), 0xEE, size );
        }

        return read_buffer{ m.cur_tx.get(), size };
    }

    void commit_transmit_buffer( read_buffer b )
    {
        m.sent.push_back( bytes( b.buffer, b.buffer + b.size ) );
        if ( m.free_tx ) --m.free_tx;
        m.cur_tx.reset();
        m.cur_tx_size = 0;
    }

    write_buffer next_received() const
    {
        if ( m.rx.empty() )
            return write_buffer{ nullptr, 0 };

        return write_buffer{ m.rx.front().get(), m.rx_size.front() };
    }

    void free_received()
    {
        if ( m.rx.empty() ) { m.underflow = true; return; }
        m.rx.pop_front();
        m.rx_size.pop_front();
    }

    std::size_t max_tx_size() const { return m.max_tx; }

    void pdu_receive_data_callback( const write_buffer& ) { ++m.callbacks; }
};

struct sdu_if
{
    virtual ~sdu_if() {}
    virtual mock_state& mock() = 0;
    virtual std::size_t mtu() const = 0;
    virtual std::size_t ovh() const = 0;
    virtual std::string next() = 0;
    virtual std::string free_() = 0;
    virtual std::string send( const bytes& frame ) = 0;
    virtual std::string pump( std::size_t n ) = 0;
    virtual std::string llsend( const bytes& pdu ) = 0;
};

static std::string sent_str( mock_state& m )
{
    std::string r = " tx=";
    if ( m.sent.empty() ) r += "-";
    for ( std::size_t i = 0; i != m.sent.size(); ++i )
        r += ( i ? "," : "" ) + verif::to_hex( m.sent[ i ] );
    m.sent.clear();
    return r;
}

template < std::size_t MTU, std::size_t Overhead >
struct wrapper : sdu_if
{
    typedef mock_radio< Overhead > radio_t;
    struct but_t : bluetoe::link_layer::ll_l2cap_sdu_buffer< radio_t, radio_t, MTU > {};

    // the object under test at the end of an exactly sized heap block
    std::unique_ptr< but_t > but;

    wrapper() : but( new but_t )
    {
        // transmit_buffer_ is not initialised by the constructor; an SDU committed with a length
        // field larger than what was written sends those bytes: make them deterministic
        std::memset( but->transmit_buffer_, 0, sizeof( but->transmit_buffer_ ) );
    }

    mock_state& mock() override { return but->m; }
    std::size_t mtu() const override { return MTU; }
    std::size_t ovh() const override { return Overhead; }

    std::string rx_state()
    {
        const std::size_t cap = sizeof( but->receive_buffer_ );
        const std::size_t rs = but->receive_size_, ru = but->receive_buffer_used_;
        const bool inv = ru <= cap && rs <= cap && ru + rs <= cap;
        return " rs=" + std::to_string( rs ) + " ru=" + std::to_string( ru ) + " inv=" + ( inv ? "1" : "0" );
    }

    std::string tx_state()
    {
        return " ts=" + std::to_string( but->transmit_size_ ) + " tu=" + std::to_string( but->transmit_buffer_used_ );
    }

    std::string next() override
    {
        mock_state& m = but->m;
        m.callbacks = 0;
        const write_buffer r = but->next_ll_l2cap_received();
        std::string out;
        if ( r.size == 0 )
            out = "none";
        else if ( r.buffer == but->receive_buffer_ )
            out = "sdu " + verif::to_hex( r.buffer, r.size );
        else
            out = "pdu " + verif::to_hex( r.buffer, r.size );

        out += " q=" + std::to_string( m.rx.size() ) + " cb=" + std::to_string( m.callbacks ) + rx_state() + sent_str( m );
        return out;
    }

    std::string free_() override
    {
        mock_state& m = but->m;
        m.underflow = false;
        but->free_ll_l2cap_received();
        return std::string( m.underflow ? "underflow" : "ok" ) + " q=" + std::to_string( m.rx.size() ) + rx_state();
    }

    std::string send( const bytes& frame ) override
    {
        const read_buffer b = but->allocate_l2cap_transmit_buffer( frame.size() - 4 );
        if ( b.size == 0 )
            return "busy";

        assert( b.size == frame.size() + 2 + Overhead );
        std::memset( b.buffer, 0xCC, 2 + Overhead );
        std::copy( frame.begin(), frame.end(), b.buffer + 2 + Overhead );
        but->commit_l2cap_transmit_buffer( b );

        return "ok" + sent_str( but->m ) + tx_state();
    }

    std::string pump( std::size_t n ) override
    {
        const read_buffer b = but->allocate_ll_transmit_buffer( n );
        return "got=" + std::to_string( b.size ) + sent_str( but->m ) + tx_state();
    }

    std::string llsend( const bytes& pdu ) override
    {
        const read_buffer b = but->allocate_ll_transmit_buffer( pdu.size() - 2 - Overhead );
        if ( b.size == 0 )
            return "full" + sent_str( but->m ) + tx_state();

        assert( b.size == pdu.size() );
        std::copy( pdu.begin(), pdu.end(), b.buffer );
        but->commit_ll_transmit_buffer( b );
        return "ok" + sent_str( but->m ) + tx_state();
    }
};

static std::unique_ptr< sdu_if > make( unsigned long long mtu, unsigned long long ovh )
{
#define CASE( M, O ) if ( mtu == M && ovh == O ) return std::unique_ptr< sdu_if >( new wrapper< M, O > )
    CASE( 24, 0 ); CASE( 24, 1 ); CASE( 65, 1 );
    CASE( 100, 1 ); CASE( 247, 0 );
#undef CASE
    return std::unique_ptr< sdu_if >();
}

int main()
{
    std::unique_ptr< sdu_if > s = make( 65, 0 );

    return verif::line_loop( [&]( const std::vector< std::string >& w ) -> std::string {
        unsigned long long a = 0, b = 0, c = 0;
        bytes data;
        if ( w.empty() ) return "bad-op";
        const std::string& op = w[ 0 ];

        if ( op == "reset" && w.size() == 4 && verif::parse_u64( w[ 1 ], a ) && verif::parse_u64( w[ 2 ], b ) && verif::parse_u64( w[ 3 ], c ) )
        {
            auto n = make( a, b );
            if ( !n ) return "bad-op";
            s = std::move( n );
            s->mock().max_tx = c;
            return "ok";
        }
        if ( op == "rx" && w.size() == 2 && verif::parse_hex( w[ 1 ], data ) )
        {
            if ( data.size() < 2 + s->ovh() ) return "bad-op";
            std::unique_ptr< std::uint8_t[] > p( new std::uint8_t[ data.size() ] );
            std::copy( data.begin(), data.end(), p.get() );
            s->mock().rx.push_back( std::move( p ) );
            s->mock().rx_size.push_back( data.size() );
            return "ok";
        }
        if ( op == "next" && w.size() == 1 ) return s->next();
        if ( op == "free" && w.size() == 1 ) return s->free_();
        if ( op == "take" && w.size() == 1 )
        {
            const std::string n = s->next();
            return n.compare( 0, 4, "none" ) == 0 ? n : n + " | " + s->free_();
        }
        if ( op == "maxtx" && w.size() == 2 && verif::parse_u64( w[ 1 ], a ) ) { s->mock().max_tx = a; return "ok"; }
        if ( op == "bufs" && w.size() == 2 && verif::parse_u64( w[ 1 ], a ) ) { s->mock().free_tx += a; return "ok"; }
        if ( op == "send" && w.size() == 2 && verif::parse_hex( w[ 1 ], data ) )
        {
            if ( data.size() < 4 || data.size() - 4 > s->mtu() ) return "bad-op";
            if ( std::size_t( data[ 0 ] | ( data[ 1 ] << 8 ) ) > s->mtu() ) return "bad-op";
            return s->send( data );
        }
        if ( op == "pump" && w.size() == 2 && verif::parse_u64( w[ 1 ], a ) ) return s->pump( a );
        if ( op == "llsend" && w.size() == 2 && verif::parse_hex( w[ 1 ], data ) )
        {
            if ( data.size() < 2 + s->ovh() ) return "bad-op";
            return s->llsend( data );
        }
        return "bad-op";
    } );
}
