// Correspondence harness for C09: real bluetoe::server<> types with 1, 4, 5 and 9 Client
// Characteristic Configuration Descriptors, with and without outgoing priorities (which permute
// the position of a CCCD in the per connection 2-bit array), driven through ATT Read / Read Blob /
// Write Requests and Write Commands on three connections.
//   bluetoe/utility/include/bluetoe/client_characteristic_configuration.hpp (2-bit packing)
//   bluetoe/characteristic.hpp (CCCD attribute access), bluetoe/find_notification_data.hpp (cccd_indices)
// Line protocol and wrapper: attwq/att_wrapper.hpp
#include "attwq/att_wrapper.hpp"

namespace {
using namespace verif_att;

std::uint8_t v[ 12 ][ 2 ];
std::uint8_t a0[ 2 ], a1[ 2 ], a2[ 2 ], a3[ 2 ], a4[ 2 ], a5[ 2 ], a6[ 2 ], a7[ 2 ], a8[ 2 ], a9[ 2 ], a10[ 2 ];

#define VAL( x ) b::bind_characteristic_value< decltype( x ), &x >

// C1: a single CCCD
using C1 = b::server<
    b::no_gap_service_for_gatt_servers, cbopt,
    b::service< b::service_uuid16< 0x1000 >,
        b::characteristic< cu< 0x2000 >, VAL( a0 ), b::notify > > >;

// C4: four CCCDs fill exactly one byte; characteristics without CCCD in between
using C4 = b::server<
    b::no_gap_service_for_gatt_servers, cbopt,
    b::service< b::service_uuid16< 0x1000 >,
        b::characteristic< cu< 0x2000 >, VAL( a0 ), b::notify >,
        b::characteristic< cu< 0x2001 >, VAL( a1 ) >,
        b::characteristic< cu< 0x2002 >, VAL( a2 ), b::indicate >,
        b::characteristic< cu< 0x2003 >, VAL( a3 ), b::notify, b::indicate >,
        b::characteristic< cu< 0x2004 >, VAL( a4 ), b::notify > > >;

// C5: five CCCDs cross the byte boundary
using C5 = b::server<
    b::no_gap_service_for_gatt_servers, cbopt,
    b::service< b::service_uuid16< 0x1000 >,
        b::characteristic< cu< 0x2000 >, VAL( a0 ), b::notify >,
        b::characteristic< cu< 0x2001 >, VAL( a1 ), b::notify, b::indicate >,
        b::characteristic< cu< 0x2002 >, VAL( a2 ), b::indicate >,
        b::characteristic< cu< 0x2003 >, VAL( a3 ), b::notify >,
        b::characteristic< cu< 0x2004 >, VAL( a4 ), b::notify, b::indicate > > >;

// C5P: the same with priorities inside the service: 2003 highest, then 2001, then the rest
using C5P = b::server<
    b::no_gap_service_for_gatt_servers, cbopt,
    b::service< b::service_uuid16< 0x1000 >,
        b::characteristic< cu< 0x2000 >, VAL( a0 ), b::notify >,
        b::characteristic< cu< 0x2001 >, VAL( a1 ), b::notify, b::indicate >,
        b::characteristic< cu< 0x2002 >, VAL( a2 ), b::indicate >,
        b::characteristic< cu< 0x2003 >, VAL( a3 ), b::notify >,
        b::characteristic< cu< 0x2004 >, VAL( a4 ), b::notify, b::indicate >,
        b::higher_outgoing_priority< cu< 0x2003 >, cu< 0x2001 > > > >;

// C9: nine CCCDs in two services (three bytes), one characteristic requires encryption
using C9 = b::server<
    b::no_gap_service_for_gatt_servers, cbopt,
    b::service< b::service_uuid16< 0x1000 >,
        b::characteristic< cu< 0x2000 >, VAL( a0 ), b::notify >,
        b::characteristic< cu< 0x2001 >, VAL( a1 ), b::notify >,
        b::characteristic< cu< 0x2002 >, VAL( a2 ), b::indicate, b::requires_encryption >,
        b::characteristic< cu< 0x2003 >, VAL( a3 ) >,
        b::characteristic< cu< 0x2004 >, VAL( a4 ), b::notify, b::indicate > >,
    b::service< b::service_uuid16< 0x1001 >,
        b::characteristic< cu< 0x2005 >, VAL( a5 ), b::notify >,
        b::characteristic< cu< 0x2006 >, VAL( a6 ), b::indicate >,
        b::characteristic< cu< 0x2007 >, VAL( a7 ), b::notify >,
        b::characteristic< cu< 0x2008 >, VAL( a8 ), b::notify, b::indicate >,
        b::characteristic< cu< 0x2009 >, VAL( a9 ), b::indicate > > >;

// C9P: the same with priorities at server level (second service first) and inside both services
using C9P = b::server<
    b::no_gap_service_for_gatt_servers, cbopt,
    b::higher_outgoing_priority< b::service_uuid16< 0x1001 > >,
    b::service< b::service_uuid16< 0x1000 >,
        b::characteristic< cu< 0x2000 >, VAL( a0 ), b::notify >,
        b::characteristic< cu< 0x2001 >, VAL( a1 ), b::notify >,
        b::characteristic< cu< 0x2002 >, VAL( a2 ), b::indicate, b::requires_encryption >,
        b::characteristic< cu< 0x2003 >, VAL( a3 ) >,
        b::characteristic< cu< 0x2004 >, VAL( a4 ), b::notify, b::indicate >,
        b::higher_outgoing_priority< cu< 0x2004 > > >,
    b::service< b::service_uuid16< 0x1001 >,
        b::characteristic< cu< 0x2005 >, VAL( a5 ), b::notify >,
        b::characteristic< cu< 0x2006 >, VAL( a6 ), b::indicate >,
        b::characteristic< cu< 0x2007 >, VAL( a7 ), b::notify >,
        b::characteristic< cu< 0x2008 >, VAL( a8 ), b::notify, b::indicate >,
        b::characteristic< cu< 0x2009 >, VAL( a9 ), b::indicate >,
        b::higher_outgoing_priority< cu< 0x2008 >, cu< 0x2006 > > > >;

const std::vector< named >& servers()
{
    static const std::vector< named > all = {
        { "C1", &make< C1 >, { rw( a0, 2 ) } },
        { "C4", &make< C4 >, { rw( a0, 2 ), rw( a1, 2 ), rw( a2, 2 ), rw( a3, 2 ), rw( a4, 2 ) } },
        { "C5", &make< C5 >, { rw( a0, 2 ), rw( a1, 2 ), rw( a2, 2 ), rw( a3, 2 ), rw( a4, 2 ) } },
        { "C5P", &make< C5P >, { rw( a0, 2 ), rw( a1, 2 ), rw( a2, 2 ), rw( a3, 2 ), rw( a4, 2 ) } },
        { "C9", &make< C9 >, { rw( a0, 2 ), rw( a1, 2 ), rw( a2, 2 ), rw( a3, 2 ), rw( a4, 2 ), rw( a5, 2 ), rw( a6, 2 ), rw( a7, 2 ), rw( a8, 2 ), rw( a9, 2 ) } },
        { "C9P", &make< C9P >, { rw( a0, 2 ), rw( a1, 2 ), rw( a2, 2 ), rw( a3, 2 ), rw( a4, 2 ), rw( a5, 2 ), rw( a6, 2 ), rw( a7, 2 ), rw( a8, 2 ), rw( a9, 2 ) } },
    };
    return all;
}

}

int main()
{
    return run( servers() );
}
