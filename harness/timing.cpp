// Correspondence harness for C22 (connection event timing and supervision): drives the REAL
// bluetoe::link_layer::link_layer<> on tests/test_tools/test_radio, one radio event per op.
//
//   reset <cfg>   new link layer, first advertising PDU scheduled.
//                 cfg bit 0: 0 = peripheral_latency_configuration<> (use the full peripheral latency),
//                            1 = peripheral_latency_ignored (listen to every event)
//                 cfg bit 1: 0 = default device sleep clock accuracy (500 ppm),
//                            1 = sleep_clock_accuracy_ppm< 20 >
//   connect <ws> <wo> <iv> <lat> <to> <sca> <hop>
//                 the central answers the scheduled advertising PDU with a CONNECT_IND carrying
//                 transmitWindowSize, transmitWindowOffset, connInterval, connPeripheralLatency,
//                 connSupervisionTimeout (raw protocol units), SCA (0..7) and hop (5..16)
//   ev            the planned connection event takes place (the central sends an empty PDU)
//   upd <ws> <wo> <iv> <lat> <to> <delta>
//                 the planned connection event takes place, the central sends
//                 LL_CONNECTION_UPDATE_IND with instant = connEventCounter of that event + delta
//   to            the planned connection event is lost (nothing received = timeout())
//   proc <usec>   harness device: procedure_timeout_ = usec (as if a LL procedure of the
//                 peripheral were waiting for its response)
//
// Every op answers with the state after the op, in particular with the arguments of the
// schedule_connection_event() call that planned the next connection event (see state_line()).
#include "common/proto.hpp"
#include <functional>
#include <vector>
#include <initializer_list>
#include <iosfwd>
#include <iostream>
#include <sstream>
#include <memory>
#include <tuple>
#include <type_traits>
#include <cassert>
#include <utility>
#include <map>
#include <set>
#include <array>
#include <limits>
#include <ostream>
#include <string>
#include <atomic>

#define private public
#define protected public
#include <bluetoe/link_layer.hpp>
#include <bluetoe/server.hpp>
#include "tests/test_tools/test_radio.hpp"
#undef private
#undef protected

namespace ll = bluetoe::link_layer;

static std::uint8_t char_value = 0;

typedef bluetoe::server<
    bluetoe::service<
        bluetoe::service_uuid< 0x8C8B4094, 0x0DE2, 0x499F, 0xA28A, 0x4EED5BC73CA9 >,
        bluetoe::characteristic<
            bluetoe::characteristic_uuid< 0x8C8B4094, 0x0DE2, 0x499F, 0xA28A, 0x4EED5BC73CAA >,
            bluetoe::bind_characteristic_value< std::uint8_t, &char_value >
        >
    >,
    bluetoe::no_gap_service_for_gatt_servers
> server_t;

struct ll_if
{
    virtual ~ll_if() {}
    virtual std::string start() = 0;
    virtual std::string connect( const std::vector< unsigned long long >& n ) = 0;
    virtual std::string event( const std::vector< std::uint8_t >& pdu ) = 0;
    virtual std::string update( const std::vector< unsigned long long >& n ) = 0;
    virtual std::string lost() = 0;
    virtual std::string proc( unsigned long long usec ) = 0;
};

template < class... Options >
struct link : ll::link_layer< server_t, test::radio, Options... >, ll_if
{
    typedef ll::link_layer< server_t, test::radio, Options... > base;

    bool connected() const
    {
        return this->state_ == base::state::connected || this->state_ == base::state::connecting
            || this->state_ == base::state::connection_changed || this->state_ == base::state::disconnecting;
    }

    // exactly one iteration of the radio's simulation loop (one advertising or connection event)
    void one_step()
    {
        // the radio's absolute time (32 bit us) is irrelevant here; keep it from overflowing in long sessions
        this->now_ = ll::delta_time();
        this->wake_up();
        base::run();
    }

    std::string start() override
    {
        this->end_of_simulation( ll::delta_time::seconds( 2000 ) );
        adv_before_ = this->advertised_data_.size();
        one_step();     // state initial -> advertising, first advertising PDU scheduled, radio performs it (no response)
        return state_line();
    }

    std::string connect( const std::vector< unsigned long long >& n ) override
    {
        if ( this->state_ != base::state::advertising )
            return "bad-op";

        // nothing scheduled: the link layer will never be called again by the radio
        if ( !this->advertising_response_ )
            return "stalled";

        const unsigned channel = this->advertised_data_.back().channel;
        const std::vector< std::uint8_t > pdu = {
            0xc5, 0x22,
            0x3c, 0x1c, 0x62, 0x92, 0xf0, 0x48,             // InitA
            0x47, 0x11, 0x08, 0x15, 0x0f, 0xc0,             // AdvA
            0x5a, 0xb3, 0x9a, 0xaf,
            0x08, 0x81, 0xf6,
            static_cast< std::uint8_t >( n[ 0 ] ),
            static_cast< std::uint8_t >( n[ 1 ] ), static_cast< std::uint8_t >( n[ 1 ] >> 8 ),
            static_cast< std::uint8_t >( n[ 2 ] ), static_cast< std::uint8_t >( n[ 2 ] >> 8 ),
            static_cast< std::uint8_t >( n[ 3 ] ), static_cast< std::uint8_t >( n[ 3 ] >> 8 ),
            static_cast< std::uint8_t >( n[ 4 ] ), static_cast< std::uint8_t >( n[ 4 ] >> 8 ),
            0xff, 0xff, 0xff, 0xff, 0x1f,
            static_cast< std::uint8_t >( ( n[ 5 ] << 5 ) | n[ 6 ] ) };

        this->respond_to( channel, pdu );
        adv_before_ = this->advertised_data_.size();
        one_step();
        return state_line();
    }

    std::string event( const std::vector< std::uint8_t >& pdu ) override
    {
        if ( !connected() )
            return "bad-op";

        const std::uint8_t sn = this->central_sequence_number_, nesn = this->central_ne_sequence_number_;
        test::pdu_list_t list;
        list.push_back( test::pdu_t( pdu ) );

        bool consumed = false;
        this->add_connection_event_respond( test::connection_event_response( std::function< test::pdu_list_t () >(
            [ &, sn, nesn ]() -> test::pdu_list_t {
                // run() has reset the central's sequence numbers; continue where the last event ended
                this->central_sequence_number_    = sn;
                this->central_ne_sequence_number_ = nesn;
                consumed = true;
                return list;
            } ) ) );

        adv_before_ = this->advertised_data_.size();
        one_step();
        assert( consumed );
        return state_line();
    }

    std::string update( const std::vector< unsigned long long >& n ) override
    {
        if ( !connected() || !this->defered_ll_control_pdu_.empty() )
            return "bad-op";

        const unsigned instant = ( this->connection_event_counter() + n[ 5 ] ) & 0xffff;

        return event( {
            0x03, 0x0c, 0x00,
            static_cast< std::uint8_t >( n[ 0 ] ),
            static_cast< std::uint8_t >( n[ 1 ] ), static_cast< std::uint8_t >( n[ 1 ] >> 8 ),
            static_cast< std::uint8_t >( n[ 2 ] ), static_cast< std::uint8_t >( n[ 2 ] >> 8 ),
            static_cast< std::uint8_t >( n[ 3 ] ), static_cast< std::uint8_t >( n[ 3 ] >> 8 ),
            static_cast< std::uint8_t >( n[ 4 ] ), static_cast< std::uint8_t >( n[ 4 ] >> 8 ),
            static_cast< std::uint8_t >( instant ), static_cast< std::uint8_t >( instant >> 8 ) } );
    }

    std::string lost() override
    {
        if ( !connected() )
            return "bad-op";

        const std::uint8_t sn = this->central_sequence_number_, nesn = this->central_ne_sequence_number_;
        this->add_connection_event_respond_timeout();
        adv_before_ = this->advertised_data_.size();
        one_step();
        this->central_sequence_number_    = sn;
        this->central_ne_sequence_number_ = nesn;
        return state_line();
    }

    std::string proc( unsigned long long usec ) override
    {
        if ( !connected() )
            return "bad-op";

        this->procedure_timeout_ = ll::delta_time( static_cast< std::uint32_t >( usec ) );
        return state_line();
    }

    // not connected:  adv reason=<disconnecting_reason_> sched=<an advertising PDU is scheduled>
    // connected:      st    connecting | connected | changed | disconnecting
    //                 E     connEventCounter of the planned event
    //                 ts    time_since_last_event_ (us): distance last anchor -> planned event
    //                 ws wo transmit_window_size_ / transmit_window_offset_ (us) in force for the planned event
    //                 iv lat to   connection_interval_ (us), peripheral_latency_, connection_timeout_ (us)
    //                 sca   cumulated_sleep_clock_accuracy_
    //                 proc  procedure_timeout_ (us)
    //                 pend inst   deferred LL_CONNECTION_UPDATE_IND and its instant
    //                 win   start_receive,end_receive,connection_interval as given to the radio's
    //                       schedule_connection_event() for the planned event
    std::string state_line()
    {
        std::ostringstream out;
        if ( !connected() )
        {
            // disconnecting_reason_ is not initialised before the first connection
            out << "adv reason=" << ( was_connected_ ? unsigned( this->disconnecting_reason_ ) : 0u )
                << " sched=" << ( this->advertising_response_ && this->advertised_data_.size() > adv_before_ ? 1 : 0 );
            return out.str();
        }

        was_connected_ = true;
        const char* st = this->state_ == base::state::connecting ? "connecting"
                       : this->state_ == base::state::connected ? "connected"
                       : this->state_ == base::state::connection_changed ? "changed" : "disconnecting";
        const test::connection_event& planned = this->connection_events_.back();

        out << "st=" << st
            << " E=" << this->connection_event_counter()
            << " ts=" << this->time_since_last_event().usec()
            << " ws=" << this->transmit_window_size_.usec()
            << " wo=" << this->transmit_window_offset_.usec()
            << " iv=" << this->connection_interval_.usec()
            << " lat=" << this->peripheral_latency_
            << " to=" << this->connection_timeout_.usec()
            << " sca=" << this->cumulated_sleep_clock_accuracy_
            << " proc=" << this->procedure_timeout_.usec()
            << " pend=" << ( this->defered_ll_control_pdu_.empty() ? 0 : 1 );
        if ( !this->defered_ll_control_pdu_.empty() )
            out << " inst=" << this->defered_conn_event_counter_;
        out << " win=" << planned.start_receive.usec() << "," << planned.end_receive.usec() << "," << planned.connection_interval.usec();
        return out.str();
    }

    std::size_t adv_before_ = 0;
    bool        was_connected_ = false;
};

typedef ll::peripheral_latency_configuration<> full_latency;
typedef ll::peripheral_latency_ignored         listen_always;

typedef link< ll::buffer_sizes< 200, 200 >, ll::peripheral_latency_configuration_set< full_latency, listen_always > > link_500_t;
typedef link< ll::buffer_sizes< 200, 200 >, ll::peripheral_latency_configuration_set< full_latency, listen_always >,
              ll::sleep_clock_accuracy_ppm< 20 > > link_20_t;

template < class L >
static std::unique_ptr< ll_if > make_link( bool always )
{
    std::unique_ptr< L > result( new L );
    if ( always )
        result->template change_peripheral_latency< listen_always >();
    return std::unique_ptr< ll_if >( result.release() );
}

static std::unique_ptr< ll_if > make( unsigned cfg )
{
    return ( cfg & 2 ) ? make_link< link_20_t >( cfg & 1 ) : make_link< link_500_t >( cfg & 1 );
}

int main()
{
    std::unique_ptr< ll_if > link_layer;

    return verif::line_loop( [&]( const std::vector< std::string >& w ) -> std::string {
        if ( w.empty() ) return "bad-op";

        std::vector< unsigned long long > n;
        bool numeric = true;
        for ( std::size_t i = 1; i < w.size(); ++i )
        {
            unsigned long long v = 0;
            if ( verif::parse_u64( w[ i ], v ) ) n.push_back( v ); else numeric = false;
        }
        if ( !numeric ) return "bad-op";

        if ( w[ 0 ] == "reset" && n.size() == 1 && n[ 0 ] < 4 )
        {
            link_layer = make( n[ 0 ] );
            return link_layer->start();
        }
        if ( !link_layer ) return "bad-op";

        if ( w[ 0 ] == "connect" && n.size() == 7 )
        {
            if ( n[ 0 ] > 0xff || n[ 1 ] > 0xffff || n[ 2 ] > 0xffff || n[ 3 ] > 0xffff || n[ 4 ] > 0xffff || n[ 5 ] > 7
              || n[ 6 ] < 5 || n[ 6 ] > 16 ) return "bad-op";
            return link_layer->connect( n );
        }
        if ( w[ 0 ] == "upd" && n.size() == 6 )
        {
            if ( n[ 0 ] > 0xff || n[ 1 ] > 0xffff || n[ 2 ] > 0xffff || n[ 3 ] > 0xffff || n[ 4 ] > 0xffff || n[ 5 ] > 0xffff ) return "bad-op";
            return link_layer->update( n );
        }
        if ( w[ 0 ] == "ev" && n.empty() )
            return link_layer->event( { 0x01, 0x00 } );
        if ( w[ 0 ] == "to" && n.empty() )
            return link_layer->lost();
        if ( w[ 0 ] == "proc" && n.size() == 1 && n[ 0 ] <= 0xffffffffull )
            return link_layer->proc( n[ 0 ] );
        return "bad-op";
    } );
}
