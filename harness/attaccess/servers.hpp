// Server family for the attaccess component (C01, C05, C06, C08).
// Every server is a REAL bluetoe::server<> type; nothing here re-implements library logic.
// No server uses fixed handles, includes, secondary services or priorities (those belong to the
// atthandles / attdisc / attnotify components): handle = attribute index + 1 for all of them.
#ifndef VERIF_ATTACCESS_SERVERS_HPP
#define VERIF_ATTACCESS_SERVERS_HPP

#include <bluetoe/server.hpp>
#include <bluetoe/service.hpp>
#include <bluetoe/characteristic.hpp>
#include <bluetoe/characteristic_value.hpp>
#include <bluetoe/descriptor.hpp>
#include <bluetoe/encryption.hpp>
#include <bluetoe/gatt_options.hpp>
#include <bluetoe/write_queue.hpp>
#include <bluetoe/gap_service.hpp>

namespace fam {

// ---------------------------------------------------------------------------------------------
// memory cells. Bound values are globals (ASan puts red zones around instrumented globals);
// handler cells are exactly-sized heap blocks.
// ---------------------------------------------------------------------------------------------
std::uint8_t        b_u8   = 0x11;
std::uint16_t       b_u16  = 0x2233;
std::uint32_t       b_u32  = 0x44556677;
const std::uint32_t b_c32  = 0x8899aabb;
std::uint8_t        b_a3[ 3 ];
std::uint8_t        b_a20[ 20 ];
std::uint8_t        b_a22[ 22 ];
std::uint8_t        b_a40[ 40 ];
std::uint8_t        b_a100[ 100 ];
std::uint8_t        b_a250[ 250 ];
std::uint8_t        b_p1[ 16 ];
std::uint8_t        b_p2[ 16 ];
std::uint8_t        b_n0[ 2 ], b_n1[ 2 ], b_n2[ 2 ], b_n3[ 2 ], b_n4[ 2 ], b_n5[ 2 ];   // small notified values (many CCCDs)

static constexpr int first_handler_cell = 32;
static constexpr int n_handler_cells    = 6;
static const std::size_t h_size[ n_handler_cells ] = { 30, 8, 4, 12, 60, 20 };
std::uint8_t* h_ptr[ n_handler_cells ];

// user handlers with a fixed, documented behaviour (mirrored in Model.lean `Handlers.std`)
template < int C >
std::uint8_t h_read_blob( std::size_t offset, std::size_t read_size, std::uint8_t* out, std::size_t& out_size )
{
    if ( offset > h_size[ C ] )
        return bluetoe::error_codes::invalid_offset;
    out_size = std::min( read_size, h_size[ C ] - offset );
    std::copy( h_ptr[ C ] + offset, h_ptr[ C ] + offset + out_size, out );
    return bluetoe::error_codes::success;
}

template < int C >
std::uint8_t h_read( std::size_t read_size, std::uint8_t* out, std::size_t& out_size )
{
    out_size = std::min( read_size, h_size[ C ] );
    std::copy( h_ptr[ C ], h_ptr[ C ] + out_size, out );
    return bluetoe::error_codes::success;
}

template < int C >
std::uint8_t h_write_blob( std::size_t offset, std::size_t write_size, const std::uint8_t* value )
{
    if ( offset > h_size[ C ] )
        return bluetoe::error_codes::invalid_offset;
    if ( offset + write_size > h_size[ C ] )
        return bluetoe::error_codes::invalid_attribute_value_length;
    std::copy( value, value + write_size, h_ptr[ C ] + offset );
    return bluetoe::error_codes::success;
}

// a first byte 0xEE is refused with the application error 0x80 (error codes are passed through)
template < int C >
std::uint8_t h_write( std::size_t write_size, const std::uint8_t* value )
{
    if ( write_size > h_size[ C ] )
        return bluetoe::error_codes::invalid_attribute_value_length;
    if ( write_size >= 1 && value[ 0 ] == 0xEE )
        return 0x80;
    std::copy( value, value + write_size, h_ptr[ C ] );
    return bluetoe::error_codes::success;
}

template < int C > using RB = bluetoe::free_read_blob_handler< &h_read_blob< C > >;
template < int C > using RP = bluetoe::free_read_handler< &h_read< C > >;
template < int C > using WB = bluetoe::free_write_blob_handler< &h_write_blob< C > >;
template < int C > using WP = bluetoe::free_raw_write_handler< &h_write< C > >;

// ---------------------------------------------------------------------------------------------
// constants
// ---------------------------------------------------------------------------------------------
constexpr char name_short[] = "abc";
constexpr char name_long[]  = "This is a long characteristic user description, longer than 23!";
constexpr char text_30[]    = "0123456789abcdefghijABCDEFGHIJ";
static constexpr std::uint8_t blob_60[ 60 ] = {
    0,1,2,3,4,5,6,7,8,9,10,11,12,13,14,15,16,17,18,19,20,21,22,23,24,25,26,27,28,29,
    30,31,32,33,34,35,36,37,38,39,40,41,42,43,44,45,46,47,48,49,50,51,52,53,54,55,56,57,58,59 };
static constexpr std::uint8_t desc_4[ 4 ] = { 0xde, 0xad, 0xbe, 0xef };
static constexpr std::uint8_t desc_30[ 30 ] = { 1,2,3,4,5,6,7,8,9,10,11,12,13,14,15,16,17,18,19,20,21,22,23,24,25,26,27,28,29,30 };

using namespace bluetoe;
using nogap = no_gap_service_for_gatt_servers;
template < class T, T* P > using bind = bind_characteristic_value< T, P >;
#define BIND( x ) bluetoe::bind_characteristic_value< decltype( fam::x ), &fam::x >

using su_a = service_uuid< 0x8C8B4094, 0x0DE2, 0x499F, 0xA28A, 0x4EED5BC73CA9 >;
using su_b = service_uuid< 0x48B7F909, 0xB039, 0x4550, 0x97AF, 0x336228C45CED >;
template < std::uint64_t L > using cu128 = characteristic_uuid< 0xF0426E52, 0x4450, 0x4F3B, 0xB058, 0x5BAB11910000ull + L >;

// G1: default MTU 23, basic bound values with all permission combinations
using G1 = server< nogap,
    service< su_a,
        characteristic< characteristic_uuid16< 0x1001 >, BIND( b_u8 ) >,
        characteristic< characteristic_uuid16< 0x1002 >, BIND( b_u32 ), no_write_access >,
        characteristic< characteristic_uuid16< 0x1003 >, BIND( b_u16 ), no_read_access >,
        characteristic< cu128< 4 >, BIND( b_a20 ), notify >,
        characteristic< characteristic_uuid16< 0x1005 >, BIND( b_a22 ) >,
        characteristic< characteristic_uuid16< 0x1006 >, BIND( b_a3 ), no_read_access, no_write_access, notify >
    > >;

// G2: MTU 65, long values, const / fixed / cstring values, user description, descriptor
using G2 = server< nogap, max_mtu_size< 65 >,
    service< service_uuid16< 0x1820 >,
        characteristic< characteristic_uuid16< 0x2001 >, BIND( b_a40 ), notify, indicate >,
        characteristic< characteristic_uuid16< 0x2002 >, BIND( b_a100 ), characteristic_name< name_long > >,
        characteristic< characteristic_uuid16< 0x2003 >, BIND( b_c32 ) >,
        characteristic< characteristic_uuid16< 0x2004 >, fixed_uint16_value< 0xbeef > >,
        characteristic< characteristic_uuid16< 0x2005 >, cstring_value< text_30 >, characteristic_name< name_short > >,
        characteristic< cu128< 6 >, BIND( b_u16 ), descriptor< 0x2904, desc_4, 4 > >
    > >;

// G3: MTU 247, values longer than the default MTU and one longer than 247
using G3 = server< nogap, max_mtu_size< 247 >,
    service< su_b,
        characteristic< characteristic_uuid16< 0x3001 >, BIND( b_a100 ), notify >,
        characteristic< characteristic_uuid16< 0x3002 >, BIND( b_a250 ), notify, indicate >,
        characteristic< characteristic_uuid16< 0x3003 >, fixed_blob_value< blob_60, 60 > >,
        characteristic< characteristic_uuid16< 0x3004 >, BIND( b_a40 ), descriptor< 0x2999, desc_30, 30 > >,
        characteristic< characteristic_uuid16< 0x3005 >, fixed_uint32_value< 0x01020304 >, notify >
    > >;

// G4: MTU 24, handler values; H2 is the read handler + no_read_access + notify pattern of the
// bootloader / CSC services
using G4 = server< nogap, max_mtu_size< 24 >,
    service< su_a,
        characteristic< characteristic_uuid16< 0x4001 >, RB< 0 >, WB< 0 > >,
        characteristic< characteristic_uuid16< 0x4002 >, RP< 1 >, WP< 1 >, notify >,
        characteristic< characteristic_uuid16< 0x4003 >, RP< 2 >, no_read_access, notify >,
        characteristic< characteristic_uuid16< 0x4004 >, WB< 3 > >,
        characteristic< characteristic_uuid16< 0x4005 >, RB< 4 >, indicate >,
        characteristic< characteristic_uuid16< 0x4006 >, WP< 5 >, write_without_response >
    > >;

// G5: default MTU with the default GAP service appended, 16 bit service, 128 bit characteristic
using G5 = server<
    service< service_uuid16< 0x180F >,
        characteristic< cu128< 1 >, BIND( b_u8 ), notify >,
        characteristic< characteristic_uuid16< 0x5002 >, BIND( b_a20 ) >
    > >;

// G6: MTU 65, two services (16 and 128 bit), six CCCDs (crossing the 4-per-byte packing)
using G6 = server< nogap, max_mtu_size< 65 >,
    service< service_uuid16< 0x1811 >,
        characteristic< characteristic_uuid16< 0x6001 >, BIND( b_n0 ), notify >,
        characteristic< characteristic_uuid16< 0x6002 >, BIND( b_n1 ), indicate >,
        characteristic< characteristic_uuid16< 0x6003 >, BIND( b_n2 ), notify, indicate >
    >,
    service< su_b,
        characteristic< characteristic_uuid16< 0x6004 >, BIND( b_n3 ), notify >,
        characteristic< characteristic_uuid16< 0x6005 >, BIND( b_n4 ), notify >,
        characteristic< characteristic_uuid16< 0x6001 >, BIND( b_n5 ), notify, no_write_access >,
        characteristic< characteristic_uuid16< 0x6007 >, BIND( b_a40 ) >
    > >;

// G7: MTU 247, write without response variants
using G7 = server< nogap, max_mtu_size< 247 >,
    service< service_uuid16< 0x1899 >,
        characteristic< characteristic_uuid16< 0x7001 >, BIND( b_a20 ), write_without_response >,
        characteristic< characteristic_uuid16< 0x7002 >, BIND( b_a22 ), only_write_without_response >,
        characteristic< characteristic_uuid16< 0x7003 >, BIND( b_u32 ), only_write_without_response, no_read_access >
    > >;

// G8: default MTU, read-only kinds combined with no_read_access
using G8 = server< nogap,
    service< su_a,
        characteristic< characteristic_uuid16< 0x8001 >, cstring_value< text_30 >, no_read_access >,
        characteristic< characteristic_uuid16< 0x8002 >, fixed_uint8_value< 0x42 >, no_read_access, notify >,
        characteristic< characteristic_uuid16< 0x8003 >, fixed_blob_value< blob_60, 60 > >,
        characteristic< characteristic_uuid16< 0x8004 >, BIND( b_a22 ), no_write_access, characteristic_name< name_long > >
    > >;

// G9: MTU 65, server wide requires_encryption with exceptions at the lower levels and handlers
using G9 = server< nogap, max_mtu_size< 65 >, requires_encryption,
    service< service_uuid16< 0x1877 >,
        characteristic< characteristic_uuid16< 0x9001 >, BIND( b_p1 ), notify, indicate >,
        characteristic< characteristic_uuid16< 0x9002 >, BIND( b_a20 ), no_encryption_required, notify >,
        characteristic< characteristic_uuid16< 0x9003 >, RB< 0 >, WB< 0 >, notify >,
        characteristic< characteristic_uuid16< 0x9004 >, cstring_value< text_30 > >,
        characteristic< characteristic_uuid16< 0x9005 >, fixed_uint32_value< 0xcafe1234 > >
    >,
    service< su_b, no_encryption_required,
        characteristic< characteristic_uuid16< 0x9006 >, BIND( b_p2 ), requires_encryption >,
        characteristic< characteristic_uuid16< 0x9007 >, BIND( b_a22 ), notify >
    > >;

// A1 / A2: characteristics WITHOUT characteristic_uuid: the UUID is generated from the service's
// 128 bit UUID and the index of the characteristic (fixup_auto_uuid in char_declaration_access;
// a 16 bit service UUID is refused by a static_assert in characteristic_or_service_uuid).
// A1: default MTU, every characteristic of the service has an auto-generated UUID
using A1 = server< nogap,
    service< su_a,
        characteristic< BIND( b_u8 ) >,
        characteristic< BIND( b_u32 ), notify >,
        characteristic< BIND( b_c32 ) >,
        characteristic< BIND( b_a3 ) >
    > >;

// A2: MTU 40 (Read By Type / Read Multiple at every negotiated MTU 23..40), a 16 bit service with explicit
// UUIDs in front, then a 128 bit service mixing auto-generated and explicit (16 and 128 bit) UUIDs
using A2 = server< nogap, max_mtu_size< 40 >,
    service< service_uuid16< 0x18AA >,
        characteristic< characteristic_uuid16< 0xA201 >, BIND( b_u16 ) >,
        characteristic< cu128< 7 >, BIND( b_a20 ) >
    >,
    service< su_b,
        characteristic< BIND( b_u8 ) >,
        characteristic< cu128< 9 >, BIND( b_a3 ) >,
        characteristic< BIND( b_a22 ), indicate >,
        characteristic< characteristic_uuid16< 0xA206 >, BIND( b_u32 ) >,
        characteristic< BIND( b_n0 ), no_read_access >
    > >;

// Q1 / Q2: servers with a write queue (Prepare / Execute Write are modelled by attwq; here they are
// only exercised on the real code for framing and memory safety)
using Q1 = server< nogap, max_mtu_size< 65 >, shared_write_queue< 64 >,
    service< su_a,
        characteristic< characteristic_uuid16< 0xA001 >, BIND( b_a40 ), notify >,
        characteristic< characteristic_uuid16< 0xA002 >, RB< 0 >, WB< 0 > >,
        characteristic< characteristic_uuid16< 0xA003 >, WP< 1 > >,
        characteristic< characteristic_uuid16< 0xA004 >, BIND( b_u32 ), no_write_access >
    > >;

using Q2 = server< nogap, shared_write_queue< 16 >, requires_encryption,
    service< su_a,
        characteristic< characteristic_uuid16< 0xB001 >, BIND( b_a20 ), notify >,
        characteristic< characteristic_uuid16< 0xB002 >, BIND( b_a3 ), no_encryption_required >
    > >;

// ---------------------------------------------------------------------------------------------
// placements of {requires, no…required, may_require}_encryption at server / service /
// characteristic level (E<a,b,c>) and without a server level option (F<b,c>); the harness instantiates
// a representative subset (the inheritance function itself is compared exhaustively, `enctable`);
// two characteristics: the first carries the characteristic level option (value + CCCD), the
// second none (it inherits from the service)
// ---------------------------------------------------------------------------------------------
template < int O > struct encopt;
template <> struct encopt< 1 > { using type = requires_encryption; };
template <> struct encopt< 2 > { using type = no_encryption_required; };
template <> struct encopt< 3 > { using type = may_require_encryption; };

template < int A, int B, int C >
using E = server< nogap, typename encopt< A >::type,
    service< su_a, typename encopt< B >::type,
        characteristic< characteristic_uuid16< 0xE001 >, BIND( b_p1 ), typename encopt< C >::type, notify, indicate >,
        characteristic< characteristic_uuid16< 0xE002 >, BIND( b_p2 ) >
    > >;

template < int B, int C >
using F = server< nogap, max_mtu_size< 65 >,
    service< su_a, typename encopt< B >::type,
        characteristic< characteristic_uuid16< 0xE001 >, BIND( b_p1 ), typename encopt< C >::type, notify >,
        characteristic< characteristic_uuid16< 0xE002 >, BIND( b_p2 ) >
    > >;

}
#endif
