// Correspondence harness for C30: runs the REAL bluetoe::details::ring< S, T > (ring.hpp from the
// repository's working tree, unchanged) under explicit schedules of its shared-memory accesses.
//
// How the schedule gets in without touching the repository:
//   * <atomic> is included first, then `#define atomic_int verif_atomic_int`, so that the
//     `std::atomic_int read_ptr_, write_ptr_` members of ring<> become an instrumented type whose
//     load() / store() yield to the scheduler *before* touching the value;
//   * T is `cell`, whose copy assignment yields before it copies, so `data_[ write ] = in` and
//     `out = data_[ read ]` are scheduling points too and report the addresses they touch.
//   Producer and consumer are ucontext coroutines; one scheduler *quantum* resumes a coroutine at
//   the access it is waiting in front of, performs it and runs on to the next access (or to the
//   end of its last call).  So the quanta of a successful call are [load read_ptr_] [load
//   write_ptr_ + branch] [data_ access] [store + return], of a failing call [load read_ptr_]
//   [load write_ptr_ + branch + return] — the model's steps with the (purely local) branch glued
//   to the preceding load.
//
// Line protocol
//   run  <S> <v1,v2,..|-> <pops> <schedule|->      schedule: string over p/c
//        -> one token per quantum: x (thread already finished) . (inside a call)  Pi P0 P1
//           (try_push entered / returned false / true)  Ci C- C<v> (try_pop entered / returned
//           false / true with value v); suffix ! = the two threads now wait in front of
//           conflicting data_ accesses; then "/" and the tokens of running first the producer
//           and then the consumer to completion; then "d:<v>,<v>.." the values a sequential
//           drain (try_pop until it fails) delivers, "d:-" for none
//   enum <S> <v1,v2,..|-> <pops> <prefix|->        every complete schedule extending <prefix>
//        (depth first, producer first; only unfinished threads are scheduled) ->
//        "n=<schedules> | <history> d:..*<count>@<first schedule> | ..." sorted by history, where
//        a history is the run's tokens without "." (the call / return events in order)
#include <atomic>
#include <cstddef>
#include <cstdint>
#include <ucontext.h>
#include <map>
#include <memory>
#include "common/proto.hpp"

namespace verif {
    struct thread_t
    {
        ucontext_t      ctx;
        bool            done;
        bool            fresh;          // a call was entered and has not reached its first access
        std::string     events;         // events of the current quantum
        const void*     wr;             // plain access the thread is waiting in front of
        const void*     rd;
        std::vector< char > stack;
    };

    static ucontext_t   main_ctx;
    static thread_t     threads[ 2 ];   // 0 = producer, 1 = consumer
    static thread_t*    current = nullptr;

    // called by the instrumented types in front of every shared access
    static void yield( int who_marks_entry )
    {
        if ( !current )
            return;                     // sequential use from the main context (drain)

        thread_t& t = *current;
        swapcontext( &t.ctx, &main_ctx );

        // resumed: this quantum performs the access
        if ( t.fresh )
        {
            t.fresh   = false;
            t.events += ( &t == &threads[ 0 ] ) ? "Pi" : "Ci";
        }
        (void)who_marks_entry;
    }

    struct cell
    {
        int v;
        cell() : v( 0 ) {}
        explicit cell( int x ) : v( x ) {}
        cell( const cell& o ) : v( o.v ) {}

        cell& operator=( const cell& rhs )
        {
            if ( current )
            {
                current->wr = this;
                current->rd = &rhs;
            }
            yield( 0 );
            v = rhs.v;
            if ( current )
                current->wr = current->rd = nullptr;
            return *this;
        }
    };
}

// the replacement for std::atomic_int: sequentially consistent by construction (one access per
// quantum, in schedule order)
struct verif_atomic_int
{
    int v_;
    verif_atomic_int() : v_( 0 ) {}
    verif_atomic_int( int v ) : v_( v ) {}
    verif_atomic_int( const verif_atomic_int& ) = delete;
    verif_atomic_int& operator=( const verif_atomic_int& ) = delete;

    int load( std::memory_order = std::memory_order_seq_cst ) const { verif::yield( 0 ); return v_; }
    void store( int x, std::memory_order = std::memory_order_seq_cst ) { verif::yield( 0 ); v_ = x; }
    operator int() const { return load(); }
    int operator=( int x ) { store( x ); return x; }
};

namespace std { using ::verif_atomic_int; }
#define atomic_int verif_atomic_int
#include <bluetoe/ring.hpp>
#undef atomic_int

namespace verif {

    struct ring_if
    {
        virtual ~ring_if() {}
        virtual bool push( const cell& ) = 0;
        virtual bool pop( cell& ) = 0;
    };

    template < std::size_t S >
    struct ring_impl : ring_if
    {
        // on the heap, last member: an access behind data_[ S ] leaves the allocation (ASan), an
        // index outside [0, S] is reported by UBSan (bounds)
        bluetoe::details::ring< S, cell > r;
        bool push( const cell& c ) override { return r.try_push( c ); }
        bool pop( cell& c ) override { return r.try_pop( c ); }
    };

    static ring_if* make_ring( unsigned long long s )
    {
        switch ( s )
        {
        case 1: return new ring_impl< 1 >;
        case 2: return new ring_impl< 2 >;
        case 3: return new ring_impl< 3 >;
        case 4: return new ring_impl< 4 >;
        case 7: return new ring_impl< 7 >;
        }
        return nullptr;
    }

    // one experiment: a fresh ring, a producer with a list of arguments, a consumer with a number
    // of calls
    static std::unique_ptr< ring_if >  the_ring;
    static std::vector< int >          push_args;
    static unsigned                    pop_calls;

    static void producer_body()
    {
        thread_t& t = threads[ 0 ];
        for ( std::size_t i = 0; i != push_args.size(); ++i )
        {
            const cell in( push_args[ i ] );
            t.fresh = true;
            const bool ok = the_ring->push( in );
            if ( t.fresh ) { t.fresh = false; t.events += "Pi"; }
            t.events += ok ? "P1" : "P0";
        }
        t.done = true;
    }

    static void consumer_body()
    {
        thread_t& t = threads[ 1 ];
        for ( unsigned i = 0; i != pop_calls; ++i )
        {
            cell out( -1 );
            t.fresh = true;
            const bool ok = the_ring->pop( out );
            if ( t.fresh ) { t.fresh = false; t.events += "Ci"; }
            t.events += ok ? "C" + std::to_string( out.v ) : std::string( "C-" );
        }
        t.done = true;
    }

    static const std::size_t stack_size = 64 * 1024;

    static void start_thread( int i, void (*body)() )
    {
        thread_t& t = threads[ i ];
        t.done  = false;
        t.fresh = false;
        t.events.clear();
        t.wr = t.rd = nullptr;
        if ( t.stack.empty() )
            t.stack.resize( stack_size );
        getcontext( &t.ctx );
        t.ctx.uc_stack.ss_sp   = t.stack.data();
        t.ctx.uc_stack.ss_size = t.stack.size();
        t.ctx.uc_link          = &main_ctx;     // the body returns normally into the scheduler
        makecontext( &t.ctx, body, 0 );
    }

    static void resume( int i )
    {
        thread_t& t = threads[ i ];
        current = &t;
        swapcontext( &main_ctx, &t.ctx );
        current = nullptr;
    }

    static bool conflict()
    {
        const thread_t& p = threads[ 0 ];
        const thread_t& c = threads[ 1 ];
        if ( p.done || c.done || !p.wr || !c.wr )
            return false;
        return p.wr == c.rd || p.wr == c.wr || p.rd == c.wr;
    }

    static bool start( unsigned long long s, const std::vector< int >& args, unsigned pops )
    {
        the_ring.reset( make_ring( s ) );
        if ( !the_ring )
            return false;
        push_args = args;
        pop_calls = pops;
        start_thread( 0, producer_body );
        start_thread( 1, consumer_body );
        // run both up to (not including) their first shared access; nothing shared happens here
        resume( 0 );
        resume( 1 );
        threads[ 0 ].events.clear();
        threads[ 1 ].events.clear();
        return true;
    }

    static std::string quantum( int i )
    {
        thread_t& t = threads[ i ];
        if ( t.done )
            return "x";
        t.events.clear();
        resume( i );
        std::string tok = t.events.empty() ? "." : t.events;
        if ( conflict() )
            tok += "!";
        return tok;
    }

    static void finish( std::vector< std::string >& tokens )
    {
        for ( int i = 0; i != 2; ++i )
        {
            const std::size_t limit = 16 * ( push_args.size() + pop_calls ) + 16;
            for ( std::size_t n = 0; !threads[ i ].done; ++n )
            {
                if ( n == limit )
                {
                    std::fputs( "stuck\n", stdout );
                    std::fflush( stdout );
                    std::exit( 3 );
                }
                tokens.push_back( quantum( i ) );
            }
        }
    }

    static std::string drain( unsigned long long s )
    {
        std::string out;
        for ( unsigned long long n = 0; n != s + 2; ++n )
        {
            cell c( -1 );
            if ( !the_ring->pop( c ) )
                break;
            out += ( out.empty() ? "" : "," ) + std::to_string( c.v );
        }
        return "d:" + ( out.empty() ? std::string( "-" ) : out );
    }

    static bool parse_args( const std::string& w, std::vector< int >& args )
    {
        args.clear();
        if ( w == "-" )
            return true;
        std::size_t pos = 0;
        while ( pos <= w.size() )
        {
            const std::size_t end = std::min( w.find( ',', pos ), w.size() );
            unsigned long long v = 0;
            if ( !parse_u64( w.substr( pos, end - pos ), v ) || v > 1000000 )
                return false;
            args.push_back( static_cast< int >( v ) );
            pos = end + 1;
        }
        return true;
    }

    static bool parse_schedule( const std::string& w, std::vector< int >& sched )
    {
        sched.clear();
        if ( w == "-" )
            return true;
        for ( char c : w )
        {
            if ( c != 'p' && c != 'c' )
                return false;
            sched.push_back( c == 'c' );
        }
        return true;
    }

    static std::string join( const std::vector< std::string >& tokens, bool events_only )
    {
        std::string out;
        for ( const std::string& t : tokens )
        {
            if ( events_only && ( t == "." || t == "x" || t == "/" ) )
                continue;
            if ( !out.empty() )
                out += " ";
            out += t;
        }
        return out;
    }

    static std::string run( unsigned long long s, const std::vector< int >& args, unsigned pops, const std::vector< int >& sched )
    {
        if ( !start( s, args, pops ) )
            return "bad-op";
        std::vector< std::string > tokens;
        for ( int t : sched )
            tokens.push_back( quantum( t ) );
        tokens.push_back( "/" );
        finish( tokens );
        tokens.push_back( drain( s ) );
        return join( tokens, false );
    }

    static std::string enumerate( unsigned long long s, const std::vector< int >& args, unsigned pops, const std::vector< int >& prefix )
    {
        std::map< std::string, std::pair< unsigned long long, std::string > > histogram;
        unsigned long long count = 0;

        std::vector< int >  sched( prefix );
        std::vector< char > flip( prefix.size(), 0 );     // position may still be flipped p -> c
        for ( ;; )
        {
            if ( !start( s, args, pops ) )
                return "bad-op";
            std::vector< std::string > tokens;
            for ( std::size_t k = 0; k != sched.size(); ++k )
            {
                if ( threads[ sched[ k ] ].done )
                    return k < prefix.size() ? "bad-prefix" : "internal-error";
                tokens.push_back( quantum( sched[ k ] ) );
            }
            while ( !threads[ 0 ].done || !threads[ 1 ].done )
            {
                const int t = threads[ 0 ].done ? 1 : 0;
                flip.push_back( t == 0 && !threads[ 1 ].done );
                sched.push_back( t );
                tokens.push_back( quantum( t ) );
            }
            tokens.push_back( drain( s ) );

            ++count;
            std::pair< unsigned long long, std::string >& e = histogram[ join( tokens, true ) ];
            if ( e.first++ == 0 )
                for ( int t : sched )
                    e.second += t ? 'c' : 'p';

            while ( sched.size() > prefix.size() && !flip.back() )
            {
                sched.pop_back();
                flip.pop_back();
            }
            if ( sched.size() == prefix.size() )
                break;
            sched.back() = 1;
            flip.back()  = 0;
        }

        std::string out = "n=" + std::to_string( count );
        for ( const auto& e : histogram )
            out += " | " + e.first + "*" + std::to_string( e.second.first ) + "@" + ( e.second.second.empty() ? "-" : e.second.second );
        return out;
    }
}

int main()
{
    return verif::line_loop( [&]( const std::vector< std::string >& w ) -> std::string {
        unsigned long long s = 0, pops = 0;
        std::vector< int > args, sched;
        if ( w.size() != 5 || ( w[ 0 ] != "run" && w[ 0 ] != "enum" ) )
            return "bad-op";
        if ( !verif::parse_u64( w[ 1 ], s ) || !verif::parse_args( w[ 2 ], args ) || !verif::parse_u64( w[ 3 ], pops )
            || !verif::parse_schedule( w[ 4 ], sched ) || pops > 64 || args.size() > 64 )
            return "bad-op";
        return w[ 0 ] == "run"
            ? verif::run( s, args, static_cast< unsigned >( pops ), sched )
            : verif::enumerate( s, args, static_cast< unsigned >( pops ), sched );
    } );
}
