// Correspondence harness for C02 / C03: the REAL discovery request handlers of bluetoe/server.hpp
// (Find Information, Find By Type Value, Read By Type, Read By Group Type) of a family of servers.
//   server <k> <decl…>   select server type k (decl = the declaration value given to the model; checked)
//   table                the real attribute table: "<handle>:<uuid16>:<access result>:<value>" per attribute
//   pdu <mtu> <hex>      l2cap_input() on a fresh connection with client MTU <mtu>; prints the response
#define VERIF_ATT_WITH_PDU
#include "atthandles/server_if.hpp"

int main()
{
    std::unique_ptr< verif::server_if > s = verif::make_server( 0 );
    return verif::line_loop( [&]( const std::vector< std::string >& w ) -> std::string {
        if ( w.empty() ) return "bad-op";
        if ( w[ 0 ] == "server" ) return verif::select_server( w, s );
        if ( w[ 0 ] == "table" && w.size() == 1 )
        {
            std::string out;
            for ( std::size_t i = 0; i != s->n_attrs(); ++i )
            {
                std::vector< std::uint8_t > v;
                const int rc = s->attr_read( i, v );
                out += ( i ? " " : "" ) + std::to_string( s->hbi( i ) ) + ":" + verif::hex16( s->attr_uuid( i ) ) + ":" + std::to_string( rc ) + ":" + verif::to_hex( v );
            }
            return out;
        }
        unsigned long long mtu = 0;
        std::vector< std::uint8_t > in;
        if ( w[ 0 ] == "pdu" && w.size() == 3 && verif::parse_u64( w[ 1 ], mtu ) && mtu >= 23 && mtu <= 300
            && verif::parse_hex( w[ 2 ], in ) && !in.empty() )
            return verif::to_hex( s->pdu( mtu, in ) );
        return "bad-op";
    } );
}
