// Correspondence harness for C02 / C03: the REAL discovery request handlers of bluetoe/server.hpp
// (Find Information, Find By Type Value, Read By Type, Read By Group Type) of a family of servers.
//   server <k> <decl…>   select server type k (decl = the declaration value given to the model; checked)
//   table                the real attribute table: "<handle>:<uuid16>:<access result>:<value>" per attribute
//   pdu <mtu> <hex>      l2cap_input() on a fresh connection with client MTU <mtu>; prints the response
//   topserver <k>        select a hand-written server whose last attribute has handle 0xFFFF (k = 0, 2)
//                        or 0xFFFE (k = 1, 3: controls); these have no model counterpart (the model's
//                        ServerDecl.WF excludes them: the templates' uint16_t end_handle wraps to 0)
#define VERIF_ATT_WITH_PDU
#include "atthandles/server_if.hpp"

namespace top {
    static std::uint8_t v0 = 0x11, v1 = 0x22;
    template < std::uint16_t ServiceHandle >
    struct svc_at {
        typedef bluetoe::server<
            bluetoe::no_gap_service_for_gatt_servers,
            bluetoe::max_mtu_size< 300 >,
            bluetoe::service< bluetoe::service_uuid16< 0x1800 >,
                bluetoe::characteristic< bluetoe::characteristic_uuid16< 0x2A00 >, bluetoe::bind_characteristic_value< std::uint8_t, &v0 > > >,
            bluetoe::service< bluetoe::service_uuid16< 0x1802 >, bluetoe::attribute_handle< ServiceHandle >,
                bluetoe::characteristic< bluetoe::characteristic_uuid16< 0x2A01 >, bluetoe::bind_characteristic_value< std::uint8_t, &v1 > > > > type;
    };
    template < std::uint16_t CharHandle >
    struct char_at {
        typedef bluetoe::server<
            bluetoe::no_gap_service_for_gatt_servers,
            bluetoe::max_mtu_size< 300 >,
            bluetoe::service< bluetoe::service_uuid16< 0x1800 >,
                bluetoe::characteristic< bluetoe::characteristic_uuid16< 0x2A00 >, bluetoe::bind_characteristic_value< std::uint8_t, &v0 > > >,
            bluetoe::service< bluetoe::service_uuid16< 0x1802 >,
                bluetoe::characteristic< bluetoe::characteristic_uuid16< 0x2A01 >, bluetoe::bind_characteristic_value< std::uint8_t, &v1 >,
                    bluetoe::attribute_handle< CharHandle > > > > type;
    };
    static std::unique_ptr< verif::server_if > make( unsigned long long k )
    {
        switch ( k )
        {
        case 0: return std::unique_ptr< verif::server_if >( new verif::server_impl< svc_at< 0xFFFD >::type >( "" ) );   // handles 1,2,3,FFFD,FFFE,FFFF
        case 1: return std::unique_ptr< verif::server_if >( new verif::server_impl< svc_at< 0xFFFC >::type >( "" ) );   // … FFFC,FFFD,FFFE (control)
        case 2: return std::unique_ptr< verif::server_if >( new verif::server_impl< char_at< 0xFFFE >::type >( "" ) );  // 1,2,3,4,FFFE,FFFF
        case 3: return std::unique_ptr< verif::server_if >( new verif::server_impl< char_at< 0xFFFD >::type >( "" ) );  // 1,2,3,4,FFFD,FFFE (control)
        }
        return std::unique_ptr< verif::server_if >();
    }
}

int main()
{
    std::unique_ptr< verif::server_if > s = verif::make_server( 0 );
    return verif::line_loop( [&]( const std::vector< std::string >& w ) -> std::string {
        if ( w.empty() ) return "bad-op";
        if ( w[ 0 ] == "server" ) return verif::select_server( w, s );
        if ( w[ 0 ] == "topserver" && w.size() == 2 )
        {
            unsigned long long k = 0;
            if ( !verif::parse_u64( w[ 1 ], k ) ) return "bad-op";
            auto n = top::make( k );
            if ( !n ) return "bad-op";
            s = std::move( n );
            return "ok " + std::to_string( s->n_attrs() );
        }
        if ( w[ 0 ] == "table" && w.size() == 1 )
        {
            std::string out;
            for ( std::size_t i = 0; i != s->n_attrs(); ++i )
            {
                std::vector< std::uint8_t > v;
                const int rc = s->attr_read( i, v );
                out += ( i ? " " : "" ) + std::to_string( s->hbi( i ) ) + ":" + verif::hex16( s->attr_uuid( i ) ) + ":" + std::to_string( rc ) + ":" + verif::to_hex( v );
            }
            return out;
        }
        unsigned long long mtu = 0;
        std::vector< std::uint8_t > in;
        if ( w[ 0 ] == "pdu" && w.size() == 3 && verif::parse_u64( w[ 1 ], mtu ) && mtu >= 23 && mtu <= 300
            && verif::parse_hex( w[ 2 ], in ) && !in.empty() )
            return verif::to_hex( s->pdu( mtu, in ) );
        return "bad-op";
    } );
}
