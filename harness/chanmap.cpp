// Correspondence harness for C20: drives the real bluetoe::link_layer::channel_map.
//   new                      fresh channel_map object
//   reset <map10hex> <hop>   reset( map, hop )   -> 1 | 0
//   remap <map10hex>         reset( map )        -> 1 | 0
//   chan <index>             data_channel(index) -> n | uninit (no successful reset yet) | assert
//   table                    data_channel(0..36) -> 37 numbers | uninit
//   hop                      hop_ (private member)
// The 5 map bytes live in an exactly sized heap block so that ASan sees any read behind them.
#include "common/proto.hpp"
#define private public
#include <bluetoe/channel_map.hpp>
#undef private
#include <memory>

using bluetoe::link_layer::channel_map;

int main()
{
    std::unique_ptr< channel_map > cm( new channel_map );
    bool written = false;

    return verif::line_loop( [&]( const std::vector< std::string >& w ) -> std::string {
        if ( w.empty() ) return "bad-op";
        if ( w[ 0 ] == "new" && w.size() == 1 )
        {
            cm.reset( new channel_map );
            written = false;
            return "ok";
        }
        if ( ( w[ 0 ] == "reset" && w.size() == 3 ) || ( w[ 0 ] == "remap" && w.size() == 2 ) )
        {
            std::vector< std::uint8_t > bytes;
            unsigned long long hop = 0;
            if ( !verif::parse_hex( w[ 1 ], bytes ) || bytes.size() != 5 ) return "bad-op";
            if ( w.size() == 3 && ( !verif::parse_u64( w[ 2 ], hop ) || hop > 0xffffffffull ) ) return "bad-op";
            std::unique_ptr< std::uint8_t[] > map( new std::uint8_t[ 5 ] );
            std::copy( bytes.begin(), bytes.end(), map.get() );
            const bool ok = w.size() == 3 ? cm->reset( map.get(), static_cast< unsigned >( hop ) ) : cm->reset( map.get() );
            written = written || ok;
            return ok ? "1" : "0";
        }
        if ( w[ 0 ] == "chan" && w.size() == 2 )
        {
            unsigned long long idx = 0;
            if ( !verif::parse_u64( w[ 1 ], idx ) ) return "bad-op";
            if ( idx >= channel_map::max_number_of_data_channels ) return "assert";   // assert( index < 37 )
            if ( !written ) return "uninit";
            return std::to_string( cm->data_channel( static_cast< unsigned >( idx ) ) );
        }
        if ( w[ 0 ] == "table" && w.size() == 1 )
        {
            if ( !written ) return "uninit";
            std::string out;
            for ( unsigned i = 0; i != channel_map::max_number_of_data_channels; ++i )
                out += ( i ? " " : "" ) + std::to_string( cm->data_channel( i ) );
            return out;
        }
        if ( w[ 0 ] == "hop" && w.size() == 1 )
            return std::to_string( static_cast< unsigned >( cm->hop_ ) );
        return "bad-op";
    } );
}
