// Correspondence harness for C39: the real bluetoe::bootloader_service<> (bootloader::details::
// controller + flash_buffer) inside a real bluetoe::server<>, one connection, MTU 23. The user
// handler is a mock that records every access to device memory as an effect.
//   reset <cfg>   0: page 16,   white list [0x1008,0x1020)
//                 1: page 16,   white list [0x1000,0x1040) [0x2000,0x2020)
//                 2: page 1024, white list [0x10000,0x10800)
//                 new server + connection, all three CCCDs configured
//   ctrl <hex>    ATT Write Request to the control point (PDU in an exactly sized heap block)
//   data <hex>    ATT Write Request to the data characteristic
//   endflash      the handler reports the end of a flash operation: end_flash( server )
//   output        l2cap_output: delivers one queued notification / indication (indications are
//                 confirmed at once)
// answer: "<att result> ; <effects> ; <pdu>" with
//   att result  ok | err <code> | none (output/endflash)
//   effects     comma separated readMem/startFlash/checksum/publicRead/run/reset records, "-" if none
//   pdu         cp <value> | data <value> | progress | "-"
#include "common/proto.hpp"
#include <cassert>
#include <memory>
#include <bluetoe/server.hpp>
#include <bluetoe/services/bootloader.hpp>

static std::vector< std::string > effects;
static bool cp_notification_requested, data_indication_requested;

static std::uint8_t mock_mem( std::uintptr_t a ) { return static_cast< std::uint8_t >( a % 251 ); }

static std::string num( unsigned long long v ) { return std::to_string( v ); }

static std::uint32_t digest( const std::uint8_t* p, std::size_t n )
{
    std::uint32_t h = 0;
    for ( std::size_t i = 0; i != n; ++i )
        h = h * 31u + p[ i ];
    return h;
}

struct mock_handler
{
    std::pair< const std::uint8_t*, std::size_t > get_version()
    {
        static const std::uint8_t version[] = { 0x47, 0x11 };
        return std::pair< const std::uint8_t*, std::size_t >( version, sizeof( version ) );
    }

    void read_mem( std::uintptr_t address, std::size_t size, std::uint8_t* destination )
    {
        effects.push_back( "readMem " + num( address ) + " " + num( size ) );
        for ( std::size_t i = 0; i != size; ++i )
            destination[ i ] = mock_mem( address + i );
    }

    std::uint32_t checksum32( const std::uint8_t* start_addr, std::size_t size, std::uint32_t result )
    {
        for ( ; size; ++start_addr, --size )
            result += *start_addr;
        return result;
    }

    std::uint32_t checksum32( std::uintptr_t start_addr )
    {
        std::uint32_t result = 0;
        for ( ; start_addr; start_addr = start_addr >> 8 )
            result += start_addr & 0xff;
        return result;
    }

    bluetoe::bootloader::error_codes public_read_mem( std::uintptr_t address, std::size_t size, std::uint8_t* destination )
    {
        effects.push_back( "publicRead " + num( address ) + " " + num( size ) );
        for ( std::size_t i = 0; i != size; ++i )
            destination[ i ] = mock_mem( address + i );
        return bluetoe::bootloader::error_codes::success;
    }

    std::uint32_t public_checksum32( std::uintptr_t start_addr, std::size_t size )
    {
        effects.push_back( "checksum " + num( start_addr ) + " " + num( size ) );
        std::uint32_t result = 0;
        // sizes are bounded by the white list when the range check works; cap the loop otherwise
        for ( std::size_t i = 0; i != size && i != 4096; ++i )
            result += mock_mem( start_addr + i );
        return result;
    }

    bluetoe::bootloader::error_codes start_flash( std::uintptr_t address, const std::uint8_t* values, std::size_t size )
    {
        effects.push_back( "startFlash " + num( address ) + " " + num( size ) + " " + num( digest( values, size ) ) );
        return bluetoe::bootloader::error_codes::success;
    }

    bluetoe::bootloader::error_codes run( std::uintptr_t start_addr )
    {
        effects.push_back( "run " + num( start_addr ) );
        return bluetoe::bootloader::error_codes::success;
    }

    bluetoe::bootloader::error_codes reset()
    {
        effects.push_back( "reset" );
        return bluetoe::bootloader::error_codes::success;
    }

    void control_point_notification_call_back() { cp_notification_requested = true; }
    void data_indication_call_back() { data_indication_requested = true; }
};

template < std::size_t Page, class WhiteList >
using boot_server = bluetoe::server<
    bluetoe::bootloader_service<
        bluetoe::bootloader::page_size< Page >,
        bluetoe::bootloader::handler< mock_handler >,
        WhiteList > >;

using bluetoe::bootloader::white_list;
using bluetoe::bootloader::memory_region;

typedef boot_server< 16, white_list< memory_region< 0x1008, 0x1020 > > >                                       server0;
typedef boot_server< 16, white_list< memory_region< 0x1000, 0x1040 >, memory_region< 0x2000, 0x2020 > > >       server1;
typedef boot_server< 1024, white_list< memory_region< 0x10000, 0x10800 > > >                                   server2;

static const std::size_t mtu = 23;

struct rig_if
{
    virtual ~rig_if() {}
    virtual std::string write( int which, const std::vector< std::uint8_t >& value ) = 0;
    virtual std::string endflash() = 0;
    virtual std::string output() = 0;
};

static std::string take_effects()
{
    if ( effects.empty() )
        return "-";
    std::string r;
    for ( std::size_t i = 0; i != effects.size(); ++i )
        r += ( i ? "," : "" ) + effects[ i ];
    effects.clear();
    return r;
}

template < class Server >
struct rig : rig_if, Server
{
    typedef typename Server::template channel_data_t< bluetoe::details::link_state > connection_t;

    connection_t  con;
    std::uint16_t handle[ 3 ];      // value handles: control point, data, progress

    rig()
    {
        effects.clear();
        cp_notification_requested = data_indication_requested = false;
        con.client_mtu( mtu );
        this->notification_callback( &l2cap_cb, this );
        discover();
        configure( handle[ 0 ] + 1, 1 );
        configure( handle[ 1 ] + 1, 2 );
        configure( handle[ 2 ] + 1, 1 );
    }

    static bool l2cap_cb( const bluetoe::details::notification_data& item, void* that, bluetoe::details::notification_type type )
    {
        connection_t& c = static_cast< rig* >( that )->con;
        switch ( type )
        {
        case bluetoe::details::notification_type::notification:
            return c.queue_notification( item.client_characteristic_configuration_index() );
        case bluetoe::details::notification_type::indication:
            return c.queue_indication( item.client_characteristic_configuration_index() );
        case bluetoe::details::notification_type::confirmation:
            c.indication_confirmed();
            return true;
        }
        return true;
    }

    std::vector< std::uint8_t > request( const std::vector< std::uint8_t >& pdu )
    {
        std::unique_ptr< std::uint8_t[] > in( new std::uint8_t[ pdu.size() ] );
        std::copy( pdu.begin(), pdu.end(), in.get() );
        std::unique_ptr< std::uint8_t[] > out( new std::uint8_t[ mtu ] );
        std::size_t size = mtu;
        this->l2cap_input( in.get(), pdu.size(), out.get(), size, con );
        forward_callbacks();
        return std::vector< std::uint8_t >( out.get(), out.get() + size );
    }

    // what the documented handler has to do in its call backs
    void forward_callbacks()
    {
        if ( cp_notification_requested )
        {
            cp_notification_requested = false;
            this->bootloader_control_point_notification( static_cast< Server& >( *this ) );
        }
        if ( data_indication_requested )
        {
            data_indication_requested = false;
            this->bootloader_data_indication( static_cast< Server& >( *this ) );
        }
    }

    // Find Information over the whole table: the first three CCCDs (0x2902) belong, in declaration
    // order, to control point, data and progress; each follows its characteristic value directly
    void discover()
    {
        handle[ 0 ] = handle[ 1 ] = handle[ 2 ] = 0;
        std::uint16_t start = 1;
        int found = 0;
        for ( ; found != 3; )
        {
            const std::vector< std::uint8_t > rsp = request( { 0x04, std::uint8_t( start & 0xff ), std::uint8_t( start >> 8 ), 0xff, 0xff } );
            if ( rsp.size() < 6 || rsp[ 0 ] != 0x05 )
                break;
            const std::size_t entry = rsp[ 1 ] == 1 ? 4 : 18;
            std::uint16_t last = start;
            for ( std::size_t i = 2; i + entry <= rsp.size(); i += entry )
            {
                last = rsp[ i ] | ( rsp[ i + 1 ] << 8 );
                if ( entry == 4 && rsp[ i + 2 ] == 0x02 && rsp[ i + 3 ] == 0x29 && found != 3 )
                    handle[ found++ ] = last - 1;
            }
            if ( last == 0xffff )
                break;
            start = last + 1;
        }
        if ( found != 3 )
        {
            std::fprintf( stderr, "bootloader characteristics not found\n" );
            std::exit( 3 );
        }
    }

    void configure( std::uint16_t h, std::uint8_t flags )
    {
        const std::vector< std::uint8_t > rsp = request( { 0x12, std::uint8_t( h & 0xff ), std::uint8_t( h >> 8 ), flags, 0x00 } );
        if ( rsp.size() != 1 || rsp[ 0 ] != 0x13 )
        {
            std::fprintf( stderr, "cannot configure handle %u\n", unsigned( h ) );
            std::exit( 3 );
        }
    }

    std::string write( int which, const std::vector< std::uint8_t >& value ) override
    {
        const std::uint16_t h = handle[ which ];
        std::vector< std::uint8_t > pdu = { 0x12, std::uint8_t( h & 0xff ), std::uint8_t( h >> 8 ) };
        pdu.insert( pdu.end(), value.begin(), value.end() );
        const std::vector< std::uint8_t > rsp = request( pdu );
        std::string res;
        if ( rsp.size() == 1 && rsp[ 0 ] == 0x13 )
            res = "ok";
        else if ( rsp.size() == 5 && rsp[ 0 ] == 0x01 && rsp[ 1 ] == 0x12 )
            res = "err " + verif::to_hex( &rsp[ 4 ], 1 );
        else
            res = "pdu " + verif::to_hex( rsp );
        return res + " ; " + take_effects() + " ; -";
    }

    std::string endflash() override
    {
        bluetoe::bootloader::end_flash( static_cast< Server& >( *this ) );
        return "none ; " + take_effects() + " ; -";
    }

    std::string output() override
    {
        // zero filled: bytes that a read handler leaves untouched are deterministic
        std::unique_ptr< std::uint8_t[] > out( new std::uint8_t[ mtu ]() );
        std::size_t size = mtu;
        this->l2cap_output( out.get(), size, con );
        forward_callbacks();
        std::string pdu = "-";
        if ( size >= 3 )
        {
            const std::uint16_t h = out[ 1 ] | ( out[ 2 ] << 8 );
            if ( out[ 0 ] == 0x1b && h == handle[ 0 ] )
                pdu = "cp " + verif::to_hex( out.get() + 3, size - 3 );
            else if ( out[ 0 ] == 0x1d && h == handle[ 1 ] )
            {
                pdu = "data " + verif::to_hex( out.get() + 3, size - 3 );
                request( { 0x1e } );            // the client confirms the indication
            }
            else if ( out[ 0 ] == 0x1b && h == handle[ 2 ] )
                pdu = "progress";
            else
                pdu = "pdu " + verif::to_hex( out.get(), size );
        }
        return "none ; " + take_effects() + " ; " + pdu;
    }
};

static std::unique_ptr< rig_if > make( unsigned long long cfg )
{
    switch ( cfg )
    {
    case 0: return std::unique_ptr< rig_if >( new rig< server0 > );
    case 1: return std::unique_ptr< rig_if >( new rig< server1 > );
    case 2: return std::unique_ptr< rig_if >( new rig< server2 > );
    }
    return std::unique_ptr< rig_if >();
}

int main()
{
    std::unique_ptr< rig_if > r = make( 0 );
    return verif::line_loop( [&]( const std::vector< std::string >& w ) -> std::string {
        unsigned long long v = 0;
        std::vector< std::uint8_t > bytes;
        if ( w.empty() ) return "bad-op";
        if ( w[ 0 ] == "reset" && w.size() == 2 && verif::parse_u64( w[ 1 ], v ) )
        {
            auto n = make( v );
            if ( !n ) return "bad-op";
            r = std::move( n );
            return "ok";
        }
        if ( w[ 0 ] == "ctrl" && w.size() == 2 && verif::parse_hex( w[ 1 ], bytes ) && bytes.size() <= 20 ) return r->write( 0, bytes );
        if ( w[ 0 ] == "data" && w.size() == 2 && verif::parse_hex( w[ 1 ], bytes ) && bytes.size() <= 20 ) return r->write( 1, bytes );
        if ( w[ 0 ] == "endflash" && w.size() == 1 ) return r->endflash();
        if ( w[ 0 ] == "output" && w.size() == 1 ) return r->output();
        return "bad-op";
    } );
}
