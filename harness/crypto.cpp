// Correspondence harness for C37 / C38: the REAL bluetoe/bindings/nordic/nrf52/security_tool_box.cpp
// compiled on the host against the emulated register header harness/crypto/nrf_stub/nrf.h.
// The .cpp is #included (not linked) so that its file-static helpers (left_shift, xor_, the CMAC
// sub-key generation, f5_key, f5_cmac) can be called directly as well.
//
// All byte strings are given in the toolbox's in-memory byte order (128-bit values least
// significant byte first). Pointer arguments are passed from exactly sized heap blocks, so ASan sees
// every read beyond the documented sizes.
//
//   reset
//   aes  <key16> <data16>                    aes_le()
//   xor  <a16> <b16>       shl <a16>         xor_(), left_shift()
//   k1   <key16>           k2 <key16>        aes_cmac_k1/k2_subkey_generation()
//   c1   <k16> <r16> <p1_16> <p2_16>
//   s1   <k16> <srand16> <mrand16>
//   f4   <u32> <v32> <k16> <z1>
//   f5   <dhkey32> <nc16> <np16> <ac7> <ap7>  address = 6 address bytes + 1 byte random flag
//                                            output: <mackey16>:<ltk16>
//   f5key <dhkey32>        f5cmac <key16> <buffer64>
//   f6   <key16> <n1_16> <n2_16> <r16> <io3> <ac7> <ap7>
//   g2   <u32> <v32> <x16> <y16>             output: decimal uint32
//   validpk <pk64>                           is_valid_public_key(): 0 / 1
//   passkey <rng bytes>                      create_passkey() with the RNG delivering the given
//                                            bytes: "<passkey16> <bytes consumed>" or
//                                            "exhausted <bytes consumed>" when the code asks for
//                                            more random bytes than were scripted
//   passkeyscan <b2>                         create_passkey() for the 65536 RNG streams b0 b1 <b2> 00 00 00:
//                                            "first=<calls answered from the first draw>
//                                            second=<calls that needed more than 3 RNG bytes>
//                                            outofrange=<first draws that produced a value > 999999>
//                                            distinct=<distinct passkeys from first draws>"; the
//                                            passkeys are also added to a histogram over 0..999999
//                                            that `reset` clears
//   passkeyhist                              "min=<m> max=<M>": smallest / largest histogram count
//                                            over all 10^6 passkeys
//   srand <rng bytes>   nonce <rng bytes>    create_srand(), select_random_nonce()
#include "common/proto.hpp"
#include <iterator>
#include <algorithm>
#include <cstring>
#include <memory>

extern "C" {
#include "aes.h"
}

#include "bluetoe/bindings/nordic/nrf52/security_tool_box.cpp"

NRF_RNG_Type    verif_nrf_rng;
NRF_ECB_Type    verif_nrf_ecb;
NRF_CLOCK_Type  verif_nrf_clock;
NRF_RTC_Type    verif_nrf_rtc0;
NRF_RADIO_Type  verif_nrf_radio;
NRF_TIMER_Type  verif_nrf_timer0, verif_nrf_timer1;
NRF_TEMP_Type   verif_nrf_temp;
NRF_CCM_Type    verif_nrf_ccm;
NRF_AAR_Type    verif_nrf_aar;
NRF_PPI_Type    verif_nrf_ppi;
NRF_GPIOTE_Type verif_nrf_gpiote;
NVIC_Type       verif_nrf_nvic;

static std::vector< std::uint8_t > rng_script;
static std::size_t                 rng_pos = 0;
static std::vector< unsigned >     passkey_hist( 1000000, 0 );

void verif_nrf::rng_task_start()
{
    if ( rng_pos == rng_script.size() )
        throw verif_rng_exhausted();

    verif_nrf_rng.VALUE         = rng_script[ rng_pos++ ];
    verif_nrf_rng.EVENTS_VALRDY = 1;
}

void verif_nrf::ecb_task_start()
{
    // nRF52 ECB data structure: KEY[16] CLEARTEXT[16] CIPHERTEXT[16]
    std::uint8_t* const p = reinterpret_cast< std::uint8_t* >( static_cast< std::uintptr_t >( verif_nrf_ecb.ECBDATAPTR ) );
    struct AES_ctx ctx;
    AES_init_ctx( &ctx, p );
    std::uint8_t block[ 16 ];
    std::memcpy( block, p + 16, 16 );
    AES_ECB_encrypt( &ctx, block );
    std::memcpy( p + 32, block, 16 );
    verif_nrf_ecb.EVENTS_ENDECB = 1;
}

typedef std::vector< std::uint8_t > bytes;
using bluetoe::details::uint128_t;

static uint128_t blk( const bytes& b )
{
    uint128_t r;
    std::copy( b.begin(), b.end(), r.begin() );
    return r;
}

static std::string hex( const uint128_t& b ) { return verif::to_hex( b.data(), b.size() ); }

// exactly sized heap copy for pointer arguments
struct heap_copy
{
    std::unique_ptr< std::uint8_t[] > p;
    explicit heap_copy( const bytes& b ) : p( new std::uint8_t[ b.size() ] ) { std::copy( b.begin(), b.end(), p.get() ); }
    const std::uint8_t* get() const { return p.get(); }
};

static bluetoe::link_layer::device_address addr( const bytes& b )
{
    return bluetoe::link_layer::device_address( b.data(), b[ 6 ] != 0 );
}

int main()
{
    bluetoe::nrf52_details::security_tool_box tb;
    namespace nd = bluetoe::nrf52_details;

    return verif::line_loop( [&]( const std::vector< std::string >& w ) -> std::string {
        if ( w.empty() ) return "bad-op";
        std::vector< bytes > a;
        for ( std::size_t i = 1; i < w.size(); ++i )
        {
            bytes b;
            if ( !verif::parse_hex( w[ i ], b ) ) return "bad-op";
            a.push_back( b );
        }
        // argument lengths
        const auto sizes = [&]( std::initializer_list< std::size_t > l ) -> bool {
            if ( l.size() != a.size() ) return false;
            std::size_t i = 0;
            for ( std::size_t s : l ) if ( a[ i++ ].size() != s ) return false;
            return true;
        };
        const std::string& op = w[ 0 ];

        if ( op == "reset" && a.empty() )
        {
            rng_script.clear();
            rng_pos = 0;
            passkey_hist.assign( 1000000, 0 );
            return "ok";
        }
        if ( op == "aes" && sizes( { 16, 16 } ) ) return hex( nd::aes_le( blk( a[ 0 ] ), blk( a[ 1 ] ) ) );
        if ( op == "xor" && sizes( { 16, 16 } ) ) return hex( nd::xor_( blk( a[ 0 ] ), blk( a[ 1 ] ) ) );
        if ( op == "shl" && sizes( { 16 } ) ) return hex( nd::left_shift( blk( a[ 0 ] ) ) );
        if ( op == "k1" && sizes( { 16 } ) ) return hex( nd::aes_cmac_k1_subkey_generation( blk( a[ 0 ] ) ) );
        if ( op == "k2" && sizes( { 16 } ) ) return hex( nd::aes_cmac_k2_subkey_generation( blk( a[ 0 ] ) ) );
        if ( op == "c1" && sizes( { 16, 16, 16, 16 } ) ) return hex( tb.c1( blk( a[ 0 ] ), blk( a[ 1 ] ), blk( a[ 2 ] ), blk( a[ 3 ] ) ) );
        if ( op == "s1" && sizes( { 16, 16, 16 } ) ) return hex( tb.s1( blk( a[ 0 ] ), blk( a[ 1 ] ), blk( a[ 2 ] ) ) );
        if ( op == "f4" && sizes( { 32, 32, 16, 1 } ) )
        {
            heap_copy u( a[ 0 ] ), v( a[ 1 ] );
            return hex( tb.f4( u.get(), v.get(), blk( a[ 2 ] ), a[ 3 ][ 0 ] ) );
        }
        if ( op == "f5" && sizes( { 32, 16, 16, 7, 7 } ) )
        {
            bluetoe::details::ecdh_shared_secret_t dh;
            std::copy( a[ 0 ].begin(), a[ 0 ].end(), dh.begin() );
            const auto r = tb.f5( dh, blk( a[ 1 ] ), blk( a[ 2 ] ), addr( a[ 3 ] ), addr( a[ 4 ] ) );
            return hex( r.first ) + ":" + hex( r.second );
        }
        if ( op == "f5key" && sizes( { 32 } ) )
        {
            bluetoe::details::ecdh_shared_secret_t dh;
            std::copy( a[ 0 ].begin(), a[ 0 ].end(), dh.begin() );
            return hex( nd::f5_key( dh ) );
        }
        if ( op == "f5cmac" && sizes( { 16, 64 } ) )
        {
            heap_copy b( a[ 1 ] );
            return hex( nd::f5_cmac( blk( a[ 0 ] ), b.get() ) );
        }
        if ( op == "f6" && sizes( { 16, 16, 16, 16, 3, 7, 7 } ) )
        {
            bluetoe::details::io_capabilities_t io;
            std::copy( a[ 4 ].begin(), a[ 4 ].end(), io.begin() );
            return hex( tb.f6( blk( a[ 0 ] ), blk( a[ 1 ] ), blk( a[ 2 ] ), blk( a[ 3 ] ), io, addr( a[ 5 ] ), addr( a[ 6 ] ) ) );
        }
        if ( op == "g2" && sizes( { 32, 32, 16, 16 } ) )
        {
            heap_copy u( a[ 0 ] ), v( a[ 1 ] );
            return std::to_string( tb.g2( u.get(), v.get(), blk( a[ 2 ] ), blk( a[ 3 ] ) ) );
        }
        if ( op == "validpk" && sizes( { 64 } ) )
        {
            heap_copy pk( a[ 0 ] );
            return tb.is_valid_public_key( pk.get() ) ? "1" : "0";
        }
        if ( ( op == "passkey" || op == "srand" || op == "nonce" ) && a.size() == 1 )
        {
            rng_script = a[ 0 ];
            rng_pos    = 0;
            verif_nrf_rng.EVENTS_VALRDY = 0;
            try
            {
                const uint128_t r = op == "passkey" ? tb.create_passkey() : op == "srand" ? tb.create_srand() : tb.select_random_nonce();
                return hex( r ) + " " + std::to_string( rng_pos );
            }
            catch ( const verif_rng_exhausted& )
            {
                return "exhausted " + std::to_string( rng_pos );
            }
        }
        if ( op == "passkeyscan" && sizes( { 1 } ) )
        {
            std::vector< bool > seen( 1000000, false );
            unsigned long first = 0, second = 0, out = 0, distinct = 0;
            rng_script.assign( 6, 0 );
            rng_script[ 2 ] = a[ 0 ][ 0 ];
            for ( unsigned t = 0; t != ( 1u << 16 ); ++t )
            {
                rng_script[ 0 ] = t & 0xff;
                rng_script[ 1 ] = t >> 8;
                rng_pos = 0;
                const uint128_t r = tb.create_passkey();
                if ( rng_pos != 3 ) { ++second; continue; }
                ++first;
                unsigned long long v = 0;
                bool big = false;
                for ( int i = 15; i >= 0; --i ) { if ( i > 7 && r[ i ] ) big = true; v = ( v << 8 ) | r[ i ]; }
                if ( big || v > 999999 ) { ++out; continue; }
                ++passkey_hist[ v ];
                if ( !seen[ v ] ) { seen[ v ] = true; ++distinct; }
            }
            return "first=" + std::to_string( first ) + " second=" + std::to_string( second )
                + " outofrange=" + std::to_string( out ) + " distinct=" + std::to_string( distinct );
        }
        if ( op == "passkeyhist" && a.empty() )
        {
            const auto mm = std::minmax_element( passkey_hist.begin(), passkey_hist.end() );
            return "min=" + std::to_string( *mm.first ) + " max=" + std::to_string( *mm.second );
        }
        return "bad-op";
    } );
}
