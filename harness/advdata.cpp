// Correspondence harness for C14: server< ... >::advertising_data / scan_response_data of the real
// bluetoe/server.hpp (+ adv_service_list.hpp, appearance.hpp, peripheral_connection_interval_range.hpp,
// server_name.hpp, custom_advertising.hpp) for a family of server declarations.
//   server k [declaration tokens for the model, ignored here]
//   adv n | scan n     call with an exactly sized heap buffer of n octets (ASan sees every overflow);
//                      prints `<returned size> <hex of the first min(size, n) octets>`
//   setadv hex | setscan hex    runtime custom data (server 14 only)
#include "common/proto.hpp"
#include <cassert>
#include <memory>
#include <bluetoe/server.hpp>
#include <bluetoe/service.hpp>
#include <bluetoe/adv_service_list.hpp>
#include <bluetoe/appearance.hpp>
#include <bluetoe/server_name.hpp>
#include <bluetoe/peripheral_connection_interval_range.hpp>
#include <bluetoe/custom_advertising.hpp>
#include <bluetoe/gap_service.hpp>

namespace {
    constexpr char name_short[] = "Bt";
    constexpr char name_med[]   = "Test Name";
    constexpr char name_long[]  = "A very long device name of 40 characters";
    constexpr char name_empty[] = "";
    constexpr char name_26[]    = "abcdefghijklmnopqrstuvwxyz";
    // UTF-8 names with 2-, 3- and 4-byte sequences at many positions, long enough to be shortened at every buffer size
    constexpr char name_utf8a[] = "K\xc3\xbc" "hlschrank Thermometer \xc2\xb0" "C";
    constexpr char name_utf8b[] = "\xe2\x82\xac" "a" "\xf0\x9f\x98\x80" "\xc3\xa9" "b" "\xe2\x82\xac" "\xf0\x9f\x98\x80" "c" "\xc3\xbc" "\xe2\x82\xac" "\xf0\x9f\x98\x80" "d" "\xc2\xb0";
    constexpr char name_utf8c[] = "\xf0\x9f\x98\x80" "\xf0\x9f\x98\x80" "\xe2\x82\xac" "\xc3\xa9" "x" "\xf0\x9f\x98\x80" "\xe2\x82\xac" "\xc3\xa9" "\xf0\x9f\x98\x80" "\xe2\x82\xac";

    const std::uint8_t custom5[ 5 ]  = { 0x02, 0x01, 0x06, 0x01, 0xff };
    const std::uint8_t custom31[ 31 ] = { 0x02, 0x01, 0x06, 0x1b, 0xff, 1, 2, 3, 4, 5, 6, 7, 8, 9, 10, 11, 12, 13, 14, 15, 16, 17, 18, 19, 20, 21, 22, 23, 24, 25, 26 };
    const std::uint8_t custom40[ 40 ] = { 0x02, 0x01, 0x06, 0x24, 0xff, 1, 2, 3, 4, 5, 6, 7, 8, 9, 10, 11, 12, 13, 14, 15, 16, 17, 18, 19, 20, 21, 22, 23, 24, 25, 26, 27, 28, 29, 30, 31, 32, 33, 34, 35 };
    const std::uint8_t scan4[ 4 ]    = { 0x03, 0x09, 'a', 'b' };
}

template < std::uint16_t U > using s16 = bluetoe::service< bluetoe::service_uuid16< U > >;
using s128a = bluetoe::service< bluetoe::service_uuid< 0x111393DD, 0x01D2, 0x40D6, 0xA0A0, 0xE9B1A56A1191 > >;
using s128b = bluetoe::service< bluetoe::service_uuid< 0x8C8B4094, 0x0DE2, 0x499F, 0xA28A, 0x4EED5BC73CA9 > >;
using s128c = bluetoe::service< bluetoe::service_uuid< 0x7D295F4D, 0x2850, 0x4F57, 0xB595, 0x837F5753F8A9 > >;

typedef bluetoe::server< s16< 0x1234 > > S0;
typedef bluetoe::server< s16< 0x1234 >, bluetoe::no_list_of_service_uuids > S1;
typedef bluetoe::server< s16< 0x1234 >, bluetoe::no_list_of_service_uuids, bluetoe::server_name< name_med > > S2;
typedef bluetoe::server< s16< 0x1234 >, bluetoe::no_list_of_service_uuids, bluetoe::server_name< name_long > > S3;
typedef bluetoe::server< s16< 0x1234 >, bluetoe::no_list_of_service_uuids, bluetoe::server_name< name_empty > > S4;
typedef bluetoe::server< s16< 0x1234 >, bluetoe::server_name< name_short >, bluetoe::appearance::keyboard, bluetoe::advertise_appearance > S5;
typedef bluetoe::server< s16< 0x1101 >, s16< 0x1102 >, s16< 0x1103 >, s16< 0x1104 >, s16< 0x1105 >, s16< 0x1106 >, s16< 0x1107 >,
    s16< 0x1108 >, s16< 0x1109 >, s16< 0x110a >, s16< 0x110b >, s16< 0x110c >, s16< 0x110d >, s16< 0x110e >, s16< 0x110f > > S6;
typedef bluetoe::server< s128a > S7;
typedef bluetoe::server< s128a, s128b, s128c, bluetoe::no_gap_service_for_gatt_servers > S8;
typedef bluetoe::server< s16< 0x1234 >, s128a, bluetoe::server_name< name_med >,
    bluetoe::peripheral_connection_interval_range< 6, 0x0C80 >, bluetoe::appearance::keyboard, bluetoe::advertise_appearance > S9;
typedef bluetoe::server< s16< 0x1234 >, s16< 0xabcd >, s128a,
    bluetoe::list_of_16_bit_service_uuids< bluetoe::service_uuid16< 0xabcd >, bluetoe::service_uuid16< 0x1234 > >,
    bluetoe::list_of_128_bit_service_uuids< bluetoe::service_uuid< 0x8C8B4094, 0x0DE2, 0x499F, 0xA28A, 0x4EED5BC73CA9 > > > S10;
typedef bluetoe::server< s16< 0x1212 >, bluetoe::list_of_16_bit_service_uuids<> > S11;
typedef bluetoe::server< s16< 0x1234 >, bluetoe::custom_advertising_data< 5, custom5 >, bluetoe::custom_scan_response_data< 4, scan4 > > S12;
typedef bluetoe::server< s16< 0x1234 >, bluetoe::custom_advertising_data< 31, custom31 >, bluetoe::custom_scan_response_data< 40, custom40 > > S13;
typedef bluetoe::server< s16< 0x1234 >, bluetoe::runtime_custom_advertising_data, bluetoe::runtime_custom_scan_response_data > S14;
typedef bluetoe::server< s16< 0x1234 >, bluetoe::no_list_of_service_uuids, bluetoe::server_name< name_long >, bluetoe::peripheral_connection_interval_range<> > S15;
typedef bluetoe::server< s16< 0x1234 >, s128a, s128b, bluetoe::no_gap_service_for_gatt_servers, bluetoe::server_name< name_short > > S16;
typedef bluetoe::server< s16< 0x1234 >, bluetoe::no_list_of_service_uuids, bluetoe::server_name< name_26 > > S17;
typedef bluetoe::server< s16< 0x1234 >, bluetoe::no_list_of_service_uuids, bluetoe::appearance::keyboard, bluetoe::advertise_appearance,
    bluetoe::peripheral_connection_interval_range< 0x0010, 0x0020 > > S18;

typedef bluetoe::server< s16< 0x1234 >, bluetoe::no_list_of_service_uuids, bluetoe::server_name< name_utf8a > > S19;
typedef bluetoe::server< s16< 0x1234 >, bluetoe::no_list_of_service_uuids, bluetoe::server_name< name_utf8b > > S20;
typedef bluetoe::server< s16< 0x1234 >, bluetoe::server_name< name_utf8c >, bluetoe::appearance::keyboard, bluetoe::advertise_appearance > S21;

struct srv_if
{
    virtual ~srv_if() {}
    virtual std::size_t adv( std::uint8_t*, std::size_t ) = 0;
    virtual std::size_t scan( std::uint8_t*, std::size_t ) = 0;
    virtual bool setadv( const std::vector< std::uint8_t >& ) { return false; }
    virtual bool setscan( const std::vector< std::uint8_t >& ) { return false; }
};

template < class S >
struct wrap : srv_if
{
    S s;
    std::size_t adv( std::uint8_t* b, std::size_t n ) override { return s.advertising_data( b, n ); }
    std::size_t scan( std::uint8_t* b, std::size_t n ) override { return s.scan_response_data( b, n ); }
};

struct wrap_rt : wrap< S14 >
{
    bool setadv( const std::vector< std::uint8_t >& v ) override
    {
        std::unique_ptr< std::uint8_t[] > p( new std::uint8_t[ v.size() ] );
        std::copy( v.begin(), v.end(), p.get() );
        s.set_runtime_custom_advertising_data( p.get(), v.size() );
        return true;
    }
    bool setscan( const std::vector< std::uint8_t >& v ) override
    {
        std::unique_ptr< std::uint8_t[] > p( new std::uint8_t[ v.size() ] );
        std::copy( v.begin(), v.end(), p.get() );
        s.set_runtime_custom_scan_response_data( p.get(), v.size() );
        return true;
    }
};

static std::unique_ptr< srv_if > make( unsigned long long k )
{
    switch ( k )
    {
    case 0: return std::unique_ptr< srv_if >( new wrap< S0 > );
    case 1: return std::unique_ptr< srv_if >( new wrap< S1 > );
    case 2: return std::unique_ptr< srv_if >( new wrap< S2 > );
    case 3: return std::unique_ptr< srv_if >( new wrap< S3 > );
    case 4: return std::unique_ptr< srv_if >( new wrap< S4 > );
    case 5: return std::unique_ptr< srv_if >( new wrap< S5 > );
    case 6: return std::unique_ptr< srv_if >( new wrap< S6 > );
    case 7: return std::unique_ptr< srv_if >( new wrap< S7 > );
    case 8: return std::unique_ptr< srv_if >( new wrap< S8 > );
    case 9: return std::unique_ptr< srv_if >( new wrap< S9 > );
    case 10: return std::unique_ptr< srv_if >( new wrap< S10 > );
    case 11: return std::unique_ptr< srv_if >( new wrap< S11 > );
    case 12: return std::unique_ptr< srv_if >( new wrap< S12 > );
    case 13: return std::unique_ptr< srv_if >( new wrap< S13 > );
    case 14: return std::unique_ptr< srv_if >( new wrap_rt );
    case 15: return std::unique_ptr< srv_if >( new wrap< S15 > );
    case 16: return std::unique_ptr< srv_if >( new wrap< S16 > );
    case 17: return std::unique_ptr< srv_if >( new wrap< S17 > );
    case 18: return std::unique_ptr< srv_if >( new wrap< S18 > );
    case 19: return std::unique_ptr< srv_if >( new wrap< S19 > );
    case 20: return std::unique_ptr< srv_if >( new wrap< S20 > );
    case 21: return std::unique_ptr< srv_if >( new wrap< S21 > );
    }
    return std::unique_ptr< srv_if >();
}

int main()
{
    std::unique_ptr< srv_if > s = make( 0 );
    return verif::line_loop( [&]( const std::vector< std::string >& w ) -> std::string {
        if ( w.empty() ) return "bad-op";
        unsigned long long v = 0;
        if ( w[ 0 ] == "server" && w.size() >= 2 && verif::parse_u64( w[ 1 ], v ) )
        {
            auto n = make( v );
            if ( !n ) return "bad-op";
            s = std::move( n );
            return "ok";
        }
        if ( ( w[ 0 ] == "adv" || w[ 0 ] == "scan" ) && w.size() == 2 && verif::parse_u64( w[ 1 ], v ) && v <= 64 )
        {
            std::unique_ptr< std::uint8_t[] > buf( new std::uint8_t[ v ] );
            std::memset( buf.get(), 0xee, v );
            const std::size_t r = w[ 0 ] == "adv" ? s->adv( buf.get(), v ) : s->scan( buf.get(), v );
            return std::to_string( r ) + " " + verif::to_hex( buf.get(), std::min< std::size_t >( r, v ) );
        }
        if ( ( w[ 0 ] == "setadv" || w[ 0 ] == "setscan" ) && w.size() == 2 )
        {
            std::vector< std::uint8_t > data;
            if ( !verif::parse_hex( w[ 1 ], data ) ) return "bad-op";
            return ( w[ 0 ] == "setadv" ? s->setadv( data ) : s->setscan( data ) ) ? "ok" : "bad-op";
        }
        return "bad-op";
    } );
}
