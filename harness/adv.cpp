// Correspondence harness for C24 / C25: drives the REAL advertiser classes of
// bluetoe/link_layer/include/bluetoe/advertising.hpp (details::select_advertiser_implementation<>,
// the channel maps, intervals, start/stop implementations, all four advertising types) and the
// real white list (white_list.hpp) mixed into a minimal mock link layer that records what the
// advertiser hands to the radio (schedule_advertisment( channel, ..., when, ... )).
//
//   reset <cfg>        cfg 0: defaults (all channels, 100 ms fixed, auto start, connectable undirected)
//                          1: variable map, variable interval, no_auto_start, undirected
//                          2: variable map, advertising_interval<30>, auto start, undirected
//                          3: all channels, variable interval, no_auto_start, undirected
//                          4: variable map, variable interval, no_auto_start,
//                             undirected + directed + scannable + non-connectable (change_advertising)
//                          5: directed   6: scannable   7: non-connectable (defaults otherwise)
//                      every configuration has white_list<4>
//   add c | remove c   add_channel_to_advertising_channel_map / remove_channel_from_advertsing_channel_map
//   interval ms        advertising_interval_ms
//   start | startn n | stop      no_auto_start_advertising controls
//   llstart | llstop | timeout   handle_start_advertising / handle_stop_advertising / handle_adv_timeout
//   dirty              l2cap_adverting_data_or_scan_response_data_changed() returns true once
//   change t           change_advertising< type t >  (cfg 4)
//   direct a           directed_advertising_address( a )       a = 48 address bits * 2 + random flag
//   local a            local_address( a )
//   filter b | wladd a | wlremove a    connection_request_filter / add_to / remove_from white list
//   scanfilter b | scanreq hex   scan_request_filter; is_scan_request_in_filter( ScanA, TxAdd ) -> `f=<in filter>`
//   recv hex           handle_adv_receive on an exactly sized heap copy of the PDU (header + body)
//   recvfull hex       same, PDU copied into the 36 byte advertising_receive_buffer (as the nRF radio does)
// output: `ok` or `- | s <channel> <delay us> t<advertising PDU type>` for scheduling ops (PDU type: 0 ADV_IND,
// 1 ADV_DIRECT_IND, 2 ADV_NONCONN_IND, 6 ADV_SCAN_IND, read from the PDU handed to the radio), prefixed by
// `acc <remote> ` / `rej ` for recv ops.
#include "common/proto.hpp"
#include <cassert>
#include <bluetoe/advertising.hpp>
#include <bluetoe/white_list.hpp>
#include <memory>

using namespace bluetoe::link_layer;

static device_address make_addr( unsigned long long a )
{
    const bool random = a & 1;
    a >>= 1;
    std::uint8_t b[ 6 ];
    for ( int i = 0; i != 6; ++i )
        b[ i ] = ( a >> ( 8 * i ) ) & 0xff;
    return device_address( b, random );
}

static unsigned long long addr_num( const device_address& a )
{
    unsigned long long r = 0;
    int i = 0;
    for ( auto p = a.begin(); p != a.end(); ++p, ++i )
        r |= static_cast< unsigned long long >( *p ) << ( 8 * i );
    return r * 2 + ( a.is_random() ? 1 : 0 );
}

struct mock_radio
{
    static constexpr std::size_t radio_maximum_white_list_entries = 0;
};

struct sched_t
{
    bool     valid;
    unsigned channel;
    unsigned long long delay_us;
    unsigned pdu_type;      // type of the advertising PDU handed to the radio (lower 4 bits of its header)
};

template < typename ... Options >
struct mock_ll :
    details::select_advertiser_implementation< mock_ll< Options... >, Options... >,
    white_list< 4 >::template impl< mock_radio, mock_ll< Options... > >
{
    typedef mock_radio radio_t;

    mock_ll() : address_( make_addr( 2 * 0xc0ffee112233ull + 1 ) ), dirty_( false )
    {
        // one exactly sized heap block for the three advertising buffers
        buffer_.reset( new std::uint8_t[ this->maximum_required_advertising_buffer() ] );
        std::memset( buffer_.get(), 0, this->maximum_required_advertising_buffer() );
        last_.valid = false;
    }

    std::uint8_t* raw_pdu_buffer() { return buffer_.get(); }
    const device_address& local_address() const { return address_; }
    std::size_t fill_l2cap_advertising_data( std::uint8_t* b, std::size_t s ) { assert( s >= 3 ); b[ 0 ] = 2; b[ 1 ] = 1; b[ 2 ] = 6; return 3; }
    std::size_t fill_l2cap_scan_response_data( std::uint8_t* b, std::size_t s ) { assert( s >= 2 ); b[ 0 ] = 0; b[ 1 ] = 0; return 2; }
    bool l2cap_adverting_data_or_scan_response_data_changed() { const bool r = dirty_; dirty_ = false; return r; }
    void set_access_address_and_crc_init( std::uint32_t, std::uint32_t ) {}

    void schedule_advertisment( unsigned channel, const write_buffer& adv, const write_buffer&, delta_time when, const read_buffer& )
    {
        assert( !last_.valid );
        assert( adv.size != 0 );
        last_.valid    = true;
        last_.channel  = channel;
        last_.delay_us = when.usec();
        last_.pdu_type = adv.buffer[ 0 ] & 0x0f;
    }

    device_address address_;
    bool           dirty_;
    sched_t        last_;
    std::unique_ptr< std::uint8_t[] > buffer_;
};

struct adv_if
{
    virtual ~adv_if() {}
    virtual bool add( unsigned ) { return false; }
    virtual bool remove( unsigned ) { return false; }
    virtual bool interval( unsigned ) { return false; }
    virtual bool start() { return false; }
    virtual bool startn( unsigned ) { return false; }
    virtual bool stop() { return false; }
    virtual bool change( unsigned ) { return false; }
    virtual bool direct( const device_address& ) { return false; }
    virtual void llstart() = 0;
    virtual void llstop() = 0;
    virtual void timeout() = 0;
    virtual void dirty() = 0;
    virtual void local( const device_address& ) = 0;
    virtual void filter( bool ) = 0;
    virtual void scanfilter( bool ) = 0;
    virtual bool scan_in_filter( const device_address& ) = 0;
    virtual device_address local() = 0;
    virtual bool wladd( const device_address& ) = 0;
    virtual bool wlremove( const device_address& ) = 0;
    virtual bool recv( std::uint8_t*, std::size_t, device_address& ) = 0;
    virtual std::uint8_t* receive_buffer( std::size_t& ) = 0;
    virtual sched_t take() = 0;
};

template < class LL >
struct common : adv_if
{
    LL ll;
    void llstart() override { ll.handle_start_advertising(); }
    void llstop() override { ll.handle_stop_advertising(); }
    void timeout() override { ll.handle_adv_timeout(); }
    void dirty() override { ll.dirty_ = true; }
    void local( const device_address& a ) override { ll.address_ = a; }
    void filter( bool b ) override { ll.connection_request_filter( b ); }
    void scanfilter( bool b ) override { ll.scan_request_filter( b ); }
    bool scan_in_filter( const device_address& a ) override { return ll.is_scan_request_in_filter( a ); }
    device_address local() override { return ll.address_; }
    bool wladd( const device_address& a ) override { return ll.add_to_white_list( a ); }
    bool wlremove( const device_address& a ) override { return ll.remove_from_white_list( a ); }
    bool recv( std::uint8_t* p, std::size_t n, device_address& remote ) override { return ll.handle_adv_receive( read_buffer{ p, n }, remote ); }
    std::uint8_t* receive_buffer( std::size_t& n ) override { const read_buffer b = ll.advertising_receive_buffer(); n = b.size; return b.buffer; }
    sched_t take() override { const sched_t r = ll.last_; ll.last_.valid = false; return r; }
};

template < class Base > struct with_map : Base
{
    bool add( unsigned c ) override { this->ll.add_channel_to_advertising_channel_map( c ); return true; }
    bool remove( unsigned c ) override { this->ll.remove_channel_from_advertsing_channel_map( c ); return true; }
};
template < class Base > struct with_interval : Base
{
    bool interval( unsigned ms ) override { this->ll.advertising_interval_ms( ms ); return true; }
};
template < class Base > struct with_start : Base
{
    bool start() override { this->ll.start_advertising(); return true; }
    bool startn( unsigned n ) override { this->ll.start_advertising( n ); return true; }
    bool stop() override { this->ll.stop_advertising(); return true; }
};
template < class Base > struct with_direct : Base
{
    bool direct( const device_address& a ) override { this->ll.directed_advertising_address( a ); return true; }
};
template < class Base > struct with_change : Base
{
    bool change( unsigned t ) override
    {
        switch ( t )
        {
        case 0: this->ll.template change_advertising< connectable_undirected_advertising >(); return true;
        case 1: this->ll.template change_advertising< connectable_directed_advertising >(); return true;
        case 2: this->ll.template change_advertising< scannable_undirected_advertising >(); return true;
        case 3: this->ll.template change_advertising< non_connectable_undirected_advertising >(); return true;
        }
        return false;
    }
};

typedef mock_ll<> ll0;
typedef mock_ll< variable_advertising_channel_map, variable_advertising_interval, no_auto_start_advertising > ll1;
typedef mock_ll< variable_advertising_channel_map, advertising_interval< 30 > > ll2;
typedef mock_ll< variable_advertising_interval, no_auto_start_advertising > ll3;
typedef mock_ll< variable_advertising_channel_map, variable_advertising_interval, no_auto_start_advertising,
    connectable_undirected_advertising, connectable_directed_advertising,
    scannable_undirected_advertising, non_connectable_undirected_advertising > ll4;
typedef mock_ll< connectable_directed_advertising > ll5;
typedef mock_ll< scannable_undirected_advertising > ll6;
typedef mock_ll< non_connectable_undirected_advertising > ll7;

static std::unique_ptr< adv_if > make( unsigned long long cfg )
{
    switch ( cfg )
    {
    case 0: return std::unique_ptr< adv_if >( new common< ll0 > );
    case 1: return std::unique_ptr< adv_if >( new with_start< with_interval< with_map< common< ll1 > > > > );
    case 2: return std::unique_ptr< adv_if >( new with_map< common< ll2 > > );
    case 3: return std::unique_ptr< adv_if >( new with_start< with_interval< common< ll3 > > > );
    case 4: return std::unique_ptr< adv_if >( new with_change< with_direct< with_start< with_interval< with_map< common< ll4 > > > > > > );
    case 5: return std::unique_ptr< adv_if >( new with_direct< common< ll5 > > );
    case 6: return std::unique_ptr< adv_if >( new common< ll6 > );
    case 7: return std::unique_ptr< adv_if >( new common< ll7 > );
    }
    return std::unique_ptr< adv_if >();
}

int main()
{
    std::unique_ptr< adv_if > a = make( 0 );
    return verif::line_loop( [&]( const std::vector< std::string >& w ) -> std::string {
        if ( w.empty() ) return "bad-op";
        unsigned long long v = 0;
        const bool has_arg = w.size() == 2 && verif::parse_u64( w[ 1 ], v );
        const auto sched = [&]() -> std::string {
            const sched_t s = a->take();
            if ( !s.valid ) return "-";
            return "s " + std::to_string( s.channel ) + " " + std::to_string( s.delay_us ) + " t" + std::to_string( s.pdu_type );
        };
        const std::string& op = w[ 0 ];
        if ( op == "reset" && has_arg ) { auto n = make( v ); if ( !n ) return "bad-op"; a = std::move( n ); return "ok"; }
        if ( op == "add" && has_arg && v >= 37 && v <= 39 ) return a->add( v ) ? "ok" : "bad-op";
        if ( op == "remove" && has_arg && v >= 37 && v <= 39 ) return a->remove( v ) ? "ok" : "bad-op";
        if ( op == "interval" && has_arg && v <= 100000 ) return a->interval( v ) ? "ok" : "bad-op";
        if ( op == "start" && w.size() == 1 ) return a->start() ? sched() : "bad-op";
        if ( op == "startn" && has_arg && v >= 1 && v <= 1000000 ) return a->startn( v ) ? sched() : "bad-op";
        if ( op == "stop" && w.size() == 1 ) return a->stop() ? "ok" : "bad-op";
        if ( op == "change" && has_arg ) return a->change( v ) ? "ok" : "bad-op";
        if ( op == "direct" && has_arg ) return a->direct( make_addr( v ) ) ? sched() : "bad-op";
        if ( op == "llstart" && w.size() == 1 ) { a->llstart(); return sched(); }
        if ( op == "llstop" && w.size() == 1 ) { a->llstop(); return "ok"; }
        if ( op == "timeout" && w.size() == 1 ) { a->timeout(); return sched(); }
        if ( op == "dirty" && w.size() == 1 ) { a->dirty(); return "ok"; }
        if ( op == "local" && has_arg ) { a->local( make_addr( v ) ); return "ok"; }
        if ( op == "filter" && has_arg && v < 2 ) { a->filter( v ); return "ok"; }
        if ( op == "wladd" && has_arg ) return a->wladd( make_addr( v ) ) ? "1" : "0";
        if ( op == "wlremove" && has_arg ) return a->wlremove( make_addr( v ) ) ? "1" : "0";
        if ( op == "scanfilter" && has_arg && v < 2 ) { a->scanfilter( v ); return "ok"; }
        if ( op == "scanreq" && w.size() == 2 )
        {
            // the scan filter of white_list.hpp applied to ScanA / TxAdd.  (The generic predicate
            // advertising_type_base::is_valid_scan_request< Layout > of advertising.hpp cannot be called:
            // it is never instantiated by the library and does not compile when instantiated —
            // `body.begin` on a std::pair.)
            std::vector< std::uint8_t > pdu;
            if ( !verif::parse_hex( w[ 1 ], pdu ) || pdu.size() < 2 ) return "bad-op";
            std::unique_ptr< std::uint8_t[] > heap( new std::uint8_t[ pdu.size() ] );
            std::copy( pdu.begin(), pdu.end(), heap.get() );
            std::uint8_t scanner[ 6 ] = { 0 };
            for ( std::size_t i = 0; i != 6 && i + 2 < pdu.size(); ++i )
                scanner[ i ] = pdu[ i + 2 ];
            const bool in_filter = a->scan_in_filter( device_address( scanner, ( pdu[ 0 ] & 0x40 ) != 0 ) );
            return std::string( "f=" ) + ( in_filter ? "1" : "0" );
        }
        if ( ( op == "recv" || op == "recvfull" ) && w.size() == 2 )
        {
            std::vector< std::uint8_t > pdu;
            if ( !verif::parse_hex( w[ 1 ], pdu ) || pdu.size() < 2 ) return "bad-op";
            device_address remote;
            bool acc;
            if ( op == "recv" )
            {
                std::unique_ptr< std::uint8_t[] > heap( new std::uint8_t[ pdu.size() ] );
                std::copy( pdu.begin(), pdu.end(), heap.get() );
                acc = a->recv( heap.get(), pdu.size(), remote );
            }
            else
            {
                std::size_t n = 0;
                std::uint8_t* const p = a->receive_buffer( n );
                std::memset( p, 0, n );
                std::copy( pdu.begin(), pdu.begin() + std::min( n, pdu.size() ), p );
                acc = a->recv( p, n, remote );
            }
            return ( acc ? "acc " + std::to_string( addr_num( remote ) ) + " " : std::string( "rej " ) ) + sched();
        }
        return "bad-op";
    } );
}
