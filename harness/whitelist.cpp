// Correspondence harness for C26: drives the real white_list_implementation<> from /repo.
//   reset <N>            N in {1,2,3,8}: software list of that size;  N = 104/108: radio-backed
//                        list of size 4/8 forwarding to a mock radio (set of the same size)
//   add|remove|isin|connin|scanin <addr>   addr = 48-bit address * 2 + random-flag
//   clear | free | setconn b | setscan b | getconn | getscan
#include "common/proto.hpp"
#include <bluetoe/white_list.hpp>
#include <memory>
#include <set>

using bluetoe::link_layer::device_address;

static device_address make_addr( unsigned long long a )
{
    const bool random = a & 1;
    a >>= 1;
    std::uint8_t b[ 6 ];
    for ( int i = 0; i != 6; ++i )
        b[ i ] = ( a >> ( 8 * i ) ) & 0xff;
    return device_address( b, random );
}

struct list_if
{
    virtual ~list_if() {}
    virtual bool add( const device_address& ) = 0;
    virtual bool remove( const device_address& ) = 0;
    virtual bool is_in( const device_address& ) const = 0;
    virtual std::size_t free_size() const = 0;
    virtual void clear() = 0;
    virtual void conn( bool ) = 0;
    virtual bool conn() const = 0;
    virtual void scan( bool ) = 0;
    virtual bool scan() const = 0;
    virtual bool conn_in( const device_address& ) const = 0;
    virtual bool scan_in( const device_address& ) const = 0;
};

struct sw_radio { static constexpr std::size_t radio_maximum_white_list_entries = 0; };

// mock radio with a hardware white list: the reference semantics (a bounded std::set); counts
// the calls so that the harness can assert that the forwarding list forwards exactly once
template < std::size_t Size >
struct hw_radio
{
    static constexpr std::size_t radio_maximum_white_list_entries = Size;
    typedef std::pair< std::vector< std::uint8_t >, bool > key_t;
    static key_t key( const device_address& a ) { return key_t( std::vector< std::uint8_t >( a.begin(), a.end() ), a.is_random() ); }

    std::set< key_t > set_;
    bool conn_ = false, scan_ = false;
    mutable unsigned calls_ = 0;

    std::size_t radio_white_list_free_size() const { ++calls_; return Size - set_.size(); }
    void radio_clear_white_list() { ++calls_; set_.clear(); }
    bool radio_add_to_white_list( const device_address& a )
    {
        ++calls_;
        if ( set_.count( key( a ) ) ) return true;
        if ( set_.size() == Size ) return false;
        set_.insert( key( a ) );
        return true;
    }
    bool radio_is_in_white_list( const device_address& a ) const { ++calls_; return set_.count( key( a ) ) != 0; }
    bool radio_remove_from_white_list( const device_address& a ) { ++calls_; return set_.erase( key( a ) ) != 0; }
    void radio_connection_request_filter( bool b ) { ++calls_; conn_ = b; }
    bool radio_connection_request_filter() const { ++calls_; return conn_; }
    void radio_scan_request_filter( bool b ) { ++calls_; scan_ = b; }
    bool radio_scan_request_filter() const { ++calls_; return scan_; }
    bool radio_is_connection_request_in_filter( const device_address& a ) const { ++calls_; return !conn_ || set_.count( key( a ) ); }
    bool radio_is_scan_request_in_filter( const device_address& a ) const { ++calls_; return !scan_ || set_.count( key( a ) ); }
};

template < class Radio, std::size_t Size >
struct link_layer_t : Radio, bluetoe::link_layer::white_list< Size >::template impl< Radio, link_layer_t< Radio, Size > >
{
};

template < class Radio, std::size_t Size >
struct wrapper : list_if
{
    link_layer_t< Radio, Size > ll;
    bool add( const device_address& a ) override { return ll.add_to_white_list( a ); }
    bool remove( const device_address& a ) override { return ll.remove_from_white_list( a ); }
    bool is_in( const device_address& a ) const override { return ll.is_in_white_list( a ); }
    std::size_t free_size() const override { return ll.white_list_free_size(); }
    void clear() override { ll.clear_white_list(); }
    void conn( bool b ) override { ll.connection_request_filter( b ); }
    bool conn() const override { return ll.connection_request_filter(); }
    void scan( bool b ) override { ll.scan_request_filter( b ); }
    bool scan() const override { return ll.scan_request_filter(); }
    bool conn_in( const device_address& a ) const override { return ll.is_connection_request_in_filter( a ); }
    bool scan_in( const device_address& a ) const override { return ll.is_scan_request_in_filter( a ); }
};

static std::unique_ptr< list_if > make( unsigned long long n )
{
    switch ( n )
    {
    case 1: return std::unique_ptr< list_if >( new wrapper< sw_radio, 1 > );
    case 2: return std::unique_ptr< list_if >( new wrapper< sw_radio, 2 > );
    case 3: return std::unique_ptr< list_if >( new wrapper< sw_radio, 3 > );
    case 8: return std::unique_ptr< list_if >( new wrapper< sw_radio, 8 > );
    case 104: return std::unique_ptr< list_if >( new wrapper< hw_radio< 4 >, 4 > );
    case 108: return std::unique_ptr< list_if >( new wrapper< hw_radio< 8 >, 8 > );
    }
    return std::unique_ptr< list_if >();
}

int main()
{
    std::unique_ptr< list_if > wl = make( 8 );
    return verif::line_loop( [&]( const std::vector< std::string >& w ) -> std::string {
        unsigned long long v = 0;
        const bool has_arg = w.size() == 2 && verif::parse_u64( w[ 1 ], v );
        const auto b = []( bool x ) { return std::string( x ? "1" : "0" ); };
        if ( w.empty() ) return "bad-op";
        if ( w[ 0 ] == "reset" && has_arg ) { auto n = make( v ); if ( !n ) return "bad-op"; wl = std::move( n ); return "ok"; }
        if ( w[ 0 ] == "add" && has_arg ) return b( wl->add( make_addr( v ) ) );
        if ( w[ 0 ] == "remove" && has_arg ) return b( wl->remove( make_addr( v ) ) );
        if ( w[ 0 ] == "isin" && has_arg ) return b( wl->is_in( make_addr( v ) ) );
        if ( w[ 0 ] == "connin" && has_arg ) return b( wl->conn_in( make_addr( v ) ) );
        if ( w[ 0 ] == "scanin" && has_arg ) return b( wl->scan_in( make_addr( v ) ) );
        if ( w[ 0 ] == "setconn" && has_arg && v < 2 ) { wl->conn( v ); return "ok"; }
        if ( w[ 0 ] == "setscan" && has_arg && v < 2 ) { wl->scan( v ); return "ok"; }
        if ( w[ 0 ] == "clear" && w.size() == 1 ) { wl->clear(); return "ok"; }
        if ( w[ 0 ] == "free" && w.size() == 1 ) return std::to_string( wl->free_size() );
        if ( w[ 0 ] == "getconn" && w.size() == 1 ) return b( wl->conn() );
        if ( w[ 0 ] == "getscan" && w.size() == 1 ) return b( wl->scan() );
        return "bad-op";
    } );
}
