// Replacement for <assert.h>/<cassert> used ONLY by the connev harness (harness/connev is put
// first on the include path of that harness): a failing assert() throws, so that the harness can
// report "assert" for the operation instead of dying. Like the original it may be included
// several times and always (re)defines the macro.
#ifndef VERIF_ASSERT_FAILURE_DEFINED
#define VERIF_ASSERT_FAILURE_DEFINED
#ifdef __cplusplus
struct verif_assert_failure { const char* expr; };
#endif
#endif
#undef assert
#ifdef __cplusplus
#define assert( e ) ( ( e ) ? static_cast< void >( 0 ) : throw ::verif_assert_failure{ #e } )
#else
#define assert( e ) ( (void)0 )
#endif
#ifndef static_assert
#ifndef __cplusplus
#define static_assert _Static_assert
#endif
#endif
