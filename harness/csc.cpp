// Correspondence harness for C40: the real bluetoe::cycling_speed_and_cadence<> service inside a
// real bluetoe::server<>, driven through l2cap_input / l2cap_output with one connection.
//   reset <cfg>     cfg 0: one sensor location (control_point_handler< no_sensor_position_handler >)
//                   cfg 1: locations 1,2,3   (control_point_handler< sensor_position_handler<…> >)
//                   cfg 2: locations 1,5, crank data only
//                   new server + new connection, control point CCCD configured for indications
//   write <hex>     ATT Write Request to the SC Control Point value -> "ok" | "err <code>"
//   confirm         the user handler calls confirm_cumulative_wheel_revolutions( server )  -> "ok"
//   output          l2cap_output into an exactly sized 23 byte heap block -> indicated value | "-"
//   ack             ATT Handle Value Confirmation from the client -> "ok"
//   cccd <0|1>      client writes 0x0000 / 0x0002 to the control point CCCD -> "ok" | "err <code>"
//   wheel           "<number of set_cumulative_wheel_revolutions calls> <last value>"
#include "common/proto.hpp"
#include <cassert>
#include <memory>
#include <new>
#include <bluetoe/services/csc.hpp>
#include <bluetoe/server.hpp>

struct data_handler
{
    data_handler() : calls( 0 ), wheel( 0 ) {}

    std::pair< std::uint32_t, std::uint16_t > cumulative_wheel_revolutions_and_time() { return std::pair< std::uint32_t, std::uint16_t >( wheel, 0 ); }
    std::pair< std::uint16_t, std::uint16_t > cumulative_crank_revolutions_and_time() { return std::pair< std::uint16_t, std::uint16_t >( 0, 0 ); }
    void set_cumulative_wheel_revolutions( std::uint32_t v ) { ++calls; wheel = v; }

    unsigned      calls;
    std::uint32_t wheel;
};

typedef bluetoe::server<
    bluetoe::cycling_speed_and_cadence<
        bluetoe::sensor_location::top_of_shoe,
        bluetoe::csc::wheel_revolution_data_supported,
        bluetoe::csc::crank_revolution_data_supported,
        bluetoe::csc::handler< data_handler > > > server_single;

typedef bluetoe::server<
    bluetoe::cycling_speed_and_cadence<
        bluetoe::sensor_location::top_of_shoe,
        bluetoe::sensor_location::in_shoe,
        bluetoe::sensor_location::hip,
        bluetoe::csc::wheel_revolution_data_supported,
        bluetoe::csc::crank_revolution_data_supported,
        bluetoe::csc::handler< data_handler > > > server_multi;

typedef bluetoe::server<
    bluetoe::cycling_speed_and_cadence<
        bluetoe::sensor_location::top_of_shoe,
        bluetoe::sensor_location::left_crank,
        bluetoe::csc::crank_revolution_data_supported,
        bluetoe::csc::handler< data_handler > > > server_crank;

static const std::size_t mtu = 23;

struct rig_if
{
    virtual ~rig_if() {}
    virtual std::string write( const std::vector< std::uint8_t >& value ) = 0;
    virtual std::string confirm() = 0;
    virtual std::string output() = 0;
    virtual std::string ack() = 0;
    virtual std::string cccd( bool on ) = 0;
    virtual std::string wheel() = 0;
    virtual std::string reconnect() = 0;
};

static std::string hex2( unsigned v )
{
    const std::uint8_t b = static_cast< std::uint8_t >( v );
    return verif::to_hex( &b, 1 );
}

template < class Server >
struct rig : rig_if, Server
{
    typedef typename Server::template channel_data_t< bluetoe::details::link_state > connection_t;

    connection_t  con;
    std::uint16_t cp_handle, cccd_handle;

    rig() : cp_handle( 0 ), cccd_handle( 0 )
    {
        con.client_mtu( mtu );
        this->notification_callback( &l2cap_cb, this );
        discover();
        cccd( true );
    }

    static bool l2cap_cb( const bluetoe::details::notification_data& item, void* that, bluetoe::details::notification_type type )
    {
        connection_t& c = static_cast< rig* >( that )->con;
        switch ( type )
        {
        case bluetoe::details::notification_type::notification:
            return c.queue_notification( item.client_characteristic_configuration_index() );
        case bluetoe::details::notification_type::indication:
            return c.queue_indication( item.client_characteristic_configuration_index() );
        case bluetoe::details::notification_type::confirmation:
            c.indication_confirmed();
            return true;
        }
        return true;
    }

    // request and response in exactly sized heap blocks
    std::vector< std::uint8_t > request( const std::vector< std::uint8_t >& pdu )
    {
        std::unique_ptr< std::uint8_t[] > in( new std::uint8_t[ pdu.size() ] );
        std::copy( pdu.begin(), pdu.end(), in.get() );
        std::unique_ptr< std::uint8_t[] > out( new std::uint8_t[ mtu ] );
        std::size_t size = mtu;
        this->l2cap_input( in.get(), pdu.size(), out.get(), size, con );
        return std::vector< std::uint8_t >( out.get(), out.get() + size );
    }

    // Find Information over the whole table: the value attribute with UUID 0x2A55 and the first
    // CCCD (0x2902) behind it
    void discover()
    {
        std::uint16_t start = 1;
        for ( ;; )
        {
            const std::vector< std::uint8_t > rsp = request( { 0x04, std::uint8_t( start & 0xff ), std::uint8_t( start >> 8 ), 0xff, 0xff } );
            if ( rsp.size() < 6 || rsp[ 0 ] != 0x05 || rsp[ 1 ] != 0x01 )
                break;
            std::uint16_t last = start;
            for ( std::size_t i = 2; i + 4 <= rsp.size(); i += 4 )
            {
                const std::uint16_t handle = rsp[ i ] | ( rsp[ i + 1 ] << 8 );
                const std::uint16_t uuid   = rsp[ i + 2 ] | ( rsp[ i + 3 ] << 8 );
                if ( uuid == 0x2A55 )
                    cp_handle = handle;
                if ( uuid == 0x2902 && cp_handle != 0 && cccd_handle == 0 )
                    cccd_handle = handle;
                last = handle;
            }
            if ( last == 0xffff )
                break;
            start = last + 1;
        }
        if ( cp_handle == 0 || cccd_handle == 0 )
        {
            std::fprintf( stderr, "control point not found\n" );
            std::exit( 3 );
        }
    }

    std::string write_to( std::uint16_t handle, const std::vector< std::uint8_t >& value )
    {
        std::vector< std::uint8_t > pdu = { 0x12, std::uint8_t( handle & 0xff ), std::uint8_t( handle >> 8 ) };
        pdu.insert( pdu.end(), value.begin(), value.end() );
        const std::vector< std::uint8_t > rsp = request( pdu );
        if ( rsp.size() == 1 && rsp[ 0 ] == 0x13 )
            return "ok";
        if ( rsp.size() == 5 && rsp[ 0 ] == 0x01 && rsp[ 1 ] == 0x12 && rsp[ 2 ] == ( handle & 0xff ) && rsp[ 3 ] == ( handle >> 8 ) )
            return "err " + hex2( rsp[ 4 ] );
        return "pdu " + verif::to_hex( rsp );
    }

    std::string write( const std::vector< std::uint8_t >& value ) override { return write_to( cp_handle, value ); }

    std::string cccd( bool on ) override { return write_to( cccd_handle, { std::uint8_t( on ? 0x02 : 0x00 ), 0x00 } ); }

    std::string confirm() override
    {
        this->confirm_cumulative_wheel_revolutions( static_cast< Server& >( *this ) );
        return "ok";
    }

    std::string output() override
    {
        std::unique_ptr< std::uint8_t[] > out( new std::uint8_t[ mtu ] );
        std::size_t size = mtu;
        this->l2cap_output( out.get(), size, con );
        if ( size == 0 )
            return "-";
        if ( size >= 3 && out[ 0 ] == 0x1d && out[ 1 ] == ( cp_handle & 0xff ) && out[ 2 ] == ( cp_handle >> 8 ) )
            return verif::to_hex( out.get() + 3, size - 3 );
        return "pdu " + verif::to_hex( out.get(), size );
    }

    std::string ack() override
    {
        const std::vector< std::uint8_t > rsp = request( { 0x1e } );
        return rsp.empty() ? "ok" : "pdu " + verif::to_hex( rsp );
    }

    // link loss followed by a new connection of a client that is not bonded: the library is told
    // about the disconnect, the connection data (notification queue, CCCDs, MTU) starts afresh
    std::string reconnect() override
    {
        this->client_disconnected( con );
        con.~connection_t();
        new ( &con ) connection_t();
        con.client_mtu( mtu );
        return "ok";
    }

    std::string wheel() override
    {
        data_handler& h = static_cast< data_handler& >( *this );
        return std::to_string( h.calls ) + " " + std::to_string( h.wheel );
    }
};

static std::unique_ptr< rig_if > make( unsigned long long cfg )
{
    switch ( cfg )
    {
    case 0: return std::unique_ptr< rig_if >( new rig< server_single > );
    case 1: return std::unique_ptr< rig_if >( new rig< server_multi > );
    case 2: return std::unique_ptr< rig_if >( new rig< server_crank > );
    }
    return std::unique_ptr< rig_if >();
}

int main()
{
    std::unique_ptr< rig_if > r = make( 0 );
    return verif::line_loop( [&]( const std::vector< std::string >& w ) -> std::string {
        unsigned long long v = 0;
        std::vector< std::uint8_t > bytes;
        if ( w.empty() ) return "bad-op";
        if ( w[ 0 ] == "reset" && w.size() == 2 && verif::parse_u64( w[ 1 ], v ) )
        {
            auto n = make( v );
            if ( !n ) return "bad-op";
            r = std::move( n );
            return "ok";
        }
        if ( w[ 0 ] == "write" && w.size() == 2 && verif::parse_hex( w[ 1 ], bytes ) && bytes.size() <= 20 ) return r->write( bytes );
        if ( w[ 0 ] == "confirm" && w.size() == 1 ) return r->confirm();
        if ( w[ 0 ] == "output" && w.size() == 1 ) return r->output();
        if ( w[ 0 ] == "ack" && w.size() == 1 ) return r->ack();
        if ( w[ 0 ] == "cccd" && w.size() == 2 && verif::parse_u64( w[ 1 ], v ) && v < 2 ) return r->cccd( v == 1 );
        if ( w[ 0 ] == "wheel" && w.size() == 1 ) return r->wheel();
        if ( w[ 0 ] == "reconnect" && w.size() == 1 ) return r->reconnect();
        return "bad-op";
    } );
}
