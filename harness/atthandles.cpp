// Correspondence harness for C04: the REAL handle mapping templates (bluetoe/attribute_handle.hpp)
// and attribute generators (service.hpp, characteristic.hpp) of a family of server types.
//   server <k> <decl…>   select server type k (decl = the declaration value given to the model; checked)
//   hbi <i>              details::handle_index_mapping<S>::handle_by_index( i )
//   fibh <h> | ibh <h>   first_index_by_handle( h ) | index_by_handle( h )   ("inv" = invalid index)
//   sweep <lo> <hi>      run-length encoded fibh and ibh for every handle lo..hi
//   attr <i>             "<handle_by_index(i)> <attribute_at(i).uuid> <access result> <value read at offset 0>"
//   acc <h>              access BY HANDLE through the real server<>::l2cap_input (fresh connection, MTU 23):
//                        Read Request, Read Blob Request (offset 0), Write Request and Find Information h..h;
//                        prints "r:<c> b:<c> w:<c> f:<response hex>" with <c> = inv (Error Response Invalid
//                        Handle for h) | ok:<value hex> (read, blob) | acc@<handle> (write accepted or refused
//                        with an error that names <handle>) | err@<handle> (other error naming <handle>) | ?<hex>.
//                        The write payload is the value just read (or one 0 byte), so the probe leaves
//                        every readable value as it was.
#define VERIF_ATT_WITH_PDU
#include "atthandles/server_if.hpp"

static std::string acc_class( const std::vector< std::uint8_t >& rsp, std::uint8_t op, std::uint8_t succ, unsigned h, bool write )
{
    if ( rsp.size() == 5 && rsp[ 0 ] == 0x01 && rsp[ 1 ] == op )
    {
        const unsigned eh = rsp[ 2 ] | ( rsp[ 3 ] << 8 );
        if ( rsp[ 4 ] == 0x01 && eh == h )
            return "inv";
        return std::string( write ? "acc@" : "err@" ) + verif::hex16( eh );
    }
    if ( !rsp.empty() && rsp[ 0 ] == succ )
        return write ? "acc@" + verif::hex16( h ) : "ok:" + verif::to_hex( rsp.data() + 1, rsp.size() - 1 );
    return "?" + verif::to_hex( rsp );
}

int main()
{
    std::unique_ptr< verif::server_if > s = verif::make_server( 0 );
    return verif::line_loop( [&]( const std::vector< std::string >& w ) -> std::string {
        if ( w.empty() ) return "bad-op";
        if ( w[ 0 ] == "server" ) return verif::select_server( w, s );
        unsigned long long a = 0, b = 0;
        const bool one = w.size() == 2 && verif::parse_u64( w[ 1 ], a );
        const bool two = w.size() == 3 && verif::parse_u64( w[ 1 ], a ) && verif::parse_u64( w[ 2 ], b );
        if ( w[ 0 ] == "hbi" && one && a < 100000 ) return std::to_string( s->hbi( a ) );
        if ( w[ 0 ] == "fibh" && one && a <= 0xffff ) return verif::idx_str( s->fibh( a ) );
        if ( w[ 0 ] == "ibh" && one && a <= 0xffff ) return verif::idx_str( s->ibh( a ) );
        if ( w[ 0 ] == "sweep" && two && a <= b && b <= 0xffff )
        {
            std::string out[ 2 ];
            for ( int which = 0; which != 2; ++which )
            {
                std::string cur; unsigned long long run = 0;
                for ( unsigned long long h = a; h <= b; ++h )
                {
                    const std::string v = verif::idx_str( which == 0 ? s->fibh( h ) : s->ibh( h ) );
                    if ( run && v == cur ) { ++run; continue; }
                    if ( run ) out[ which ] += cur + "*" + std::to_string( run ) + ",";
                    cur = v; run = 1;
                }
                out[ which ] += cur + "*" + std::to_string( run );
            }
            return "f " + out[ 0 ] + " i " + out[ 1 ];
        }
        if ( w[ 0 ] == "acc" && one && a <= 0xffff )
        {
            const std::uint8_t l = a & 0xff, u = a >> 8;
            const std::vector< std::uint8_t > r = s->pdu( 23, { 0x0a, l, u } );
            const std::vector< std::uint8_t > b = s->pdu( 23, { 0x0c, l, u, 0, 0 } );
            std::vector< std::uint8_t > wr = { 0x12, l, u };
            if ( r.size() > 1 && r[ 0 ] == 0x0b )
                wr.insert( wr.end(), r.begin() + 1, r.end() );
            else
                wr.push_back( 0 );
            const std::vector< std::uint8_t > wrsp = s->pdu( 23, wr );
            const std::vector< std::uint8_t > f = s->pdu( 23, { 0x04, l, u, l, u } );
            return "r:" + acc_class( r, 0x0a, 0x0b, a, false ) + " b:" + acc_class( b, 0x0c, 0x0d, a, false )
                + " w:" + acc_class( wrsp, 0x12, 0x13, a, true ) + " f:" + verif::to_hex( f );
        }
        if ( w[ 0 ] == "attr" && one && a < s->n_attrs() )
        {
            std::vector< std::uint8_t > v;
            const int rc = s->attr_read( a, v );
            return std::to_string( s->hbi( a ) ) + " " + verif::hex16( s->attr_uuid( a ) ) + " " + std::to_string( rc ) + " " + verif::to_hex( v );
        }
        return "bad-op";
    } );
}
