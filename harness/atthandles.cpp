// Correspondence harness for C04: the REAL handle mapping templates (bluetoe/attribute_handle.hpp)
// and attribute generators (service.hpp, characteristic.hpp) of a family of server types.
//   server <k> <decl…>   select server type k (decl = the declaration value given to the model; checked)
//   hbi <i>              details::handle_index_mapping<S>::handle_by_index( i )
//   fibh <h> | ibh <h>   first_index_by_handle( h ) | index_by_handle( h )   ("inv" = invalid index)
//   sweep <lo> <hi>      run-length encoded fibh and ibh for every handle lo..hi
//   attr <i>             "<handle_by_index(i)> <attribute_at(i).uuid> <access result> <value read at offset 0>"
#include "atthandles/server_if.hpp"

int main()
{
    std::unique_ptr< verif::server_if > s = verif::make_server( 0 );
    return verif::line_loop( [&]( const std::vector< std::string >& w ) -> std::string {
        if ( w.empty() ) return "bad-op";
        if ( w[ 0 ] == "server" ) return verif::select_server( w, s );
        unsigned long long a = 0, b = 0;
        const bool one = w.size() == 2 && verif::parse_u64( w[ 1 ], a );
        const bool two = w.size() == 3 && verif::parse_u64( w[ 1 ], a ) && verif::parse_u64( w[ 2 ], b );
        if ( w[ 0 ] == "hbi" && one && a < 100000 ) return std::to_string( s->hbi( a ) );
        if ( w[ 0 ] == "fibh" && one && a <= 0xffff ) return verif::idx_str( s->fibh( a ) );
        if ( w[ 0 ] == "ibh" && one && a <= 0xffff ) return verif::idx_str( s->ibh( a ) );
        if ( w[ 0 ] == "sweep" && two && a <= b && b <= 0xffff )
        {
            std::string out[ 2 ];
            for ( int which = 0; which != 2; ++which )
            {
                std::string cur; unsigned long long run = 0;
                for ( unsigned long long h = a; h <= b; ++h )
                {
                    const std::string v = verif::idx_str( which == 0 ? s->fibh( h ) : s->ibh( h ) );
                    if ( run && v == cur ) { ++run; continue; }
                    if ( run ) out[ which ] += cur + "*" + std::to_string( run ) + ",";
                    cur = v; run = 1;
                }
                out[ which ] += cur + "*" + std::to_string( run );
            }
            return "f " + out[ 0 ] + " i " + out[ 1 ];
        }
        if ( w[ 0 ] == "attr" && one && a < s->n_attrs() )
        {
            std::vector< std::uint8_t > v;
            const int rc = s->attr_read( a, v );
            return std::to_string( s->hbi( a ) ) + " " + verif::hex16( s->attr_uuid( a ) ) + " " + std::to_string( rc ) + " " + verif::to_hex( v );
        }
        return "bad-op";
    } );
}
