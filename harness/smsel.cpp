// Correspondence harness for C36 / C35: pairing method selection and reported pairing status of
// the REAL bluetoe security managers (bluetoe/sm/include/bluetoe/{io_capabilities,security_manager,
// security_connection_data}.hpp) over the host tool box of tests/security_manager/test_sm.hpp
// (real AES from tests/test_tools/aes.c, real P-256 from tests/test_tools/uECC.c).
//
//   mat <cfg> <io>                              direct evaluation of io_capabilities_matrix<cfg>
//        -> "<advertised io> <legacy alg> <lesc alg>"       (io: any byte 0..255)
//   req <mgr> <cfg> <mitm> <oobopt> <cbhas> <io> <oobflag> <authreq>
//        one Pairing Request on a fresh manager; what the manager selected and what it advertises
//        -> "rej <code>" | "legacy <alg> <rsp io> <rsp oob> <rsp authreq>" | "lesc <alg> ..."
//   pair <mgr> <cfg> <mitm> <oobopt> <cbhas> <io> <oobflag> <authreq> <tk> <user>
//        a complete pairing driven by a central implemented here (see central_* below)
//        -> "<sel> done=<0|1> status=<0..3> early=<0|1> asked= shown= kbd= oobq= chk=<0|1> fail=<step>:<code>|-"
//   compiles <mgr> <cfg>                        does this manager/IO configuration exist at all
//
//   several pairings on ONE connection object (C35 over histories):
//   open <mgr> <cfg> <mitm> <oobopt>            new manager + connection, kept until the next open -> "ok status=0"
//   step <cbhas> <io> <oobflag> <authreq> <tk> <user>
//        one more pairing attempt on the open connection, same central and same output as `pair`
//        (a Pairing Request that arrives while pairing is not idle is answered with Pairing Failed
//        and resets pairing: "rej 8"); `early` = a status other than no_key was visible after the
//        request was handled and before the pairing completed
//   peerfail                                    the central sends Pairing Failed (05 08) -> "rsp=<hex> status=<n>"
//   reset                                       link_layer.hpp on a new connection: connection_data_ = connection_data_t() -> "status=<n>"
//
//   mgr : 0 legacy_security_manager, 1 lesc_security_manager, 2 security_manager
//   cfg : 0 none, 1 yes_no, 2 keyboard, 3 display, 4 display+yes_no, 5 display+keyboard
//   mitm: require_man_in_the_middle_protection option present; oobopt: oob_authentication_callback
//         option present; cbhas: what the callback answers
//   tk  : TK the central uses in legacy pairing: 0 zero (Just Works), 1 the pass key the user
//         sees / types, 2 the OOB data, 3 a wrong non-zero value
//   user: 0 never answers, 1 yes at once, 2 no at once, 3 yes later but before the DHKey check,
//         4 yes after the DHKey check was sent, 5 no before the DHKey check, 6 no after it
#include "common/proto.hpp"
#include <iterator>
#include <algorithm>
#include <cstring>
#include <memory>
#include <tuple>

#define BOOST_REQUIRE( x ) static_cast< void >( x )
#define BOOST_CHECK_EQUAL_COLLECTIONS( a, b, c, d ) static_cast< void >( 0 )
#include "test_sm.hpp"

namespace {

using bluetoe::details::uint128_t;

// ---------------------------------------------------------------------------------------------
// the user and the device's IO hardware
// ---------------------------------------------------------------------------------------------
static constexpr int the_passkey = 19655;   // == test::legacy_security_functions::create_passkey()

struct io_t
{
    int  user;          // see header comment
    bool asked, shown, kbd;
    int  shown_value;
    bluetoe::pairing_yes_no_response* pending;

    void init( int u ) { user = u; asked = shown = kbd = false; shown_value = -1; pending = nullptr; }

    void sm_pairing_yes_no( bluetoe::pairing_yes_no_response& response )
    {
        asked = true;
        if ( user == 1 ) response.yes_no_response( true );
        else if ( user == 2 ) response.yes_no_response( false );
        else pending = &response;
    }

    void sm_pairing_numeric_output( int pass_key ) { shown = true; shown_value = pass_key; }

    int sm_pairing_passkey() { kbd = true; return the_passkey; }

    bool answer( bool yes )
    {
        if ( !pending ) return false;
        bluetoe::pairing_yes_no_response* p = pending;
        pending = nullptr;
        p->yes_no_response( yes );
        return true;
    }
} io;

struct oob_t
{
    bool has;
    int  queries;
    static const std::array< std::uint8_t, 16 > data;

    std::pair< bool, std::array< std::uint8_t, 16 > > sm_oob_authentication_data( const bluetoe::link_layer::device_address& )
    {
        ++queries;
        return { has, has ? data : std::array< std::uint8_t, 16 >{{ 0 }} };
    }
} oob;

const std::array< std::uint8_t, 16 > oob_t::data = {{
    0xF1, 0x50, 0xA0, 0xAE, 0xB7, 0xAA, 0xBA, 0xC8, 0x19, 0x22, 0xB6, 0x15, 0x4C, 0x23, 0x94, 0x7A }};

// ---------------------------------------------------------------------------------------------
// option lists
// ---------------------------------------------------------------------------------------------
template < int Cfg > struct io_opts;
template <> struct io_opts< 0 > { using type = std::tuple<>; };
template <> struct io_opts< 1 > { using type = std::tuple< bluetoe::pairing_yes_no< io_t, io > >; };
template <> struct io_opts< 2 > { using type = std::tuple< bluetoe::pairing_keyboard< io_t, io > >; };
template <> struct io_opts< 3 > { using type = std::tuple< bluetoe::pairing_numeric_output< io_t, io > >; };
template <> struct io_opts< 4 > { using type = std::tuple< bluetoe::pairing_numeric_output< io_t, io >, bluetoe::pairing_yes_no< io_t, io > >; };
template <> struct io_opts< 5 > { using type = std::tuple< bluetoe::pairing_numeric_output< io_t, io >, bluetoe::pairing_keyboard< io_t, io > >; };

template < bool Mitm > struct mitm_opts { using type = std::tuple<>; };
template <> struct mitm_opts< true > { using type = std::tuple< bluetoe::require_man_in_the_middle_protection >; };

template < bool Oob > struct oob_opts { using type = std::tuple<>; };
template <> struct oob_opts< true > { using type = std::tuple< bluetoe::oob_authentication_callback< oob_t, oob > >; };

template < class A, class B > struct cat;
template < class ... A, class ... B > struct cat< std::tuple< A... >, std::tuple< B... > > { using type = std::tuple< A..., B... >; };

template < class Manager, class Funcs, class Opts > struct apply;
template < class Manager, class Funcs, class ... O >
struct apply< Manager, Funcs, std::tuple< O... > > { using type = test::security_manager_base< Manager, Funcs, 65, O... >; };

template < class T > struct matrix_apply;
template < class ... O > struct matrix_apply< std::tuple< O... > > { using type = bluetoe::details::io_capabilities_matrix< O... >; };

template < int Mgr > struct mgr_of;
template <> struct mgr_of< 0 > { using manager = bluetoe::legacy_security_manager; using funcs = test::legacy_security_functions; };
template <> struct mgr_of< 1 > { using manager = bluetoe::lesc_security_manager;   using funcs = test::lesc_security_functions; };
template <> struct mgr_of< 2 > { using manager = bluetoe::security_manager;        using funcs = test::all_security_functions; };

// ---------------------------------------------------------------------------------------------
// the central
// ---------------------------------------------------------------------------------------------
struct request_t { unsigned io, oobflag, authreq; };

struct result_t
{
    std::string sel;     // "rej c" | "legacy a i o r" | "lesc a i o r"
    bool done, early, chk;
    int  status;
    std::string fail;
    result_t() : done( false ), early( false ), chk( true ), status( 0 ), fail( "-" ) {}
};

static test::all_security_functions central_tools;

static const bluetoe::link_layer::device_address central_addr = bluetoe::link_layer::random_device_address( { 0xa6, 0xa5, 0xa4, 0xa3, 0xa2, 0xa1 } );
static const bluetoe::link_layer::device_address peripheral_addr = bluetoe::link_layer::public_device_address( { 0xb6, 0xb5, 0xb4, 0xb3, 0xb2, 0xb1 } );

// central's P-256 key pair (Bluetooth byte order), computed once from a fixed private key
struct central_keys_t
{
    bluetoe::details::ecdh_private_key_t priv;
    bluetoe::details::ecdh_public_key_t  pub;
    central_keys_t()
    {
        std::uint8_t be_priv[ 32 ], be_pub[ 64 ];
        for ( int i = 0; i != 32; ++i ) be_priv[ i ] = static_cast< std::uint8_t >( 0x11 + 7 * i );
        const int rc = uECC_compute_public_key( be_priv, be_pub );
        if ( rc != 1 ) std::abort();
        std::reverse_copy( be_priv, be_priv + 32, priv.begin() );
        std::reverse_copy( be_pub, be_pub + 32, pub.begin() );
        std::reverse_copy( be_pub + 32, be_pub + 64, pub.begin() + 32 );
    }
};
static const central_keys_t& central_keys() { static const central_keys_t k; return k; }

static uint128_t tk_of( int tk )
{
    uint128_t r = {{ 0 }};
    if ( tk == 1 ) bluetoe::details::write_32bit( r.data(), static_cast< std::uint32_t >( the_passkey ) );
    else if ( tk == 2 ) r = oob_t::data;
    else if ( tk == 3 ) { r[ 0 ] = 0x5a; r[ 7 ] = 0x01; }
    return r;
}

// thin, type-dependent access to one manager instantiation; everything else is compiled once
struct mgr_if
{
    virtual ~mgr_if() {}
    virtual void input( const std::uint8_t* in, std::size_t in_size, std::uint8_t* out, std::size_t& out_size ) = 0;
    virtual void output( std::uint8_t* out, std::size_t& out_size ) = 0;
    virtual int  status() const = 0;
    virtual bool lesc_requested() const = 0;
    virtual int  legacy_alg() const = 0;
    virtual int  lesc_alg() const = 0;
    virtual void legacy_p1p2( uint128_t& p1, uint128_t& p2 ) const = 0;
    virtual std::pair< bool, uint128_t > find_key() const = 0;
    virtual void reset_connection() = 0;
};

template < class M, int K > struct access;
template < class M > struct access< M, 0 >
{
    static int  legacy_alg( const M& m ) { return static_cast< int >( m.connection_data_.legacy_pairing_algorithm() ); }
    static int  lesc_alg( const M& ) { return -1; }
    static void p1p2( const M& m, uint128_t& p1, uint128_t& p2 ) { p1 = m.connection_data_.c1_p1(); p2 = m.connection_data_.c1_p2(); }
};
template < class M > struct access< M, 1 >
{
    static int  legacy_alg( const M& ) { return -1; }
    static int  lesc_alg( const M& m ) { return static_cast< int >( m.connection_data_.lesc_pairing_algorithm() ); }
    static void p1p2( const M&, uint128_t&, uint128_t& ) {}
};
template < class M > struct access< M, 2 >
{
    static int  legacy_alg( const M& m ) { return static_cast< int >( m.connection_data_.legacy_pairing_algorithm() ); }
    static int  lesc_alg( const M& m ) { return static_cast< int >( m.connection_data_.lesc_pairing_algorithm() ); }
    static void p1p2( const M& m, uint128_t& p1, uint128_t& p2 ) { p1 = m.connection_data_.c1_p1(); p2 = m.connection_data_.c1_p2(); }
};

template < class M, int Mgr >
struct holder : mgr_if
{
    M m;
    void input( const std::uint8_t* in, std::size_t in_size, std::uint8_t* out, std::size_t& out_size ) override
    {
        m.l2cap_input( in, in_size, out, out_size, m.connection_data_ );
    }
    void output( std::uint8_t* out, std::size_t& out_size ) override { m.l2cap_output( out, out_size, m.connection_data_ ); }
    int  status() const override { return static_cast< int >( m.connection_data_.local_device_pairing_status() ); }
    bool lesc_requested() const override { return m.connection_data_.state() == bluetoe::details::sm_pairing_state::lesc_pairing_requested; }
    int  legacy_alg() const override { return access< M, Mgr >::legacy_alg( m ); }
    int  lesc_alg() const override { return access< M, Mgr >::lesc_alg( m ); }
    void legacy_p1p2( uint128_t& p1, uint128_t& p2 ) const override { access< M, Mgr >::p1p2( m, p1, p2 ); }
    std::pair< bool, uint128_t > find_key() const override { return m.connection_data_.find_key( 0, 0 ); }
    void reset_connection() override
    {
        // link_layer.hpp: connection_data_ = connection_data_t(); then remote_connection_created()
        m.connection_data_ = typename M::connection_data_t();
        m.connection_data_.remote_connection_created( central_addr );
    }
};

struct runner
{
    mgr_if& m;
    static constexpr std::size_t mtu = 65;
    std::uint8_t out[ mtu ];
    std::size_t  out_size;

    explicit runner( mgr_if& mgr ) : m( mgr ), out_size( 0 ) {}

    void input( const std::vector< std::uint8_t >& pdu )
    {
        out_size = mtu;
        m.input( pdu.data(), pdu.size(), out, out_size );
    }

    void output()
    {
        out_size = mtu;
        m.output( out, out_size );
    }

    bool failed( result_t& r, const char* step )
    {
        if ( out_size == 2 && out[ 0 ] == 0x05 )
        {
            r.fail = std::string( step ) + ":" + std::to_string( out[ 1 ] );
            return true;
        }
        return false;
    }

    // "no key when no pairing completed": the status is sampled after every step of the exchange
    void watch( result_t& r ) { if ( m.status() != 0 ) r.early = true; }

    void legacy_rest( result_t& r, int tk )
    {
        const uint128_t key = tk_of( tk );
        uint128_t mrand, p1, p2;
        for ( int i = 0; i != 16; ++i ) mrand[ i ] = static_cast< std::uint8_t >( 0xC0 + i );
        m.legacy_p1p2( p1, p2 );

        std::vector< std::uint8_t > confirm( 17, 0x03 );
        const uint128_t mconfirm = central_tools.c1( key, mrand, p1, p2 );
        std::copy( mconfirm.begin(), mconfirm.end(), confirm.begin() + 1 );
        input( confirm );
        watch( r );
        if ( failed( r, "confirm" ) ) return;
        if ( out_size != 17 || out[ 0 ] != 0x03 ) { r.fail = "confirm:?"; return; }
        uint128_t sconfirm;
        std::copy( out + 1, out + 17, sconfirm.begin() );

        std::vector< std::uint8_t > random( 17, 0x04 );
        std::copy( mrand.begin(), mrand.end(), random.begin() + 1 );
        input( random );
        if ( failed( r, "random" ) ) { watch( r ); return; }
        if ( out_size != 17 || out[ 0 ] != 0x04 ) { r.fail = "random:?"; return; }
        uint128_t srand;
        std::copy( out + 1, out + 17, srand.begin() );

        r.done = true;
        // the central's own checks: Sconfirm matches the TK it used, both sides hold the same STK
        r.chk = central_tools.c1( key, srand, p1, p2 ) == sconfirm;
        const auto stk = central_tools.s1( key, srand, mrand );
        const auto stored = m.find_key();
        r.chk = r.chk && stored.first && stored.second == stk;
    }

    void lesc_rest( result_t& r, const std::vector< std::uint8_t >& request )
    {
        const bluetoe::details::io_capabilities_t io_a = {{ request[ 1 ], request[ 2 ], request[ 3 ] }};
        const bluetoe::details::io_capabilities_t io_b = {{ out[ 1 ], out[ 2 ], out[ 3 ] }};
        static const uint128_t zero = {{ 0 }};

        std::vector< std::uint8_t > pk( 65, 0x0C );
        std::copy( central_keys().pub.begin(), central_keys().pub.end(), pk.begin() + 1 );
        input( pk );
        watch( r );
        if ( failed( r, "pk" ) ) return;
        if ( out_size != 65 || out[ 0 ] != 0x0C ) { r.fail = "pk:?"; return; }
        bluetoe::details::ecdh_public_key_t pkb;
        std::copy( out + 1, out + 65, pkb.begin() );

        output();
        watch( r );
        if ( out_size != 17 || out[ 0 ] != 0x03 ) { r.fail = "confirm:?"; return; }
        uint128_t cb;
        std::copy( out + 1, out + 17, cb.begin() );

        uint128_t na;
        for ( int i = 0; i != 16; ++i ) na[ i ] = static_cast< std::uint8_t >( 0x30 + 3 * i );
        std::vector< std::uint8_t > random( 17, 0x04 );
        std::copy( na.begin(), na.end(), random.begin() + 1 );
        input( random );
        watch( r );
        if ( failed( r, "random" ) ) return;
        if ( out_size != 17 || out[ 0 ] != 0x04 ) { r.fail = "random:?"; return; }
        uint128_t nb;
        std::copy( out + 1, out + 17, nb.begin() );
        // the exchange the peripheral executed is the Just Works / Numeric Comparison one: Cb = f4( PKb, PKa, Nb, 0 )
        r.chk = central_tools.f4( pkb.data(), central_keys().pub.data(), nb, 0 ) == cb;

        if ( io.user == 3 ) io.answer( true );
        if ( io.user == 5 ) io.answer( false );
        watch( r );

        const auto dh_key = central_tools.p256( central_keys().priv.data(), pkb.data() );
        uint128_t mac_key, ltk;
        std::tie( mac_key, ltk ) = central_tools.f5( dh_key, na, nb, central_addr, peripheral_addr );
        // Ea with ra = rb = 0: nothing but the public exchange goes into the check
        const uint128_t ea = central_tools.f6( mac_key, na, nb, zero, io_a, central_addr, peripheral_addr );
        std::vector< std::uint8_t > check( 17, 0x0D );
        std::copy( ea.begin(), ea.end(), check.begin() + 1 );
        input( check );
        if ( failed( r, "dhkey" ) ) { watch( r ); return; }
        if ( out_size == 0 )
        {
            watch( r );
            if ( io.user == 4 ) io.answer( true );
            if ( io.user == 6 ) io.answer( false );
            output();
            if ( failed( r, "dhkey" ) ) { watch( r ); return; }
            if ( out_size == 0 ) { watch( r ); r.fail = "dhkey:wait"; return; }
        }
        if ( out_size != 17 || out[ 0 ] != 0x0D ) { r.fail = "dhkey:?"; return; }
        uint128_t eb;
        std::copy( out + 1, out + 17, eb.begin() );

        r.done = true;
        r.chk = r.chk && central_tools.f6( mac_key, nb, na, zero, io_b, peripheral_addr, central_addr ) == eb;
        const auto stored = m.find_key();
        r.chk = r.chk && stored.first && stored.second == ltk;
    }

    result_t run( const request_t& rq, bool complete, int tk, bool fresh = true )
    {
        result_t r;
        if ( fresh ) watch( r );
        const std::vector< std::uint8_t > request = {
            0x01, static_cast< std::uint8_t >( rq.io ), static_cast< std::uint8_t >( rq.oobflag ), static_cast< std::uint8_t >( rq.authreq ), 0x10, 0x00, 0x00 };
        input( request );
        watch( r );
        if ( out_size == 2 && out[ 0 ] == 0x05 )
        {
            r.sel = "rej " + std::to_string( out[ 1 ] );
            r.fail = "req:" + std::to_string( out[ 1 ] );
            r.status = m.status();
            return r;
        }
        if ( out_size != 7 || out[ 0 ] != 0x02 ) { r.sel = "rej ?"; r.fail = "req:?"; return r; }

        const bool lesc = m.lesc_requested();
        r.sel = ( lesc ? "lesc " + std::to_string( m.lesc_alg() ) : "legacy " + std::to_string( m.legacy_alg() ) )
            + " " + std::to_string( out[ 1 ] ) + " " + std::to_string( out[ 2 ] ) + " " + std::to_string( out[ 3 ] );

        if ( complete )
        {
            if ( lesc ) lesc_rest( r, request );
            else legacy_rest( r, tk );
        }
        r.status = m.status();
        return r;
    }
};

template < int Mgr, int Cfg, bool Mitm, bool Oob >
std::unique_ptr< mgr_if > make1()
{
    using opts = typename cat< typename io_opts< Cfg >::type, typename cat< typename mitm_opts< Mitm >::type, typename oob_opts< Oob >::type >::type >::type;
    using M = typename apply< typename mgr_of< Mgr >::manager, typename mgr_of< Mgr >::funcs, opts >::type;
    return std::unique_ptr< mgr_if >( new holder< M, Mgr > );
}

// the oob_authentication_callback option is present in every instantiation but the three
// <mgr, no IO, no MITM> ones (an absent option behaves like a callback that has no data)
template < int Mgr, int Cfg >
std::unique_ptr< mgr_if > make2( bool mitm, bool )
{
    return mitm ? make1< Mgr, Cfg, true, true >() : make1< Mgr, Cfg, false, true >();
}

template < int Mgr >
std::unique_ptr< mgr_if > make0( bool mitm, bool oobopt )
{
    if ( !mitm && !oobopt ) return make1< Mgr, 0, false, false >();
    return make2< Mgr, 0 >( mitm, oobopt );
}

// lesc_security_manager / security_manager do not compile with pairing_keyboard (cfg 2, 5):
// io_capabilities_matrix::sm_pairing_request_yes_no needs input_capabilities::sm_pairing_request_yes_no,
// which pairing_keyboard lacks. Those configurations do not exist.
static bool exists( unsigned mgr, unsigned cfg )
{
    return mgr < 3 && cfg < 6 && ( mgr == 0 || ( cfg != 2 && cfg != 5 ) );
}

// instantiated option sets: see make2 / make0
static bool instantiated( unsigned mgr, unsigned cfg, bool mitm, bool oobopt )
{
    return exists( mgr, cfg ) && ( oobopt || ( cfg == 0 && !mitm ) );
}

static std::unique_ptr< mgr_if > make( unsigned mgr, unsigned cfg, bool mitm, bool oobopt )
{
    switch ( mgr * 10 + cfg )
    {
    case  0: return make0< 0 >( mitm, oobopt );
    case  1: return make2< 0, 1 >( mitm, oobopt );
    case  2: return make2< 0, 2 >( mitm, oobopt );
    case  3: return make2< 0, 3 >( mitm, oobopt );
    case  4: return make2< 0, 4 >( mitm, oobopt );
    case  5: return make2< 0, 5 >( mitm, oobopt );
    case 10: return make0< 1 >( mitm, oobopt );
    case 11: return make2< 1, 1 >( mitm, oobopt );
    case 13: return make2< 1, 3 >( mitm, oobopt );
    case 14: return make2< 1, 4 >( mitm, oobopt );
    case 20: return make0< 2 >( mitm, oobopt );
    case 21: return make2< 2, 1 >( mitm, oobopt );
    case 23: return make2< 2, 3 >( mitm, oobopt );
    case 24: return make2< 2, 4 >( mitm, oobopt );
    }
    return std::unique_ptr< mgr_if >();
}

template < int Cfg >
std::string mat1( unsigned iocap )
{
    using M = typename matrix_apply< typename io_opts< Cfg >::type >::type;
    return std::to_string( static_cast< int >( M::get_io_capabilities() ) ) + " "
         + std::to_string( static_cast< int >( M::select_legacy_pairing_algorithm( static_cast< std::uint8_t >( iocap ) ) ) ) + " "
         + std::to_string( static_cast< int >( M::select_lesc_pairing_algorithm( static_cast< std::uint8_t >( iocap ) ) ) );
}

static std::string mat( unsigned cfg, unsigned iocap )
{
    switch ( cfg )
    {
    case 0: return mat1< 0 >( iocap );
    case 1: return mat1< 1 >( iocap );
    case 2: return mat1< 2 >( iocap );
    case 3: return mat1< 3 >( iocap );
    case 4: return mat1< 4 >( iocap );
    case 5: return mat1< 5 >( iocap );
    }
    return "bad-op";
}

} // namespace

int main()
{
    std::unique_ptr< mgr_if > session;
    return verif::line_loop( [&]( const std::vector< std::string >& w ) -> std::string {
        if ( w.empty() ) return "bad-op";
        std::vector< unsigned long long > a;
        for ( std::size_t i = 1; i < w.size(); ++i )
        {
            unsigned long long v = 0;
            if ( !verif::parse_u64( w[ i ], v ) ) return "bad-op";
            a.push_back( v );
        }
        if ( w[ 0 ] == "mat" && a.size() == 2 && a[ 0 ] < 6 && a[ 1 ] < 256 )
            return mat( a[ 0 ], a[ 1 ] );
        if ( w[ 0 ] == "compiles" && a.size() == 2 )
            return exists( a[ 0 ], a[ 1 ] ) ? "1" : "0";
        if ( w[ 0 ] == "open" && a.size() == 4 )
        {
            if ( a[ 2 ] > 1 || a[ 3 ] > 1 || !instantiated( a[ 0 ], a[ 1 ], a[ 2 ] != 0, a[ 3 ] != 0 ) )
                return "bad-op";
            io.init( 0 );
            oob.has = false;
            oob.queries = 0;
            session = make( a[ 0 ], a[ 1 ], a[ 2 ] != 0, a[ 3 ] != 0 );
            return "ok status=" + std::to_string( session->status() );
        }
        if ( w[ 0 ] == "step" && a.size() == 6 )
        {
            if ( !session || a[ 0 ] > 1 || a[ 1 ] > 255 || a[ 2 ] > 255 || a[ 3 ] > 255 || a[ 4 ] > 3 || a[ 5 ] > 6 )
                return "bad-op";
            io.init( static_cast< int >( a[ 5 ] ) );
            oob.has = a[ 0 ] != 0;
            oob.queries = 0;
            const request_t rq = { static_cast< unsigned >( a[ 1 ] ), static_cast< unsigned >( a[ 2 ] ), static_cast< unsigned >( a[ 3 ] ) };
            const result_t r = runner( *session ).run( rq, true, static_cast< int >( a[ 4 ] ), false );
            return r.sel + " done=" + ( r.done ? "1" : "0" ) + " status=" + std::to_string( r.status )
                + " early=" + ( r.early ? "1" : "0" ) + " asked=" + ( io.asked ? "1" : "0" ) + " shown=" + ( io.shown ? "1" : "0" )
                + " kbd=" + ( io.kbd ? "1" : "0" ) + " oobq=" + std::to_string( oob.queries )
                + " chk=" + ( r.chk ? "1" : "0" ) + " fail=" + r.fail;
        }
        if ( w[ 0 ] == "peerfail" && a.empty() )
        {
            if ( !session ) return "bad-op";
            io.init( 0 );
            runner rn( *session );
            rn.input( std::vector< std::uint8_t >{ 0x05, 0x08 } );
            return "rsp=" + verif::to_hex( rn.out, rn.out_size ) + " status=" + std::to_string( session->status() );
        }
        if ( w[ 0 ] == "reset" && a.empty() )
        {
            if ( !session ) return "bad-op";
            io.init( 0 );
            session->reset_connection();
            return "status=" + std::to_string( session->status() );
        }
        const bool is_req = w[ 0 ] == "req" && a.size() == 8;
        const bool is_pair = w[ 0 ] == "pair" && a.size() == 10;
        if ( is_req || is_pair )
        {
            if ( a[ 2 ] > 1 || a[ 3 ] > 1 || !instantiated( a[ 0 ], a[ 1 ], a[ 2 ] != 0, a[ 3 ] != 0 ) || a[ 2 ] > 1 || a[ 3 ] > 1 || a[ 4 ] > 1 || a[ 5 ] > 255 || a[ 6 ] > 255 || a[ 7 ] > 255 )
                return "bad-op";
            if ( is_pair && ( a[ 8 ] > 3 || a[ 9 ] > 6 ) )
                return "bad-op";
            io.init( is_pair ? static_cast< int >( a[ 9 ] ) : 0 );
            oob.has = a[ 4 ] != 0;
            oob.queries = 0;
            std::unique_ptr< mgr_if > m = make( a[ 0 ], a[ 1 ], a[ 2 ] != 0, a[ 3 ] != 0 );
            const request_t rq = { static_cast< unsigned >( a[ 5 ] ), static_cast< unsigned >( a[ 6 ] ), static_cast< unsigned >( a[ 7 ] ) };
            const result_t r = runner( *m ).run( rq, is_pair, is_pair ? static_cast< int >( a[ 8 ] ) : 0 );
            if ( is_req )
                return r.sel;
            return r.sel + " done=" + ( r.done ? "1" : "0" ) + " status=" + std::to_string( r.status )
                + " early=" + ( r.early ? "1" : "0" ) + " asked=" + ( io.asked ? "1" : "0" ) + " shown=" + ( io.shown ? "1" : "0" )
                + " kbd=" + ( io.kbd ? "1" : "0" ) + " oobq=" + std::to_string( oob.queries )
                + " chk=" + ( r.chk ? "1" : "0" ) + " fail=" + r.fail;
        }
        return "bad-op";
    } );
}
