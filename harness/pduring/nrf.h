// Minimal host stand-in for Nordic's <nrf.h>: just enough declarations for
// bluetoe/bindings/nordic/include/bluetoe/nrf.hpp to compile on the host, so that the harness
// can use the REAL bluetoe::nrf_details::encrypted_pdu_layout. No register is ever touched.
#ifndef VERIF_PDURING_NRF_H
#define VERIF_PDURING_NRF_H
#include <cstdint>

struct verif_regs
{
    volatile std::uint32_t TASKS_HFCLKSTART, TASKS_HFCLKSTOP, EVENTS_HFCLKSTARTED, EVENTS_LFCLKSTARTED,
        TASKS_LFCLKSTART, TASKS_STOP, TASKS_START, EVTEN, LFCLKSRC;
};

typedef verif_regs NRF_RADIO_Type;
typedef verif_regs NRF_TIMER_Type;
typedef verif_regs NRF_CLOCK_Type;
typedef verif_regs NRF_TEMP_Type;
typedef verif_regs NRF_RTC_Type;
typedef verif_regs NRF_CCM_Type;
typedef verif_regs NRF_AAR_Type;
typedef verif_regs NRF_PPI_Type;
typedef verif_regs NRF_RNG_Type;
typedef verif_regs NRF_ECB_Type;
typedef verif_regs NRF_GPIOTE_Type;
typedef verif_regs NVIC_Type;

static verif_regs verif_regs_instance;

#define NRF_RADIO  (&verif_regs_instance)
#define NRF_TIMER0 (&verif_regs_instance)
#define NRF_TIMER1 (&verif_regs_instance)
#define NRF_CLOCK  (&verif_regs_instance)
#define NRF_TEMP   (&verif_regs_instance)
#define NRF_RTC0   (&verif_regs_instance)
#define NRF_CCM    (&verif_regs_instance)
#define NRF_AAR    (&verif_regs_instance)
#define NRF_PPI    (&verif_regs_instance)
#define NRF_RNG    (&verif_regs_instance)
#define NRF_ECB    (&verif_regs_instance)
#define NRF_GPIOTE (&verif_regs_instance)
#define NVIC       (&verif_regs_instance)

#define __NVIC_PRIO_BITS 3

#define RTC_EVTEN_COMPARE0_Enabled 1
#define RTC_EVTEN_COMPARE0_Pos 16
#define RTC_EVTEN_COMPARE1_Enabled 1
#define RTC_EVTEN_COMPARE1_Pos 17
#define RTC_EVTEN_OVRFLW_Enabled 1
#define RTC_EVTEN_OVRFLW_Pos 1
#define CLOCK_LFCLKSRCCOPY_SRC_Synth 2
#define CLOCK_LFCLKSRCCOPY_SRC_Xtal 1
#define CLOCK_LFCLKSRCCOPY_SRC_RC 0
#define CLOCK_LFCLKSRCCOPY_SRC_Pos 0

#endif
