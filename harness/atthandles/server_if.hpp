// Shared by harness/atthandles.cpp (C04) and harness/attdisc.cpp (C02, C03): instantiates the
// generated family of REAL bluetoe::server<> types and exposes, per type, the real handle mapping
// (details::handle_index_mapping), the real attribute table (attribute_at) and l2cap_input().
#ifndef VERIF_ATT_SERVER_IF_HPP
#define VERIF_ATT_SERVER_IF_HPP

#include "common/proto.hpp"
#include <iterator>
#include <algorithm>
#include <cstring>
#include <memory>
#include <bluetoe/server.hpp>
#include <bluetoe/service.hpp>
#include <bluetoe/characteristic.hpp>
#include <bluetoe/attribute_handle.hpp>
#include <bluetoe/descriptor.hpp>
#include <bluetoe/gap_service.hpp>
#include <bluetoe/link_state.hpp>

#include "atthandles/servers_gen.hpp"

namespace verif {

struct server_if
{
    virtual ~server_if() {}
    virtual std::size_t   n_attrs() const = 0;
    virtual std::uint16_t hbi( std::size_t index ) const = 0;
    virtual std::size_t   fibh( std::uint16_t handle ) const = 0;
    virtual std::size_t   ibh( std::uint16_t handle ) const = 0;
    // uuid of attribute_at( index ) and the result of reading it at offset 0 into a large buffer
    virtual std::uint16_t attr_uuid( std::size_t index ) = 0;
    virtual int           attr_read( std::size_t index, std::vector< std::uint8_t >& value ) = 0;
#ifdef VERIF_ATT_WITH_PDU
    virtual std::vector< std::uint8_t > pdu( std::size_t mtu, const std::vector< std::uint8_t >& in ) = 0;
#endif
    virtual const char*   decl() const = 0;
};

static const std::size_t invalid_index = bluetoe::details::invalid_attribute_index;

template < class S >
struct server_impl : server_if, S
{
    using mapping = bluetoe::details::handle_index_mapping< S >;
    using con_t   = typename S::template channel_data_t< bluetoe::details::link_state >;

    explicit server_impl( const char* d ) : decl_( d ) {}

    std::size_t n_attrs() const override
    {
        return bluetoe::details::sum_by< typename S::services, bluetoe::details::sum_by_attributes >::value;
    }

    std::uint16_t hbi( std::size_t index ) const override { return mapping::handle_by_index( index ); }
    std::size_t   fibh( std::uint16_t handle ) const override { return mapping::first_index_by_handle( handle ); }
    std::size_t   ibh( std::uint16_t handle ) const override { return mapping::index_by_handle( handle ); }

    std::uint16_t attr_uuid( std::size_t index ) override { return S::attribute_at( index ).uuid; }

    int attr_read( std::size_t index, std::vector< std::uint8_t >& value ) override
    {
        con_t con;
        std::unique_ptr< std::uint8_t[] > buf( new std::uint8_t[ 600 ] );
        auto read = bluetoe::details::attribute_access_arguments::read(
            buf.get(), buf.get() + 600, 0, con.client_configurations(), con.security_attributes(), static_cast< S* >( this ) );
        const auto rc = S::attribute_at( index ).access( read, index );
        value.clear();
        if ( rc == bluetoe::details::attribute_access_result::success )
            value.assign( buf.get(), buf.get() + read.buffer_size );
        return static_cast< int >( rc );
    }

#ifdef VERIF_ATT_WITH_PDU
    std::vector< std::uint8_t > pdu( std::size_t mtu, const std::vector< std::uint8_t >& in ) override
    {
        // exactly sized heap blocks: ASan sees every access outside the PDU / the output buffer
        con_t con;
        con.client_mtu( mtu );
        std::unique_ptr< std::uint8_t[] > inb( new std::uint8_t[ in.size() ] );
        std::copy( in.begin(), in.end(), inb.get() );
        std::unique_ptr< std::uint8_t[] > outb( new std::uint8_t[ mtu ] );
        std::size_t out_size = mtu;
        this->l2cap_input( inb.get(), in.size(), outb.get(), out_size, con );
        return std::vector< std::uint8_t >( outb.get(), outb.get() + out_size );
    }
#endif

    const char* decl() const override { return decl_; }
    const char* decl_;
};

inline std::unique_ptr< server_if > make_server( unsigned long long k )
{
    switch ( k )
    {
#define VERIF_MAKE( K, TYPE, DECL ) case K: return std::unique_ptr< server_if >( new server_impl< TYPE >( DECL ) );
    VERIF_ATT_FOR_EACH_SERVER( VERIF_MAKE )
#undef VERIF_MAKE
    }
    return std::unique_ptr< server_if >();
}

inline std::string idx_str( std::size_t i )
{
    return i == invalid_index ? std::string( "inv" ) : std::to_string( i );
}

inline std::string hex16( unsigned v )
{
    char b[ 8 ];
    std::snprintf( b, sizeof b, "%04x", v & 0xffff );
    return b;
}

// "server <k> <decl tokens...>": the harness checks that the declaration value the model is given
// is the one the C++ type was generated from
inline std::string select_server( const std::vector< std::string >& w, std::unique_ptr< server_if >& s )
{
    unsigned long long k = 0;
    if ( w.size() < 2 || !parse_u64( w[ 1 ], k ) )
        return "bad-op";
    auto n = make_server( k );
    if ( !n )
        return "bad-op";
    std::string d;
    for ( std::size_t i = 2; i < w.size(); ++i )
        d += ( i == 2 ? "" : " " ) + w[ i ];
    if ( d != n->decl() )
        return "decl-mismatch";
    s = std::move( n );
    return "ok " + std::to_string( s->n_attrs() );
}

}
#endif
