// Correspondence harness for C15/C16/C17: drives the real ll_data_pdu_buffer<TX,RX,Radio> from the
// repository under test through a derived mock radio (the protected radio interface is reached
// the way the real radios reach it: by inheritance).
//
//   reset <k>                  k = 0: <61,61> default layout        1: <100,29> default layout
//                              k = 2: <100,100> default, max rx/tx size 50
//                              k = 3: <100,100> layout with the extra byte between header and body
//                                     (copy of nrf_details::encrypted_pdu_layout), max rx/tx 29
//                              k = 4: <255,255> encrypted layout, max rx/tx size 60
//                              k = 5: <520,520> default, 6: <300,780> encrypted layout, 7: <254,254> default (one PDU):
//                                     max rx/tx size 251 = payloads up to 249 bytes (data length extension)
//   tx <llid> <bodyhex>        allocate_transmit_buffer( memory size ); "full" if that fails, else
//                              fill header (LLID, length) + body, commit_transmit_buffer -> "ok"
//   free                       next_received(): "none" or the PDU (hex: 2 header bytes + body),
//                              followed by free_received()
//   stop | pending | nt | state
//   rx <fault> <pduhex>        one reception as the nRF52 ISR dispatches it: a = allocate_receive_buffer()
//                              succeeded; fault ok: a ? received() : next_transmit(); crc: next_transmit();
//                              mic: a ? ( length != 0 ? acknowledge() : received() ) : next_transmit();
//                              lost: nothing.  -> "a=<a> r=<pdu|none> rc=<rx counter calls> tc=<tx counter calls>"
//   ev <f1> <f2> <llid> <body> the same with the PDU chosen by a specification central (SN/NESN
//                              automaton of the Core spec, implemented below) that (re)transmits and,
//                              if f2 = 1 and there is an answer, receives the answer
//   cnt <n> <k>                (C16) not implemented here: see comp/lldata.py (source extraction build)
// A trailing word a=0|1 (the allocation outcome, used by the model) is accepted and ignored.
//
// Built with -DVERIF_LLDATA_NRF52 (harness key "nrf52", C16) the real translation units
// bindings/nordic/nrf52/nrf52.cpp and security_tool_box.cpp are part of this program (registers emulated by
// harness/lldata/nrf_stub/nrf.h); the mock radio forwards increment_*_packet_counter() to
// radio_hardware_with_crypto_support and every exchange (rx / ev) runs, as nrf52.hpp:radio_interrupt_handler does,
// configure_receive_train( receive buffer or the fallback buffer ) before the reception and
// configure_final_transmit( answer ) after the dispatch.  Additional ops:
//   enc setup <key32hex> <skdm16hex> <ivm8hex> <rng24hex>   setup_encryption() -> "skds=<8 bytes> ivs=<4 bytes> iv=<ccm iv>"
//   enc rx | enc rxtx | enc tx | enc off                    configure_encryption( 1,0 | 1,1 | 0,1 | 0,0 )  -> "ok"
// After the first `enc` op of a session rx / ev lines end with " rn=<nonce> tn=<nonce>": the packet counter,
// direction and IV octets of ccm_data_struct ("<ctr10hex>:<dir>:<iv16hex>") when the call started the CCM key
// stream generation (TASKS_KSGEN), "plain" otherwise, "-" if the call did not take place.
#include "common/proto.hpp"
#include <cassert>
#include <memory>
#include <set>
#include <utility>
#include <initializer_list>

#define private public
#include <bluetoe/ll_data_pdu_buffer.hpp>
#undef private

namespace ll = bluetoe::link_layer;

#ifdef VERIF_LLDATA_NRF52
extern "C" {
#include "aes.h"
}
#include "bluetoe/bindings/nordic/nrf52/security_tool_box.cpp"
#include "bluetoe/bindings/nordic/nrf52/nrf52.cpp"

NRF_RNG_Type    verif_nrf_rng;
NRF_ECB_Type    verif_nrf_ecb;
NRF_CLOCK_Type  verif_nrf_clock;
NRF_RTC_Type    verif_nrf_rtc0;
NRF_RADIO_Type  verif_nrf_radio;
NRF_TIMER_Type  verif_nrf_timer0, verif_nrf_timer1;
NRF_TEMP_Type   verif_nrf_temp;
NRF_CCM_Type    verif_nrf_ccm;
NRF_AAR_Type    verif_nrf_aar;
NRF_PPI_Type    verif_nrf_ppi;
NRF_GPIOTE_Type verif_nrf_gpiote;
NRF_GPIO_Type   verif_nrf_gpio;
NRF_FICR_Type   verif_nrf_ficr;
NVIC_Type       verif_nrf_nvic;

static std::vector< std::uint8_t > rng_script;
static std::size_t                 rng_pos = 0;

void verif_nrf::rng_task_start()
{
    if ( rng_pos == rng_script.size() )
        throw verif_rng_exhausted();

    verif_nrf_rng.VALUE         = rng_script[ rng_pos++ ];
    verif_nrf_rng.EVENTS_VALRDY = 1;
}

void verif_nrf::ecb_task_start()
{
    // nRF52 ECB data structure: KEY[16] CLEARTEXT[16] CIPHERTEXT[16]
    std::uint8_t* const p = reinterpret_cast< std::uint8_t* >( static_cast< std::uintptr_t >( verif_nrf_ecb.ECBDATAPTR ) );
    struct AES_ctx ctx;
    AES_init_ctx( &ctx, p );
    std::uint8_t block[ 16 ];
    std::memcpy( block, p + 16, 16 );
    AES_ECB_encrypt( &ctx, block );
    std::memcpy( p + 32, block, 16 );
    verif_nrf_ecb.EVENTS_ENDECB = 1;
}

namespace nrfhw {
    typedef bluetoe::nrf52_details::radio_hardware_with_crypto_support hw;

    static bool enc_seen = false;
    static std::string rn = "-", tn = "-";

    // nRF52832 product specification, CCM data structure: KEY[16] PKTCTR[8] (39 bit used) DIRECTION[1] IV[8]
    static std::string nonce()
    {
        const std::uint8_t* const d = bluetoe::nrf52_details::ccm_data_struct.data;
        // the CCM reads its configuration through CNFPTR
        if ( static_cast< std::uintptr_t >( verif_nrf_ccm.CNFPTR ) != reinterpret_cast< std::uintptr_t >( d ) )
            return "cnfptr-not-set";
        return verif::to_hex( d + 16, 5 ) + ":" + std::to_string( d[ 24 ] ) + ":" + verif::to_hex( d + 25, 8 );
    }

    static void reset()
    {
        enc_seen = false;
        rn = tn = "-";
        std::memset( &verif_nrf_ccm, 0, sizeof( verif_nrf_ccm ) );
        std::memset( &verif_nrf_radio, 0, sizeof( verif_nrf_radio ) );
        // radio_hardware_with_crypto_support::init(): CNFPTR (the remainder of init() needs the clocks)
        verif_nrf_ccm.CNFPTR = reinterpret_cast< std::uintptr_t >( &bluetoe::nrf52_details::ccm_data_struct );
        // the counters are static members: back to zero for the next session
        hw::configure_encryption( true, true );
        hw::configure_encryption( true, false );
        hw::configure_encryption( false, false );
    }

    static void before_receive( const ll::read_buffer& buf )
    {
        verif_nrf_ccm.TASKS_KSGEN = 0;
        hw::configure_receive_train( buf );
        rn = verif_nrf_ccm.TASKS_KSGEN ? nonce() : "plain";
        tn = "-";
    }

    static void before_transmit( const ll::write_buffer& buf )
    {
        verif_nrf_ccm.TASKS_KSGEN = 0;
        hw::configure_final_transmit( buf );
        tn = verif_nrf_ccm.TASKS_KSGEN ? nonce() : "plain";
    }

    static std::string suffix()
    {
        return enc_seen ? " rn=" + rn + " tn=" + tn : std::string();
    }
}
#endif

// copy of bluetoe::nrf_details::encrypted_pdu_layout (bindings/nordic/include/bluetoe/nrf.hpp needs
// the vendor's nrf.h): one unused byte between header and body
struct gap_layout : ll::details::layout_base< gap_layout >
{
    static constexpr std::size_t header_size = sizeof( std::uint16_t );
    using ll::details::layout_base< gap_layout >::header;

    static std::uint16_t header( const std::uint8_t* pdu ) { return ::bluetoe::details::read_16bit( pdu ); }
    static void header( std::uint8_t* pdu, std::uint16_t v ) { ::bluetoe::details::write_16bit( pdu, v ); }
    static std::pair< std::uint8_t*, std::uint8_t* > body( const ll::read_buffer& pdu )
    {
        return { &pdu.buffer[ header_size + 1 ], &pdu.buffer[ pdu.size ] };
    }
    static std::pair< const std::uint8_t*, const std::uint8_t* > body( const ll::write_buffer& pdu )
    {
        return { &pdu.buffer[ header_size + 1 ], &pdu.buffer[ pdu.size ] };
    }
    static constexpr std::size_t data_channel_pdu_memory_size( std::size_t payload_size )
    {
        return header_size + payload_size + 1;
    }
};

template < std::size_t TX, std::size_t RX, class Layout >
struct mock_radio;

namespace bluetoe { namespace link_layer {
    template < std::size_t TX, std::size_t RX, class Layout >
    struct pdu_layout_by_radio< mock_radio< TX, RX, Layout > > { using pdu_layout = Layout; };
} }

static bool radio_locked = false;

template < std::size_t TX, std::size_t RX, class Layout >
struct mock_radio : ll::ll_data_pdu_buffer< TX, RX, mock_radio< TX, RX, Layout > >
{
    struct lock_guard
    {
        lock_guard() { assert( !radio_locked ); radio_locked = true; }
        ~lock_guard() { radio_locked = false; }
    };

    unsigned long rc = 0, tc = 0;
#ifdef VERIF_LLDATA_NRF52
    void increment_receive_packet_counter() { ++rc; nrfhw::hw::increment_receive_packet_counter(); }
    void increment_transmit_packet_counter() { ++tc; nrfhw::hw::increment_transmit_packet_counter(); }
#else
    void increment_receive_packet_counter() { ++rc; }
    void increment_transmit_packet_counter() { ++tc; }
#endif

    // the protected radio interface, reached by inheritance as the real radios do
    typedef ll::ll_data_pdu_buffer< TX, RX, mock_radio< TX, RX, Layout > > base_t;
    ll::read_buffer  r_allocate_receive_buffer() const { return base_t::allocate_receive_buffer(); }
    ll::write_buffer r_received( ll::read_buffer b ) { return base_t::received( b ); }
    ll::write_buffer r_acknowledge( ll::read_buffer b ) { return base_t::acknowledge( b ); }
    ll::write_buffer r_next_transmit() { return base_t::next_transmit(); }
};

struct pdu_t
{
    unsigned hdr0;
    std::vector< std::uint8_t > body;
};

static std::string pdu_hex( const pdu_t& p )
{
    std::vector< std::uint8_t > all;
    all.push_back( p.hdr0 );
    all.push_back( p.body.size() );
    all.insert( all.end(), p.body.begin(), p.body.end() );
    return verif::to_hex( all );
}

struct buf_if
{
    virtual ~buf_if() {}
    virtual std::string tx( unsigned llid, const std::vector< std::uint8_t >& body ) = 0;
    virtual std::string free_rx() = 0;
    virtual void stop() = 0;
    virtual bool pending() = 0;
    virtual pdu_t nt() = 0;
    virtual std::string state() = 0;
    // returns false when the peripheral stays silent
    virtual bool rx( const std::string& fault, const pdu_t& x, bool& a, pdu_t& r ) = 0;
    virtual std::string counters() = 0;
    virtual std::size_t max_body() = 0;
    virtual std::size_t max_tx_body() = 0;
};

template < std::size_t TX, std::size_t RX, class Layout >
struct wrapper : buf_if
{
    typedef mock_radio< TX, RX, Layout > radio_t;
    // the buffer object in an exactly sized heap block (ASan sees accesses outside the object)
    std::unique_ptr< radio_t > b;

    wrapper( std::size_t max_rx, std::size_t max_tx ) : b( new radio_t )
    {
        b->reset_pdu_buffer();
        b->max_rx_size( max_rx );
        b->max_tx_size( max_tx );
    }

    std::size_t max_body() override { return b->max_rx_size() - 2; }
    std::size_t max_tx_body() override { return b->max_tx_size() - 2; }

    template < class Buffer >
    static pdu_t read_pdu( const Buffer& buf )
    {
        pdu_t r;
        const std::uint16_t header = Layout::header( buf );
        r.hdr0 = header & 0xff;
        const std::size_t len = header >> 8;
        const auto body = Layout::body( buf );
        // the returned buffer must be large enough for the length in its header
        assert( buf.size >= Layout::data_channel_pdu_memory_size( len ) );
        r.body.assign( body.first, body.first + len );
        return r;
    }

    std::string tx( unsigned llid, const std::vector< std::uint8_t >& body ) override
    {
        ll::read_buffer buf = b->allocate_transmit_buffer( Layout::data_channel_pdu_memory_size( body.size() ) );
        if ( buf.size == 0 )
            return "full";
        Layout::header( buf, llid | ( body.size() << 8 ) );
        std::copy( body.begin(), body.end(), Layout::body( buf ).first );
        b->commit_transmit_buffer( buf );
        return "ok";
    }

    std::string free_rx() override
    {
        const ll::write_buffer buf = b->next_received();
        if ( buf.size == 0 )
            return "none";
        const std::string result = pdu_hex( read_pdu( buf ) );
        b->free_received();
        return result;
    }

    void stop() override { b->stop_ll_pdu_buffer(); }
    bool pending() override { return b->pending_outgoing_data_available(); }
    pdu_t nt() override { return read_pdu( b->r_next_transmit() ); }

    std::string state() override
    {
        std::ostringstream out;
        out << "sn=" << b->sequence_number_ << " nesn=" << b->next_expected_sequence_number_
            << " ne=" << b->next_empty_ << " es=" << ( b->next_empty_ && b->empty_sequence_number_ )
            << " st=" << b->stopped_;
        return out.str();
    }

    std::string counters() override
    {
        return "rc=" + std::to_string( b->rc ) + " tc=" + std::to_string( b->tc );
    }

    // src of the dispatch: nrf52.hpp radio_interrupt_handler (evt_wait_connect), nrf52.cpp received_pdu
    bool rx( const std::string& fault, const pdu_t& x, bool& a, pdu_t& r ) override
    {
        ll::read_buffer buf = b->r_allocate_receive_buffer();
        a = buf.size != 0;

#ifdef VERIF_LLDATA_NRF52
        {
            // nrf52.hpp receive_buffer(): without a free buffer the radio receives into empty_receive_[]
            static std::uint8_t empty_receive[ 3 ];
            nrfhw::before_receive( a ? buf : ll::read_buffer{ &empty_receive[ 0 ], sizeof( empty_receive ) } );
        }
#endif

        if ( fault == "lost" )
            return false;

        if ( a )
        {
            // the radio's DMA fills the buffer whatever the checks will say
            Layout::header( buf, x.hdr0 | ( x.body.size() << 8 ) );
            std::copy( x.body.begin(), x.body.end(), Layout::body( buf ).first );
        }

        const bool valid_crc = fault != "crc";
        const bool mic_error = fault == "mic" && !x.body.empty();
        const bool valid_pdu = valid_crc && !mic_error;

        const ll::write_buffer trans = ( !a || !valid_crc )
            ? b->r_next_transmit()
            : ( valid_pdu ? b->r_received( buf ) : b->r_acknowledge( buf ) );

#ifdef VERIF_LLDATA_NRF52
        nrfhw::before_transmit( trans );
#endif
        r = read_pdu( trans );
        return true;
    }
};

static std::unique_ptr< buf_if > make( unsigned long long k )
{
    switch ( k )
    {
    case 0: return std::unique_ptr< buf_if >( new wrapper< 61, 61, ll::default_pdu_layout >( 29, 29 ) );
    case 1: return std::unique_ptr< buf_if >( new wrapper< 100, 29, ll::default_pdu_layout >( 29, 29 ) );
    case 2: return std::unique_ptr< buf_if >( new wrapper< 100, 100, ll::default_pdu_layout >( 50, 50 ) );
    case 3: return std::unique_ptr< buf_if >( new wrapper< 100, 100, gap_layout >( 29, 29 ) );
    case 4: return std::unique_ptr< buf_if >( new wrapper< 255, 255, gap_layout >( 60, 60 ) );
    // data length extension: max_rx_size / max_tx_size at the buffer's maximum (max_buffer_size = 251 incl. the
    // 2 byte header, i.e. payloads of up to 249 bytes: every value of the 8 bit length field the buffer admits)
    case 5: return std::unique_ptr< buf_if >( new wrapper< 520, 520, ll::default_pdu_layout >( 251, 251 ) );
    case 6: return std::unique_ptr< buf_if >( new wrapper< 300, 780, gap_layout >( 251, 251 ) );
    case 7: return std::unique_ptr< buf_if >( new wrapper< 254, 254, ll::default_pdu_layout >( 251, 251 ) );
    }
    return std::unique_ptr< buf_if >();
}

// Specification central: Core spec Vol 6 Part B 4.5.9 (transmitSeqNum, nextExpectedSeqNum)
struct central_t
{
    bool sn = false, nesn = false, has_inflight = false;
    pdu_t inflight;     // hdr0 holds the LLID only
    unsigned long done = 0, got = 0;

    pdu_t send( unsigned llid, const std::vector< std::uint8_t >& body )
    {
        if ( !has_inflight )
        {
            inflight.hdr0 = llid;
            inflight.body = body;
            has_inflight  = true;
        }
        pdu_t x = inflight;
        x.hdr0 |= ( sn ? 8 : 0 ) | ( nesn ? 4 : 0 );
        return x;
    }

    void receive( const pdu_t& r )
    {
        const bool r_nesn = r.hdr0 & 4, r_sn = r.hdr0 & 8;
        if ( r_nesn != sn )
        {
            sn = !sn;
            if ( has_inflight ) ++done;
            has_inflight = false;
        }
        if ( r_sn == nesn )
        {
            nesn = !nesn;
            ++got;
        }
    }
};

int main()
{
    std::unique_ptr< buf_if > buf = make( 0 );
    central_t central;

    return verif::line_loop( [&]( std::vector< std::string > w ) -> std::string {
        if ( !w.empty() && ( w.back() == "a=0" || w.back() == "a=1" ) )
            w.pop_back();
        if ( w.empty() ) return "bad-op";
        unsigned long long v = 0;
        std::vector< std::uint8_t > bytes;

        if ( w[ 0 ] == "reset" && w.size() == 2 && verif::parse_u64( w[ 1 ], v ) )
        {
            auto n = make( v );
            if ( !n ) return "bad-op";
            buf = std::move( n );
            central = central_t();
#ifdef VERIF_LLDATA_NRF52
            nrfhw::reset();
#endif
            return "ok";
        }
#ifdef VERIF_LLDATA_NRF52
        if ( w[ 0 ] == "enc" && w.size() == 2 )
        {
            if ( w[ 1 ] == "rx" )        nrfhw::hw::configure_encryption( true, false );
            else if ( w[ 1 ] == "rxtx" ) nrfhw::hw::configure_encryption( true, true );
            else if ( w[ 1 ] == "tx" )   nrfhw::hw::configure_encryption( false, true );
            else if ( w[ 1 ] == "off" )  nrfhw::hw::configure_encryption( false, false );
            else return "bad-op";
            nrfhw::enc_seen = true;
            return "ok";
        }
        if ( w[ 0 ] == "enc" && w.size() == 6 && w[ 1 ] == "setup" )
        {
            std::vector< std::uint8_t > key, skdm, ivm, rng;
            if ( !verif::parse_hex( w[ 2 ], key ) || key.size() != 16 || !verif::parse_hex( w[ 3 ], skdm ) || skdm.size() != 8
              || !verif::parse_hex( w[ 4 ], ivm ) || ivm.size() != 4 || !verif::parse_hex( w[ 5 ], rng ) || rng.size() != 12 )
                return "bad-op";
            bluetoe::details::uint128_t k;
            std::copy( key.begin(), key.end(), k.begin() );
            rng_script = rng;
            rng_pos    = 0;
            verif_nrf_rng.EVENTS_VALRDY = 0;
            const std::pair< std::uint64_t, std::uint32_t > r = nrfhw::hw::setup_encryption(
                k, bluetoe::details::read_64bit( skdm.data() ), bluetoe::details::read_32bit( ivm.data() ) );
            std::uint8_t out[ 12 ];
            bluetoe::details::write_64bit( &out[ 0 ], r.first );
            bluetoe::details::write_32bit( &out[ 8 ], r.second );
            nrfhw::enc_seen = true;
            return "skds=" + verif::to_hex( &out[ 0 ], 8 ) + " ivs=" + verif::to_hex( &out[ 8 ], 4 )
                + " iv=" + verif::to_hex( bluetoe::nrf52_details::ccm_data_struct.data + 25, 8 );
        }
#endif
        if ( w[ 0 ] == "tx" && w.size() == 3 && verif::parse_u64( w[ 1 ], v ) && v < 4 && verif::parse_hex( w[ 2 ], bytes )
            && !bytes.empty() && bytes.size() <= buf->max_tx_body() )
            return buf->tx( v, bytes );
        if ( w[ 0 ] == "free" && w.size() == 1 ) return buf->free_rx();
        if ( w[ 0 ] == "stop" && w.size() == 1 ) { buf->stop(); return "ok"; }
        if ( w[ 0 ] == "pending" && w.size() == 1 ) return buf->pending() ? "1" : "0";
        if ( w[ 0 ] == "nt" && w.size() == 1 ) { const pdu_t r = buf->nt(); return "r=" + pdu_hex( r ) + " " + buf->counters(); }
        if ( w[ 0 ] == "state" && w.size() == 1 ) return buf->state();

        const auto is_fault = []( const std::string& f ) { return f == "ok" || f == "lost" || f == "crc" || f == "mic"; };

        if ( w[ 0 ] == "rx" && w.size() == 3 && is_fault( w[ 1 ] ) && verif::parse_hex( w[ 2 ], bytes )
            && bytes.size() >= 2 && bytes[ 1 ] == bytes.size() - 2 && bytes.size() - 2 <= buf->max_body() )
        {
            pdu_t x, r;
            x.hdr0 = bytes[ 0 ];
            x.body.assign( bytes.begin() + 2, bytes.end() );
            bool a = false;
            const bool answered = buf->rx( w[ 1 ], x, a, r );
            return std::string( "a=" ) + ( a ? "1" : "0" ) + " r=" + ( answered ? pdu_hex( r ) : "none" ) + " " + buf->counters()
#ifdef VERIF_LLDATA_NRF52
                + nrfhw::suffix()
#endif
                ;
        }
        if ( w[ 0 ] == "ev" && w.size() == 5 && is_fault( w[ 1 ] ) && ( w[ 2 ] == "0" || w[ 2 ] == "1" )
            && verif::parse_u64( w[ 3 ], v ) && v < 4 && verif::parse_hex( w[ 4 ], bytes ) && bytes.size() <= buf->max_body() )
        {
            const pdu_t x = central.send( v, bytes );
            pdu_t r;
            bool a = false;
            const bool answered = buf->rx( w[ 1 ], x, a, r );
            if ( answered && w[ 2 ] == "1" )
                central.receive( r );
            return std::string( "a=" ) + ( a ? "1" : "0" ) + " c=" + pdu_hex( x ) + " r=" + ( answered ? pdu_hex( r ) : "none" )
                + " " + buf->counters() + " cs=" + ( central.sn ? "1" : "0" ) + ( central.nesn ? "1" : "0" )
                + " cd=" + std::to_string( central.done ) + " cg=" + std::to_string( central.got )
#ifdef VERIF_LLDATA_NRF52
                + nrfhw::suffix()
#endif
                ;
        }
        return "bad-op";
    } );
}
