// Correspondence harness for C31: the real bluetoe::details::l2cap<> (channel multiplexing) with the
// real bluetoe::l2cap::signaling_channel<> on CID 5 and two scriptable mock channels on CID 4 (ATT,
// channel MTU 23..65) and CID 6 (SM, 23), over a mock link layer that hands out exactly sized heap
// blocks as output buffers. Every input frame is copied into its own exactly sized heap block.
//
//   reset                 new object (signaling channel idle, identifier 1), no free output buffer
//   bufs <n>              n more output buffers available
//   mode <cid> <m>        mock channel cid (4|6) answers input: 0 nothing, 1 echo (marker byte 0xA0+cid
//                         followed by the input, clipped to out_size), 2 as many 0x55 as out_size allows
//   queue <cid> <hex>     queue an outgoing PDU on mock channel cid (handed to l2cap_output)
//   in <hex>              handle_l2cap_input( frame ):  consumed=<0|1> del=<cid>:<payload>;... tx=<frame>,... sig=<status>/<identifier>
//   out                   transmit_pending_l2cap_output():   del=- tx=... sig=...
//   cpu <a> <b> <c> <d>   connection_parameter_update_request( a, b, c, d ):  <0|1> sig=...
#include "common/proto.hpp"
#include <cassert>
#include <deque>
#include <memory>

#define private public
#include <bluetoe/l2cap_signaling_channel.hpp>
#undef private
#include <bluetoe/l2cap.hpp>

typedef std::vector< std::uint8_t > bytes;

struct world
{
    std::vector< std::pair< unsigned, bytes > > deliveries;
    std::vector< bytes >                        sent;
    std::size_t                                 bufs = 0;
    std::unique_ptr< std::uint8_t[] >           cur;
    std::size_t                                 cur_size = 0;
    bool                                        overflow = false;
    unsigned                                    mode[ 7 ] = { 0, 0, 0, 0, 1, 0, 1 };
    std::deque< bytes >                         outq[ 7 ];
};

static world* W;

struct connection_data {};

template < unsigned Cid, std::size_t MinMtu, std::size_t MaxMtu >
struct mock_channel
{
    static constexpr std::uint16_t channel_id               = Cid;
    static constexpr std::size_t   minimum_channel_mtu_size = MinMtu;
    static constexpr std::size_t   maximum_channel_mtu_size = MaxMtu;

    template < class PreviousData >
    using channel_data_t = PreviousData;

    template < typename ConnectionData >
    void l2cap_input( const std::uint8_t* input, std::size_t in_size, std::uint8_t* output, std::size_t& out_size, ConnectionData& )
    {
        W->deliveries.push_back( std::make_pair( Cid, bytes( input, input + in_size ) ) );

        switch ( W->mode[ Cid ] )
        {
        case 0:
            out_size = 0;
            break;
        case 1:
            {
                bytes r( 1, 0xA0 + Cid );
                r.insert( r.end(), input, input + in_size );
                out_size = std::min( out_size, r.size() );
                std::copy( r.begin(), r.begin() + out_size, output );
            }
            break;
        default:
            std::fill( output, output + out_size, 0x55 );
        }
    }

    template < typename ConnectionData >
    void l2cap_output( std::uint8_t* output, std::size_t& out_size, ConnectionData& )
    {
        if ( W->outq[ Cid ].empty() )
        {
            out_size = 0;
            return;
        }

        const bytes r = W->outq[ Cid ].front();
        W->outq[ Cid ].pop_front();
        out_size = std::min( out_size, r.size() );
        std::copy( r.begin(), r.begin() + out_size, output );
    }
};

// the real signaling channel; input is logged, then handled by the real code
struct signaling : bluetoe::l2cap::signaling_channel<>
{
    template < typename ConnectionData >
    void l2cap_input( const std::uint8_t* input, std::size_t in_size, std::uint8_t* output, std::size_t& out_size, ConnectionData& c )
    {
        W->deliveries.push_back( std::make_pair( 5u, bytes( input, input + in_size ) ) );
        bluetoe::l2cap::signaling_channel<>::l2cap_input( input, in_size, output, out_size, c );
    }
};

typedef mock_channel< 4, 23, 65 > att_mock;
typedef mock_channel< 6, 23, 23 > sm_mock;

struct link_layer : bluetoe::details::l2cap< link_layer, connection_data, att_mock, signaling, sm_mock >
{
    std::pair< std::size_t, std::uint8_t* > allocate_l2cap_output_buffer( std::size_t size )
    {
        if ( W->bufs == 0 )
            return std::pair< std::size_t, std::uint8_t* >( 0, nullptr );

        if ( !W->cur || W->cur_size != size + 4 )
        {
            W->cur.reset( new std::uint8_t[ size + 4 ] );
            W->cur_size = size + 4;
            std::memset( W->cur.get(), 0xEE, size + 4 );
        }

        return std::pair< std::size_t, std::uint8_t* >( size + 4, W->cur.get() );
    }

    void commit_l2cap_output_buffer( std::pair< std::size_t, std::uint8_t* > b )
    {
        if ( b.first > W->cur_size || b.second != W->cur.get() )
            W->overflow = true;

        W->sent.push_back( bytes( b.second, b.second + std::min( b.first, W->cur_size ) ) );
        if ( W->bufs ) --W->bufs;
        W->cur.reset();
        W->cur_size = 0;
    }
};

static std::string report( link_layer& ll )
{
    std::string r = " del=";
    if ( W->deliveries.empty() ) r += "-";
    for ( std::size_t i = 0; i != W->deliveries.size(); ++i )
        r += ( i ? ";" : "" ) + std::to_string( W->deliveries[ i ].first ) + ":" + verif::to_hex( W->deliveries[ i ].second );
    r += " tx=";
    if ( W->sent.empty() ) r += "-";
    for ( std::size_t i = 0; i != W->sent.size(); ++i )
        r += ( i ? "," : "" ) + verif::to_hex( W->sent[ i ] );
    if ( W->overflow ) r += " OVERFLOW";
    W->deliveries.clear();
    W->sent.clear();

    signaling& s = static_cast< signaling& >( ll );
    r += " sig=" + std::to_string( static_cast< int >( s.pending_status_ ) ) + "/" + std::to_string( s.identifier_ );
    return r;
}

int main()
{
    static_assert( link_layer::maximum_mtu_size == 65, "" );
    std::unique_ptr< world >      w( new world );
    std::unique_ptr< link_layer > ll( new link_layer );
    connection_data con;
    W = w.get();

    return verif::line_loop( [&]( const std::vector< std::string >& a ) -> std::string {
        unsigned long long v[ 4 ] = { 0, 0, 0, 0 };
        bytes data;
        if ( a.empty() ) return "bad-op";
        const std::string& op = a[ 0 ];

        if ( op == "reset" && a.size() == 1 )
        {
            w.reset( new world );
            W = w.get();
            ll.reset( new link_layer );
            return "ok";
        }
        if ( op == "bufs" && a.size() == 2 && verif::parse_u64( a[ 1 ], v[ 0 ] ) ) { W->bufs += v[ 0 ]; return "ok"; }
        if ( op == "mode" && a.size() == 3 && verif::parse_u64( a[ 1 ], v[ 0 ] ) && verif::parse_u64( a[ 2 ], v[ 1 ] ) && ( v[ 0 ] == 4 || v[ 0 ] == 6 ) && v[ 1 ] < 3 )
        {
            W->mode[ v[ 0 ] ] = v[ 1 ];
            return "ok";
        }
        if ( op == "queue" && a.size() == 3 && verif::parse_u64( a[ 1 ], v[ 0 ] ) && ( v[ 0 ] == 4 || v[ 0 ] == 6 ) && verif::parse_hex( a[ 2 ], data ) && !data.empty() )
        {
            W->outq[ v[ 0 ] ].push_back( data );
            return "ok";
        }
        if ( op == "in" && a.size() == 2 && verif::parse_hex( a[ 1 ], data ) )
        {
            // exactly sized heap copy: every over-read is seen by ASan
            std::unique_ptr< std::uint8_t[] > p( new std::uint8_t[ data.size() ? data.size() : 1 ] );
            std::copy( data.begin(), data.end(), p.get() );
            const bool consumed = ll->handle_l2cap_input( p.get(), data.size(), con );
            return std::string( "consumed=" ) + ( consumed ? "1" : "0" ) + report( *ll );
        }
        if ( op == "out" && a.size() == 1 )
        {
            ll->transmit_pending_l2cap_output( con );
            return "out" + report( *ll );
        }
        if ( op == "cpu" && a.size() == 5 && verif::parse_u64( a[ 1 ], v[ 0 ] ) && verif::parse_u64( a[ 2 ], v[ 1 ] ) && verif::parse_u64( a[ 3 ], v[ 2 ] ) && verif::parse_u64( a[ 4 ], v[ 3 ] )
            && v[ 0 ] < 65536 && v[ 1 ] < 65536 && v[ 2 ] < 65536 && v[ 3 ] < 65536 )
        {
            const bool r = static_cast< signaling& >( *ll ).connection_parameter_update_request( v[ 0 ], v[ 1 ], v[ 2 ], v[ 3 ] );
            return std::string( r ? "1" : "0" ) + report( *ll );
        }
        return "bad-op";
    } );
}
