// harness key "nrf52" of component lldata (C16): harness/lldata.cpp together with the real
// bluetoe/bindings/nordic/nrf52/nrf52.cpp and security_tool_box.cpp on emulated registers
// (harness/lldata/nrf_stub/nrf.h).  See the head of harness/lldata.cpp for the additional ops.
#define VERIF_LLDATA_NRF52
#include "../lldata.cpp"
