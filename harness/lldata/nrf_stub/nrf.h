// Emulated nRF52 register header: stands in for Nordic's <nrf.h> so that the real translation units
// bluetoe/bindings/nordic/nrf52/nrf52.cpp and security_tool_box.cpp compile and run on the host
// (verification harness harness/lldata.cpp built with -DVERIF_LLDATA_NRF52 only).
//
// Every register the binding names exists as plain memory, except (as in harness/crypto/nrf_stub):
//   NRF_RNG  TASKS_START = 1    -> next byte of a scripted stream in VALUE, EVENTS_VALRDY = 1
//   NRF_ECB  TASKS_STARTECB = 1 -> AES-128 on { key[16]; clear[16]; cipher[16] } at ECBDATAPTR
// Bit field constants that the CCM related code uses carry the values of the nRF52832 product
// specification; the others only have to be distinct enough to compile.  Pointers are stored in
// 32 bit registers: link with -no-pie so that static objects live below 4 GB.
#ifndef VERIF_LLDATA_NRF_STUB_NRF_H
#define VERIF_LLDATA_NRF_STUB_NRF_H

#include <stdint.h>

#define __NVIC_PRIO_BITS 3

static inline uint32_t __get_PRIMASK( void ) { return 0; }
static inline void     __set_PRIMASK( uint32_t ) {}
static inline void     __disable_irq( void ) {}
static inline void     __enable_irq( void ) {}
static inline void     __WFI( void ) {}

typedef enum { POWER_CLOCK_IRQn = 0, RADIO_IRQn = 1, TIMER1_IRQn = 9 } IRQn_Type;
static inline void NVIC_SetPriority( IRQn_Type, uint32_t ) {}
static inline void NVIC_ClearPendingIRQ( IRQn_Type ) {}
static inline void NVIC_EnableIRQ( IRQn_Type ) {}

struct verif_rng_exhausted {};

namespace verif_nrf {
    void rng_task_start();
    void ecb_task_start();
}

struct verif_rng_start_task { void operator=( uint32_t v ) { if ( v ) verif_nrf::rng_task_start(); } };
struct verif_ecb_start_task { void operator=( uint32_t v ) { if ( v ) verif_nrf::ecb_task_start(); } };

typedef volatile uint32_t verif_reg;

struct NRF_RNG_Type { verif_rng_start_task TASKS_START; verif_reg TASKS_STOP, EVENTS_VALRDY, VALUE, CONFIG, SHORTS; };
struct NRF_ECB_Type { verif_ecb_start_task TASKS_STARTECB; verif_reg TASKS_STOPECB, EVENTS_ENDECB, EVENTS_ERRORECB, ECBDATAPTR; };
struct NRF_CLOCK_Type { verif_reg TASKS_HFCLKSTART, TASKS_HFCLKSTOP, TASKS_LFCLKSTART, TASKS_LFCLKSTOP, TASKS_CAL, TASKS_CTSTART, TASKS_CTSTOP, EVENTS_HFCLKSTARTED, EVENTS_LFCLKSTARTED, EVENTS_DONE, EVENTS_CTTO, INTENSET, INTENCLR, HFCLKSTAT, LFCLKSTAT, LFCLKSRC, LFCLKSRCCOPY, CTIV; };
struct NRF_RTC_Type { verif_reg TASKS_START, TASKS_STOP, TASKS_CLEAR, EVENTS_COMPARE[ 4 ], EVTEN, EVTENSET, EVTENCLR, INTENSET, INTENCLR, COUNTER, PRESCALER, CC[ 4 ]; };
struct NRF_RADIO_Type { verif_reg TASKS_TXEN, TASKS_RXEN, TASKS_START, TASKS_STOP, TASKS_DISABLE, EVENTS_READY, EVENTS_ADDRESS, EVENTS_PAYLOAD, EVENTS_END, EVENTS_DISABLED, SHORTS, INTENSET, INTENCLR, CRCSTATUS, PACKETPTR, FREQUENCY, TXPOWER, MODE, PCNF0, PCNF1, BASE0, BASE1, PREFIX0, PREFIX1, TXADDRESS, RXADDRESSES, CRCCNF, CRCPOLY, CRCINIT, TIFS, STATE, DATAWHITEIV, BCC, MODECNF0, POWER, OVERRIDE0, OVERRIDE1, OVERRIDE2, OVERRIDE3, OVERRIDE4; };
struct NRF_TIMER_Type { verif_reg TASKS_START, TASKS_STOP, TASKS_CLEAR, TASKS_CAPTURE[ 6 ], EVENTS_COMPARE[ 6 ], SHORTS, INTENSET, INTENCLR, MODE, BITMODE, PRESCALER, CC[ 6 ]; };
struct NRF_TEMP_Type { verif_reg TASKS_START, TASKS_STOP, EVENTS_DATARDY, TEMP; };
struct NRF_CCM_Type { verif_reg TASKS_KSGEN, TASKS_CRYPT, TASKS_STOP, EVENTS_ENDKSGEN, EVENTS_ENDCRYPT, EVENTS_ERROR, SHORTS, INTENSET, INTENCLR, MICSTATUS, ENABLE, MODE, CNFPTR, INPTR, OUTPTR, SCRATCHPTR, MAXPACKETSIZE; };
struct NRF_AAR_Type { verif_reg TASKS_START, TASKS_STOP, EVENTS_END, EVENTS_RESOLVED, EVENTS_NOTRESOLVED, ENABLE, NIRK, IRKPTR, ADDRPTR, SCRATCHPTR; };
struct NRF_PPI_Type { verif_reg CHEN, CHENSET, CHENCLR; struct { verif_reg EEP, TEP; } CH[ 20 ]; };
struct NRF_GPIOTE_Type { verif_reg TASKS_OUT[ 8 ], TASKS_SET[ 8 ], TASKS_CLR[ 8 ], CONFIG[ 8 ]; };
struct NRF_GPIO_Type { verif_reg OUT, OUTSET, OUTCLR, PIN_CNF[ 32 ]; };
struct NRF_FICR_Type { verif_reg OVERRIDEEN, BLE_1MBIT[ 5 ], DEVICEID[ 2 ]; };
struct NVIC_Type { verif_reg dummy; };

extern NRF_RNG_Type verif_nrf_rng;
extern NRF_ECB_Type verif_nrf_ecb;
extern NRF_CLOCK_Type verif_nrf_clock;
extern NRF_RTC_Type verif_nrf_rtc0;
extern NRF_RADIO_Type verif_nrf_radio;
extern NRF_TIMER_Type verif_nrf_timer0;
extern NRF_TIMER_Type verif_nrf_timer1;
extern NRF_TEMP_Type verif_nrf_temp;
extern NRF_CCM_Type verif_nrf_ccm;
extern NRF_AAR_Type verif_nrf_aar;
extern NRF_PPI_Type verif_nrf_ppi;
extern NRF_GPIOTE_Type verif_nrf_gpiote;
extern NRF_GPIO_Type verif_nrf_gpio;
extern NRF_FICR_Type verif_nrf_ficr;
extern NVIC_Type verif_nrf_nvic;

#define NRF_RNG    ( &verif_nrf_rng )
#define NRF_ECB    ( &verif_nrf_ecb )
#define NRF_CLOCK  ( &verif_nrf_clock )
#define NRF_RTC0   ( &verif_nrf_rtc0 )
#define NRF_RADIO  ( &verif_nrf_radio )
#define NRF_TIMER0 ( &verif_nrf_timer0 )
#define NRF_TIMER1 ( &verif_nrf_timer1 )
#define NRF_TEMP   ( &verif_nrf_temp )
#define NRF_CCM    ( &verif_nrf_ccm )
#define NRF_AAR    ( &verif_nrf_aar )
#define NRF_PPI    ( &verif_nrf_ppi )
#define NRF_GPIOTE ( &verif_nrf_gpiote )
#define NRF_GPIO   ( &verif_nrf_gpio )
#define NRF_P0     ( &verif_nrf_gpio )
#define NRF_FICR   ( &verif_nrf_ficr )
#define NVIC       ( &verif_nrf_nvic )

#define AAR_ENABLE_ENABLE_Msk                    ( 3UL )
#define CCM_ENABLE_ENABLE_Disabled               ( 0UL )
#define CCM_ENABLE_ENABLE_Enabled                ( 2UL )
#define CCM_ENABLE_ENABLE_Msk                    ( 3UL )
#define CCM_MICSTATUS_MICSTATUS_CheckFailed      ( 0UL )
#define CCM_MICSTATUS_MICSTATUS_Msk              ( 1UL )
#define CCM_MODE_DATARATE_1Mbit                  ( 0UL )
#define CCM_MODE_DATARATE_2Mbit                  ( 1UL )
#define CCM_MODE_DATARATE_Pos                    ( 0x10UL )
#define CCM_MODE_LENGTH_Extended                 ( 1UL )
#define CCM_MODE_LENGTH_Pos                      ( 0x18UL )
#define CCM_MODE_MODE_Decryption                 ( 1UL )
#define CCM_MODE_MODE_Encryption                 ( 0UL )
#define CCM_MODE_MODE_Pos                        ( 0UL )
#define CCM_SHORTS_ENDKSGEN_CRYPT_Msk            ( 1UL )
#define CLOCK_HFCLKSTAT_SRC_Msk                  ( 1UL )
#define CLOCK_HFCLKSTAT_STATE_Msk                ( 0x10000UL )
#define CLOCK_INTENSET_CTTO_Msk                  ( 0x10UL )
#define CLOCK_INTENSET_DONE_Msk                  ( 8UL )
#define CLOCK_INTENSET_HFCLKSTARTED_Msk          ( 1UL )
#define CLOCK_LFCLKSRCCOPY_SRC_Pos               ( 0UL )
#define CLOCK_LFCLKSRCCOPY_SRC_RC                ( 0UL )
#define CLOCK_LFCLKSRCCOPY_SRC_Synth             ( 2UL )
#define CLOCK_LFCLKSRCCOPY_SRC_Xtal              ( 1UL )
#define CLOCK_LFCLKSTAT_SRC_Pos                  ( 0UL )
#define CLOCK_LFCLKSTAT_SRC_Xtal                 ( 1UL )
#define CLOCK_LFCLKSTAT_STATE_Pos                ( 0x10UL )
#define CLOCK_LFCLKSTAT_STATE_Running            ( 1UL )
#define FICR_OVERRIDEEN_BLE_1MBIT_Msk            ( 8UL )
#define FICR_OVERRIDEEN_BLE_1MBIT_Override       ( 0UL )
#define FICR_OVERRIDEEN_BLE_1MBIT_Pos            ( 3UL )
#define GPIOTE_CONFIG_MODE_Pos                   ( 0UL )
#define GPIOTE_CONFIG_MODE_Task                  ( 3UL )
#define GPIOTE_CONFIG_OUTINIT_Low                ( 0UL )
#define GPIOTE_CONFIG_OUTINIT_Pos                ( 0x14UL )
#define GPIOTE_CONFIG_POLARITY_Pos               ( 0x10UL )
#define GPIOTE_CONFIG_POLARITY_Toggle            ( 3UL )
#define GPIOTE_CONFIG_PSEL_Pos                   ( 8UL )
#define GPIO_PIN_CNF_DIR_Output                  ( 1UL )
#define GPIO_PIN_CNF_DIR_Pos                     ( 0UL )
#define GPIO_PIN_CNF_DRIVE_Pos                   ( 8UL )
#define GPIO_PIN_CNF_DRIVE_S0H1                  ( 2UL )
#define RADIO_CRCCNF_LEN_Pos                     ( 0UL )
#define RADIO_CRCCNF_LEN_Three                   ( 3UL )
#define RADIO_CRCCNF_SKIPADDR_Pos                ( 8UL )
#define RADIO_CRCCNF_SKIPADDR_Skip               ( 1UL )
#define RADIO_CRCSTATUS_CRCSTATUS_CRCOk          ( 1UL )
#define RADIO_CRCSTATUS_CRCSTATUS_Msk            ( 1UL )
#define RADIO_INTENCLR_DISABLED_Msk              ( 0x10UL )
#define RADIO_INTENSET_DISABLED_Msk              ( 0x10UL )
#define RADIO_MODECNF0_DTX_Center                ( 2UL )
#define RADIO_MODECNF0_DTX_Pos                   ( 8UL )
#define RADIO_MODE_MODE_Ble_1Mbit                ( 3UL )
#define RADIO_MODE_MODE_Ble_2Mbit                ( 4UL )
#define RADIO_MODE_MODE_Pos                      ( 0UL )
#define RADIO_PCNF0_LFLEN_Pos                    ( 0UL )
#define RADIO_PCNF0_PLEN_16bit                   ( 1UL )
#define RADIO_PCNF0_PLEN_8bit                    ( 0UL )
#define RADIO_PCNF0_PLEN_Msk                     ( 0x1000000UL )
#define RADIO_PCNF0_PLEN_Pos                     ( 0x18UL )
#define RADIO_PCNF0_S0LEN_Pos                    ( 8UL )
#define RADIO_PCNF0_S1INCL_Automatic             ( 0UL )
#define RADIO_PCNF0_S1INCL_Include               ( 1UL )
#define RADIO_PCNF0_S1INCL_Pos                   ( 0x14UL )
#define RADIO_PCNF0_S1LEN_Pos                    ( 0x10UL )
#define RADIO_PCNF1_BALEN_Pos                    ( 0x10UL )
#define RADIO_PCNF1_ENDIAN_Little                ( 0UL )
#define RADIO_PCNF1_ENDIAN_Pos                   ( 0x18UL )
#define RADIO_PCNF1_MAXLEN_Msk                   ( 0xffUL )
#define RADIO_PCNF1_MAXLEN_Pos                   ( 0UL )
#define RADIO_PCNF1_STATLEN_Pos                  ( 8UL )
#define RADIO_PCNF1_WHITEEN_Enabled              ( 1UL )
#define RADIO_PCNF1_WHITEEN_Pos                  ( 0x19UL )
#define RADIO_PREFIX0_AP0_Msk                    ( 0xffUL )
#define RADIO_SHORTS_ADDRESS_BCSTART_Msk         ( 0x40UL )
#define RADIO_SHORTS_DISABLED_RXEN_Msk           ( 8UL )
#define RADIO_SHORTS_DISABLED_TXEN_Msk           ( 4UL )
#define RADIO_SHORTS_END_DISABLE_Msk             ( 2UL )
#define RADIO_SHORTS_READY_START_Msk             ( 1UL )
#define RADIO_STATE_STATE_Disabled               ( 0UL )
#define RADIO_STATE_STATE_Msk                    ( 0xfUL )
#define RNG_CONFIG_DERCEN_Msk                    ( 1UL )
#define RNG_SHORTS_VALRDY_STOP_Msk               ( 1UL )
#define RTC_EVTEN_COMPARE0_Enabled               ( 1UL )
#define RTC_EVTEN_COMPARE0_Pos                   ( 0x10UL )
#define RTC_EVTEN_COMPARE1_Enabled               ( 1UL )
#define RTC_EVTEN_COMPARE1_Pos                   ( 0x11UL )
#define RTC_EVTEN_COMPARE2_Enabled               ( 1UL )
#define RTC_EVTEN_COMPARE2_Pos                   ( 0x12UL )
#define RTC_EVTEN_OVRFLW_Enabled                 ( 1UL )
#define RTC_EVTEN_OVRFLW_Pos                     ( 1UL )
#define TIMER_BITMODE_BITMODE_32Bit              ( 3UL )
#define TIMER_INTENSET_COMPARE0_Enabled          ( 1UL )
#define TIMER_INTENSET_COMPARE0_Pos              ( 0x10UL )
#define TIMER_MODE_MODE_Pos                      ( 0UL )
#define TIMER_MODE_MODE_Timer                    ( 0UL )
#define TIMER_SHORTS_COMPARE1_STOP_Enabled       ( 1UL )
#define TIMER_SHORTS_COMPARE1_STOP_Pos           ( 9UL )

#endif
