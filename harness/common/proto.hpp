// Line protocol helpers shared by all harnesses: one op per line on stdin, exactly one output
// line per op on stdout. Byte strings are lower-case hex, "-" for empty.
#ifndef VERIF_PROTO_HPP
#define VERIF_PROTO_HPP
#include <cstdint>
#include <cstdio>
#include <cstdlib>
#include <cstring>
#include <iostream>
#include <sstream>
#include <string>
#include <vector>
#include <iterator>
#include <algorithm>

namespace verif {

inline std::vector< std::string > words( const std::string& line )
{
    std::istringstream in( line );
    std::vector< std::string > result;
    for ( std::string w; in >> w; )
        result.push_back( w );
    return result;
}

inline std::string to_hex( const std::uint8_t* p, std::size_t n )
{
    if ( n == 0 )
        return "-";
    static const char* digits = "0123456789abcdef";
    std::string out;
    for ( std::size_t i = 0; i != n; ++i )
    {
        out += digits[ p[ i ] >> 4 ];
        out += digits[ p[ i ] & 15 ];
    }
    return out;
}

inline std::string to_hex( const std::vector< std::uint8_t >& v )
{
    return to_hex( v.data(), v.size() );
}

inline bool parse_hex( const std::string& s, std::vector< std::uint8_t >& out )
{
    out.clear();
    if ( s == "-" )
        return true;
    if ( s.size() % 2 )
        return false;
    for ( std::size_t i = 0; i != s.size(); i += 2 )
    {
        int v = 0;
        for ( int k = 0; k != 2; ++k )
        {
            const char c = s[ i + k ];
            v *= 16;
            if ( c >= '0' && c <= '9' ) v += c - '0';
            else if ( c >= 'a' && c <= 'f' ) v += c - 'a' + 10;
            else if ( c >= 'A' && c <= 'F' ) v += c - 'A' + 10;
            else return false;
        }
        out.push_back( static_cast< std::uint8_t >( v ) );
    }
    return true;
}

inline bool parse_u64( const std::string& s, unsigned long long& out )
{
    if ( s.empty() )
        return false;
    char* end = nullptr;
    out = std::strtoull( s.c_str(), &end, 10 );
    return *end == 0;
}

// calls step(words) for every input line and prints its result followed by '\n' (flushed, so a
// sanitizer abort leaves all earlier results readable)
template < class Step >
int line_loop( Step step )
{
    std::string line;
    while ( std::getline( std::cin, line ) )
    {
        const std::string out = step( words( line ) );
        std::fputs( out.c_str(), stdout );
        std::fputc( '\n', stdout );
        std::fflush( stdout );
    }
    return 0;
}

}
#endif
