// Correspondence harness for C32/C33/C34: drives the REAL security managers of
// bluetoe/sm/include/bluetoe/security_manager.hpp (legacy_security_manager, lesc_security_manager,
// security_manager) with security_connection_data.hpp / io_capabilities.hpp / oob_authentication.hpp.
//
// The security tool box is a mock whose functions are deterministic stand-ins ("mix", a 32 bit
// rolling hash expanded to 16 bytes); the Lean driver (lean/Driver/Sm.lean) and the Python
// monitor (comp/sm.py) implement the same stand-ins.  The tie is about protocol order, stored
// state, which values are fed into which function and which equalities are checked -- not about
// cryptographic strength (C37 covers the real tool box).
//
//   reset <legacy|lesc|both> <none|yesno|kbd|disp|dispyn|dispkbd> <bond 0|1> <fill 00|ff>
//         new security manager object, new bonding data base, new connection; the connection data
//         lives in an exactly sized heap block filled with <fill> and is then value-initialised
//         exactly like link_layer.hpp does (`connection_data_ = connection_data_t()`).
//   conn                          new connection (same manager object, same bond data base)
//   pdu <hex>                     l2cap_input  -> rsp=<hex> st=<state> disp=<n|->
//   out                           l2cap_output -> rsp=<hex> st=<state> disp=-
//   enc <0|1>                     link encryption state
//   user <sync1|sync0|async>      how the yes/no callback answers
//   answer <0|1>                  deferred yes_no_response(); only in user_response_wait[_dhkey_verified] ("illegal" otherwise)
//   kbd <n>                       value returned by the keyboard callback sm_pairing_passkey()
//   oob <0|1> <hex16>             what sm_oob_authentication_data() returns
//   findkey <ediv> <rand>         connection_data.find_key -> key=<hex|-> st=<state>
#include <iterator>
#include <algorithm>
#include <cstring>
#include <cassert>
#include <memory>
#include <new>
#include "common/proto.hpp"
#include <bluetoe/link_state.hpp>
#include <bluetoe/security_manager.hpp>
#include <bluetoe/address.hpp>

using bluetoe::link_layer::device_address;
using bluetoe::details::uint128_t;
typedef std::vector< std::uint8_t > bytes;

// ---------------------------------------------------------------------------------------------
// stand-in functions (mirrored in lean/Driver/Sm.lean and comp/sm.py)
// ---------------------------------------------------------------------------------------------
static uint128_t mix( std::uint32_t tag, const bytes& data )
{
    std::uint32_t h = tag;
    for ( std::uint8_t b : data )
        h = h * 16777619u + b + 1u;
    uint128_t out;
    for ( int i = 0; i != 16; ++i )
    {
        h = h * 1664525u + 1013904223u;
        out[ i ] = ( h >> 16 ) & 0xff;
    }
    return out;
}

template < class C >
static void app( bytes& b, const C& c ) { b.insert( b.end(), c.begin(), c.end() ); }
static void app( bytes& b, const std::uint8_t* p, std::size_t n ) { b.insert( b.end(), p, p + n ); }
static void app_addr( bytes& b, const device_address& a ) { b.insert( b.end(), a.begin(), a.end() ); b.push_back( a.is_random() ? 1 : 0 ); }
static bytes ctr4( std::uint32_t c ) { return bytes{ std::uint8_t( c ), std::uint8_t( c >> 8 ), std::uint8_t( c >> 16 ), std::uint8_t( c >> 24 ) }; }

struct toolbox
{
    std::uint32_t   ctr_ = 0;
    device_address  local_addr_;

    device_address local_address() const { return local_addr_; }
    std::uint32_t next_ctr() { return ctr_++; }

    uint128_t create_srand() { return mix( 10, ctr4( next_ctr() ) ); }

    uint128_t create_passkey()
    {
        const uint128_t m = mix( 11, ctr4( next_ctr() ) );
        const std::uint32_t v = bluetoe::details::read_32bit( m.data() ) % 1000000u;
        uint128_t r = {{ 0 }};
        bluetoe::details::write_32bit( r.data(), v );
        return r;
    }

    uint128_t c1( const uint128_t& k, const uint128_t& r, const uint128_t& p1, const uint128_t& p2 ) const
    {
        bytes b; app( b, k ); app( b, r ); app( b, p1 ); app( b, p2 );
        return mix( 1, b );
    }

    uint128_t s1( const uint128_t& k, const uint128_t& srand, const uint128_t& mrand )
    {
        bytes b; app( b, k ); app( b, srand ); app( b, mrand );
        return mix( 2, b );
    }

    bool is_valid_public_key( const std::uint8_t* pk ) const
    {
        return ( ( pk[ 0 ] ^ pk[ 63 ] ) & 0x03 ) != 0x03;
    }

    std::pair< bluetoe::details::ecdh_public_key_t, bluetoe::details::ecdh_private_key_t > generate_keys()
    {
        const bytes c = ctr4( next_ctr() );
        std::pair< bluetoe::details::ecdh_public_key_t, bluetoe::details::ecdh_private_key_t > r;
        for ( int i = 0; i != 4; ++i ) { const uint128_t m = mix( 12 + i, c ); std::copy( m.begin(), m.end(), r.first.begin() + 16 * i ); }
        for ( int i = 0; i != 2; ++i ) { const uint128_t m = mix( 16 + i, c ); std::copy( m.begin(), m.end(), r.second.begin() + 16 * i ); }
        return r;
    }

    uint128_t select_random_nonce() { return mix( 18, ctr4( next_ctr() ) ); }

    bluetoe::details::ecdh_shared_secret_t p256( const std::uint8_t* priv, const std::uint8_t* pub )
    {
        bytes b; app( b, priv, 32 ); app( b, pub, 64 );
        bluetoe::details::ecdh_shared_secret_t r;
        const uint128_t lo = mix( 8, b ), hi = mix( 9, b );
        std::copy( lo.begin(), lo.end(), r.begin() );
        std::copy( hi.begin(), hi.end(), r.begin() + 16 );
        return r;
    }

    uint128_t f4( const std::uint8_t* u, const std::uint8_t* v, const uint128_t& x, std::uint8_t z )
    {
        bytes b; app( b, u, 32 ); app( b, v, 32 ); app( b, x ); b.push_back( z );
        return mix( 3, b );
    }

    std::pair< uint128_t, uint128_t > f5( const bluetoe::details::ecdh_shared_secret_t dh, const uint128_t& n1, const uint128_t& n2,
        const device_address& a1, const device_address& a2 )
    {
        bytes b; app( b, dh ); app( b, n1 ); app( b, n2 ); app_addr( b, a1 ); app_addr( b, a2 );
        return std::make_pair( mix( 4, b ), mix( 5, b ) );
    }

    uint128_t f6( const uint128_t& k, const uint128_t& n1, const uint128_t& n2, const uint128_t& r,
        const bluetoe::details::io_capabilities_t& io, const device_address& a1, const device_address& a2 )
    {
        bytes b; app( b, k ); app( b, n1 ); app( b, n2 ); app( b, r ); app( b, io ); app_addr( b, a1 ); app_addr( b, a2 );
        return mix( 6, b );
    }

    std::uint32_t g2( const std::uint8_t* u, const std::uint8_t* v, const uint128_t& x, const uint128_t& y )
    {
        bytes b; app( b, u, 32 ); app( b, v, 32 ); app( b, x ); app( b, y );
        const uint128_t m = mix( 7, b );
        return bluetoe::details::read_32bit( m.data() );
    }
};

// ---------------------------------------------------------------------------------------------
// user side: IO callbacks, OOB callback, bonding data base (globals: the options take references)
// ---------------------------------------------------------------------------------------------
struct io_t
{
    int                                 mode = 0;       // 0 = async, 1 = sync yes, 2 = sync no
    bluetoe::pairing_yes_no_response*   pending = nullptr;
    std::uint32_t                       keyboard = 0;
    bool                                displayed = false;
    std::uint32_t                       display_value = 0;

    void sm_pairing_yes_no( bluetoe::pairing_yes_no_response& response )
    {
        if ( mode == 1 ) response.yes_no_response( true );
        else if ( mode == 2 ) response.yes_no_response( false );
        else pending = &response;
    }

    int sm_pairing_passkey() { return static_cast< int >( keyboard ); }

    void sm_pairing_numeric_output( int v ) { displayed = true; display_value = static_cast< std::uint32_t >( v ); }
} io;

struct oob_t
{
    bool        avail = false;
    uint128_t   data = {{ 0 }};

    std::pair< bool, bluetoe::oob_authentication_data_t > sm_oob_authentication_data( const device_address& )
    {
        return std::make_pair( avail, data );
    }
} oob;

struct bond_t { bluetoe::details::longterm_key_t key; bytes mac; };

struct db_t
{
    std::vector< bond_t > bonds;

    static bytes mac_of( const device_address& a ) { bytes b; app_addr( b, a ); return b; }

    template < class Radio >
    bluetoe::details::longterm_key_t create_new_bond( Radio& radio, const device_address& )
    {
        const bytes c = ctr4( radio.next_ctr() );
        bluetoe::details::longterm_key_t k;
        k.longterm_key = mix( 19, c );
        const uint128_t r = mix( 20, c );
        k.rand = bluetoe::details::read_64bit( r.data() );
        k.ediv = bluetoe::details::read_16bit( r.data() + 8 );
        return k;
    }

    template < class Connection >
    void store_bond( const bluetoe::details::longterm_key_t& key, const Connection& connection )
    {
        bonds.push_back( bond_t{ key, mac_of( connection.remote_address() ) } );
    }

    std::pair< bool, uint128_t > find_key( std::uint16_t ediv, std::uint64_t rand, const device_address& remote ) const
    {
        const bytes mac = mac_of( remote );
        for ( std::size_t i = bonds.size(); i != 0; --i )
        {
            const bond_t& b = bonds[ i - 1 ];
            if ( b.key.ediv == ediv && b.key.rand == rand && b.mac == mac )
                return std::make_pair( true, b.key.longterm_key );
        }
        return std::pair< bool, uint128_t >{};
    }

    template < class Connection >
    void restore_cccds( Connection& ) {}
} db;

// ---------------------------------------------------------------------------------------------
// type erased security manager instance
// ---------------------------------------------------------------------------------------------
// `user_response_wait_dhkey_verified` exists since fix sm-01 only; the harness has to build against
// the repository with and without that fix
template < class E >
static constexpr auto wait_verified_state( int ) -> decltype( E::user_response_wait_dhkey_verified ) { return E::user_response_wait_dhkey_verified; }
template < class E >
static constexpr E wait_verified_state( long ) { return static_cast< E >( 0xff ); }

static const char* state_name( bluetoe::details::sm_pairing_state s )
{
    using bluetoe::details::sm_pairing_state;
    if ( s == wait_verified_state< sm_pairing_state >( 0 ) )
        return "user_wait_dhkey_verified";
    switch ( s )
    {
    case sm_pairing_state::idle: return "idle";
    case sm_pairing_state::pairing_completed: return "completed";
    case sm_pairing_state::user_response_wait: return "user_wait";
    case sm_pairing_state::user_response_failed: return "user_failed";
    case sm_pairing_state::user_response_success: return "user_success";
    case sm_pairing_state::legacy_pairing_requested: return "legacy_requested";
    case sm_pairing_state::legacy_pairing_confirmed: return "legacy_confirmed";
    case sm_pairing_state::lesc_pairing_requested: return "lesc_requested";
    case sm_pairing_state::lesc_public_keys_exchanged: return "lesc_keys_exchanged";
    case sm_pairing_state::lesc_pairing_confirm_send: return "lesc_confirm_send";
    case sm_pairing_state::lesc_pairing_random_exchanged: return "lesc_random_exchanged";
    default: break;
    }
    return "invalid";
}

struct sm_if
{
    virtual ~sm_if() {}
    virtual void connect( std::uint8_t fill ) = 0;
    virtual bytes input( const bytes& in ) = 0;
    virtual bytes output() = 0;
    virtual void encrypted( bool ) = 0;
    virtual std::pair< bool, uint128_t > find_key( std::uint16_t ediv, std::uint64_t rand ) = 0;
    virtual const char* state() const = 0;
    virtual bool waiting() const = 0;
};

template < class Manager, std::size_t Mtu, typename ... Options >
struct sm_obj : Manager::template impl< sm_obj< Manager, Mtu, Options... >, Options... >, toolbox
{
};

template < class Manager, std::size_t Mtu, typename ... Options >
struct inst : sm_if
{
    typedef sm_obj< Manager, Mtu, Options... >  sm_t;
    typedef typename Manager::template impl< sm_t, Options... > impl_t;
    typedef typename impl_t::template channel_data_t< bluetoe::details::link_state > connection_data_t;

    sm_t                sm;
    unsigned char*      raw = nullptr;
    connection_data_t*  con = nullptr;

    inst()
    {
        static const std::uint8_t local[]  = { 0xb6, 0xb5, 0xb4, 0xb3, 0xb2, 0xb1 };
        sm.local_addr_ = bluetoe::link_layer::public_device_address( local );
    }

    ~inst() override { destroy(); }

    void destroy()
    {
        if ( con ) con->~connection_data_t();
        delete[] raw;
        con = nullptr; raw = nullptr;
    }

    void connect( std::uint8_t fill ) override
    {
        static const std::uint8_t remote[] = { 0xa6, 0xa5, 0xa4, 0xa3, 0xa2, 0xa1 };
        destroy();
        raw = new unsigned char[ sizeof( connection_data_t ) ];
        std::memset( raw, fill, sizeof( connection_data_t ) );
        // link_layer.hpp: connection_data_ = connection_data_t();  (value-initialisation)
        con = new ( raw ) connection_data_t();
        con->remote_connection_created( bluetoe::link_layer::random_device_address( remote ) );
        io.pending = nullptr;
    }

    bytes input( const bytes& in ) override
    {
        // exactly sized heap blocks: every out of bounds access is seen by ASan
        std::unique_ptr< std::uint8_t[] > ibuf( new std::uint8_t[ in.size() ? in.size() : 1 ] );
        std::copy( in.begin(), in.end(), ibuf.get() );
        std::unique_ptr< std::uint8_t[] > obuf( new std::uint8_t[ Mtu ] );
        std::size_t size = Mtu;
        sm.l2cap_input( ibuf.get(), in.size(), obuf.get(), size, *con );
        if ( size > Mtu ) std::abort();
        return bytes( obuf.get(), obuf.get() + size );
    }

    bytes output() override
    {
        std::unique_ptr< std::uint8_t[] > obuf( new std::uint8_t[ Mtu ] );
        std::size_t size = Mtu;
        sm.l2cap_output( obuf.get(), size, *con );
        if ( size > Mtu ) std::abort();
        return bytes( obuf.get(), obuf.get() + size );
    }

    void encrypted( bool b ) override { con->is_encrypted( b ); }

    std::pair< bool, uint128_t > find_key( std::uint16_t ediv, std::uint64_t rand ) override { return con->find_key( ediv, rand ); }

    const char* state() const override { return state_name( con->state() ); }

    bool waiting() const override
    {
        return con->state() == bluetoe::details::sm_pairing_state::user_response_wait
            || con->state() == wait_verified_state< bluetoe::details::sm_pairing_state >( 0 );
    }
};

typedef bluetoe::oob_authentication_callback< oob_t, oob >  o_oob;
typedef bluetoe::bonding_data_base< db_t, db >              o_bond;
typedef bluetoe::pairing_yes_no< io_t, io >                 o_yn;
typedef bluetoe::pairing_keyboard< io_t, io >               o_kbd;
typedef bluetoe::pairing_numeric_output< io_t, io >         o_disp;

template < class Manager, std::size_t Mtu, typename ... Base >
static sm_if* make_io( const std::string& ioc, bool all )
{
    if ( ioc == "none" )    return new inst< Manager, Mtu, Base... >;
    if ( ioc == "dispyn" )  return new inst< Manager, Mtu, Base..., o_disp, o_yn >;
    if ( !all ) return nullptr;
    if ( ioc == "yesno" )   return new inst< Manager, Mtu, Base..., o_yn >;
    if ( ioc == "disp" )    return new inst< Manager, Mtu, Base..., o_disp >;
    return nullptr;
}

// pairing_keyboard<> has no sm_pairing_request_yes_no(): lesc_handle_pairing_random does not
// compile with it, so keyboard configurations exist for the legacy manager only
template < typename ... Base >
static sm_if* make_legacy( const std::string& ioc )
{
    if ( ioc == "kbd" )     return new inst< bluetoe::legacy_security_manager, 23, Base..., o_kbd >;
    if ( ioc == "dispkbd" ) return new inst< bluetoe::legacy_security_manager, 23, Base..., o_disp, o_kbd >;
    return make_io< bluetoe::legacy_security_manager, 23, Base... >( ioc, true );
}

static sm_if* make( const std::string& variant, const std::string& ioc, bool bond )
{
    // to keep the build time down, managers without bonding data base exist for the IO
    // configurations `none` and `dispyn` only
    if ( !bond && ioc != "none" && ioc != "dispyn" )
        return nullptr;
    if ( variant == "legacy" )
        return bond ? make_legacy< o_oob, o_bond >( ioc ) : make_io< bluetoe::legacy_security_manager, 23, o_oob >( ioc, false );
    if ( variant == "lesc" )
        return bond ? make_io< bluetoe::lesc_security_manager, 65, o_oob, o_bond >( ioc, true )
                    : make_io< bluetoe::lesc_security_manager, 65, o_oob >( ioc, false );
    if ( variant == "both" )
        return bond ? make_io< bluetoe::security_manager, 65, o_oob, o_bond >( ioc, true )
                    : make_io< bluetoe::security_manager, 65, o_oob >( ioc, false );
    return nullptr;
}

int main()
{
    std::unique_ptr< sm_if > sm;
    std::uint8_t fill = 0;

    return verif::line_loop( [&]( const std::vector< std::string >& w ) -> std::string {
        if ( w.empty() ) return "bad-op";
        if ( w[ 0 ] == "reset" && w.size() == 5 )
        {
            bytes f;
            if ( !verif::parse_hex( w[ 4 ], f ) || f.size() != 1 || ( w[ 3 ] != "0" && w[ 3 ] != "1" ) ) return "bad-op";
            sm_if* n = make( w[ 1 ], w[ 2 ], w[ 3 ] == "1" );
            if ( !n ) return "bad-op";
            sm.reset( n );
            io = io_t(); oob = oob_t(); db = db_t();
            fill = f[ 0 ];
            sm->connect( fill );
            return "ok";
        }
        if ( !sm ) return "bad-op";
        const auto line = [&]( const bytes& rsp ) {
            std::string r = "rsp=" + verif::to_hex( rsp ) + " st=" + sm->state() + " disp=";
            r += io.displayed ? std::to_string( io.display_value ) : std::string( "-" );
            return r;
        };
        if ( w[ 0 ] == "conn" && w.size() == 1 ) { sm->connect( fill ); return "ok"; }
        if ( w[ 0 ] == "pdu" && w.size() == 2 )
        {
            bytes in;
            if ( !verif::parse_hex( w[ 1 ], in ) ) return "bad-op";
            io.displayed = false;
            return line( sm->input( in ) );
        }
        if ( w[ 0 ] == "out" && w.size() == 1 ) { io.displayed = false; return line( sm->output() ); }
        if ( w[ 0 ] == "enc" && w.size() == 2 && ( w[ 1 ] == "0" || w[ 1 ] == "1" ) ) { sm->encrypted( w[ 1 ] == "1" ); return "ok"; }
        if ( w[ 0 ] == "user" && w.size() == 2 )
        {
            if ( w[ 1 ] == "async" ) io.mode = 0; else if ( w[ 1 ] == "sync1" ) io.mode = 1; else if ( w[ 1 ] == "sync0" ) io.mode = 2; else return "bad-op";
            return "ok";
        }
        if ( w[ 0 ] == "answer" && w.size() == 2 && ( w[ 1 ] == "0" || w[ 1 ] == "1" ) )
        {
            // yes_no_response() asserts that the user is being asked: everything else is a contract
            // violation of the user, not an input of the security manager
            if ( !sm->waiting() || !io.pending ) return "illegal";
            io.pending->yes_no_response( w[ 1 ] == "1" );
            return std::string( "ok st=" ) + sm->state();
        }
        unsigned long long a = 0, b = 0;
        if ( w[ 0 ] == "kbd" && w.size() == 2 && verif::parse_u64( w[ 1 ], a ) && a < ( 1ull << 32 ) ) { io.keyboard = static_cast< std::uint32_t >( a ); return "ok"; }
        if ( w[ 0 ] == "oob" && w.size() == 3 && ( w[ 1 ] == "0" || w[ 1 ] == "1" ) )
        {
            bytes d;
            if ( !verif::parse_hex( w[ 2 ], d ) || d.size() != 16 ) return "bad-op";
            oob.avail = w[ 1 ] == "1";
            std::copy( d.begin(), d.end(), oob.data.begin() );
            return "ok";
        }
        if ( w[ 0 ] == "findkey" && w.size() == 3 && verif::parse_u64( w[ 1 ], a ) && verif::parse_u64( w[ 2 ], b ) && a < 65536 )
        {
            const auto k = sm->find_key( static_cast< std::uint16_t >( a ), b );
            return std::string( "key=" ) + ( k.first ? verif::to_hex( k.second.data(), 16 ) : std::string( "-" ) ) + " st=" + sm->state();
        }
        return "bad-op";
    } );
}
