// Correspondence harness for C27 / C28 / C29: drives the REAL bluetoe::link_layer::link_layer<>
// (handle_ll_control_data, link_layer_security_impl, procedure timeout bookkeeping,
// connection_callbacks event ring) on tests/test_tools/test_radio, one radio callback per op.
//
//   reset <T>                new link layer of type T and an empty key data base; starts advertising
//                            T = 0: server with a requires_encryption characteristic, radio with
//                                   encryption + 2 MBit support, key-vault security manager
//                            T = 1: server without encryption, plain test::radio (inverted PDU layout)
//   key <ediv> <rand>        adds a long term key for (EDIV, Rand) to the bond data base
//   connect <interval> <timeout>   central sends CONNECT_IND (units 1.25 ms / 10 ms); runs until accepted
//   ev [<pdu> ...]           ONE connection event: the central sends the PDUs (hex: LLID byte,
//                            then the payload; length is filled in), empty list = empty PDU
//   to                       ONE connection event without any reception (radio timeout callback)
//   adv                      ONE advertising event without response
//   api disconnect [reason] | version | param a b c d | paramll a b c d | phy t r
//
// every op prints:  tx=<pdus sent by the peripheral in this event> cb=<callbacks> st=<state>
//                   enc=<link_state.is_encrypted> rxe=<radio rx enc> txe=<radio tx enc> r=<api result>
#include "common/proto.hpp"
#include <iterator>
#include <algorithm>
#include <cstring>
#include <cassert>
#include <vector>
#include <functional>
#include <iosfwd>
#include <initializer_list>
#include <iostream>
#include <sstream>
#include <memory>
#include <set>
#include <map>
#include <tuple>
#include <utility>
#include <type_traits>
#include <atomic>
#include <array>
#include <limits>
#include <string>
#include <numeric>
#include <random>
#include <chrono>
#include <ostream>
#include <iomanip>

#define private public
#define protected public
#include <bluetoe/link_layer.hpp>
#include <bluetoe/server.hpp>
#include <bluetoe/pairing_status.hpp>
#include "tests/test_tools/test_radio.hpp"
#undef private
#undef protected

namespace {

std::vector< std::string > callbacks;
std::set< std::pair< unsigned, unsigned long long > > key_db;

std::string hex_n( unsigned long long v, int digits )
{
    std::ostringstream o;
    o << std::hex << std::setw( digits ) << std::setfill( '0' ) << v;
    return o.str();
}

struct callbacks_t
{
    template < typename ConnectionData >
    void ll_connection_requested( const bluetoe::link_layer::connection_details&, const bluetoe::link_layer::connection_addresses&, const ConnectionData& )
    {
        callbacks.push_back( "requested" );
    }

    template < typename ConnectionData >
    void ll_connection_attempt_timeout( const ConnectionData& )
    {
        callbacks.push_back( "attempt_timeout" );
    }

    template < typename ConnectionData >
    void ll_connection_established( const bluetoe::link_layer::connection_details&, const bluetoe::link_layer::connection_addresses&, const ConnectionData& )
    {
        callbacks.push_back( "established" );
    }

    template < typename ConnectionData >
    void ll_connection_changed( const bluetoe::link_layer::connection_details&, const ConnectionData& )
    {
        callbacks.push_back( "changed" );
    }

    template < typename ConnectionData >
    void ll_connection_closed( std::uint8_t reason, const ConnectionData& )
    {
        callbacks.push_back( "closed:" + hex_n( reason, 2 ) );
    }

    template < typename ConnectionData >
    void ll_version( std::uint8_t version, std::uint16_t company, std::uint16_t subversion, const ConnectionData& )
    {
        callbacks.push_back( "version:" + hex_n( version, 2 ) + hex_n( company, 4 ) + hex_n( subversion, 4 ) );
    }

    template < typename ConnectionData >
    void ll_rejected( std::uint8_t error_code, const ConnectionData& )
    {
        callbacks.push_back( "rejected:" + hex_n( error_code, 2 ) );
    }

    template < typename ConnectionData >
    void ll_unknown( std::uint8_t unknown_type, const ConnectionData& )
    {
        callbacks.push_back( "unknown:" + hex_n( unknown_type, 2 ) );
    }

    template < typename ConnectionData >
    void ll_remote_features( std::uint8_t remote_features[ 8 ], const ConnectionData& )
    {
        callbacks.push_back( "features:" + verif::to_hex( remote_features, 8 ) );
    }

    template < typename ConnectionData >
    void ll_phy_updated( bluetoe::link_layer::phy_ll_encoding::phy_ll_encoding_t t, bluetoe::link_layer::phy_ll_encoding::phy_ll_encoding_t r, const ConnectionData& )
    {
        callbacks.push_back( "phy:" + hex_n( static_cast< unsigned >( t ), 2 ) + hex_n( static_cast< unsigned >( r ), 2 ) );
    }
} callbacks_obj;

std::uint16_t secret_value = 0x4711;
std::uint16_t open_value   = 0x0815;

using secret_server = bluetoe::server<
    bluetoe::service<
        bluetoe::service_uuid< 0x8C8B4094, 0x0DE2, 0x499F, 0xA28A, 0x4EED5BC73CA9 >,
        bluetoe::characteristic<
            bluetoe::characteristic_uuid< 0x8C8B4094, 0x0DE2, 0x499F, 0xA28A, 0x4EED5BC73CAA >,
            bluetoe::bind_characteristic_value< decltype( secret_value ), &secret_value >,
            bluetoe::no_write_access
        >,
        bluetoe::requires_encryption
    >
>;

using open_server = bluetoe::server<
    bluetoe::service<
        bluetoe::service_uuid< 0x8C8B4094, 0x0DE2, 0x499F, 0xA28A, 0x4EED5BC73CA9 >,
        bluetoe::characteristic<
            bluetoe::characteristic_uuid< 0x8C8B4094, 0x0DE2, 0x499F, 0xA28A, 0x4EED5BC73CAA >,
            bluetoe::bind_characteristic_value< decltype( open_value ), &open_value >,
            bluetoe::no_write_access
        >
    >
>;

// security manager in the style of tests/link_layer/ll_encryption_tests.cpp: the bond data base
// is the set `key_db`; everything else of the link layer's security implementation is real.
struct vault_security_manager
{
    template < typename ... >
    class impl
    {
    public:
        template < class OtherConnectionData >
        class channel_data_t : public OtherConnectionData
        {
        public:
            std::pair< bool, bluetoe::details::uint128_t > find_key( std::uint16_t ediv, std::uint64_t rand ) const
            {
                bluetoe::details::uint128_t key = { { 0 } };
                const bool found = key_db.count( std::make_pair( unsigned( ediv ), static_cast< unsigned long long >( rand ) ) ) != 0;
                if ( found )
                    for ( int i = 0; i != 16; ++i )
                        key[ i ] = static_cast< std::uint8_t >( ( rand >> ( 8 * ( i % 8 ) ) ) ^ ediv ^ i );
                return std::make_pair( found, key );
            }

            void remote_connection_created( const bluetoe::link_layer::device_address& ) {}

            bluetoe::device_pairing_status local_device_pairing_status() const
            {
                return bluetoe::device_pairing_status::unauthenticated_key;
            }

            template < typename Connection >
            void restore_bonded_cccds( Connection& ) {}
        };

        template < class Connection >
        void l2cap_input( const std::uint8_t*, std::size_t, std::uint8_t*, std::size_t& out_size, Connection& ) { out_size = 0; }

        template < class Connection >
        bool security_manager_output_available( Connection& ) const { return false; }

        template < class Connection >
        void l2cap_output( std::uint8_t*, std::size_t& out_size, Connection& ) { out_size = 0; }

        static constexpr std::uint16_t channel_id               = bluetoe::l2cap_channel_ids::sm;
        static constexpr std::size_t   minimum_channel_mtu_size = bluetoe::details::default_att_mtu_size;
        static constexpr std::size_t   maximum_channel_mtu_size = bluetoe::details::default_att_mtu_size;
    };

    struct meta_type :
        bluetoe::details::security_manager_meta_type,
        bluetoe::link_layer::details::valid_link_layer_option_meta_type {};
};

// test radio with 2 MBit support and the encryption interface of test::radio_with_encryption
template < std::size_t TransmitSize, std::size_t ReceiveSize, typename CallBack >
class full_radio : public test::radio_impl< TransmitSize, ReceiveSize, CallBack, true, false >
{
public:
    static constexpr bool hardware_supports_encryption = true;

    bluetoe::details::uint128_t create_srand() { return bluetoe::details::uint128_t{ { 0 } }; }
    bluetoe::details::uint128_t c1( const bluetoe::details::uint128_t& k, const bluetoe::details::uint128_t&, const bluetoe::details::uint128_t&, const bluetoe::details::uint128_t& ) const { return k; }
    bluetoe::details::uint128_t s1( const bluetoe::details::uint128_t& k, const bluetoe::details::uint128_t&, const bluetoe::details::uint128_t& ) { return k; }

    std::pair< std::uint64_t, std::uint32_t > setup_encryption( bluetoe::details::uint128_t, std::uint64_t, std::uint32_t )
    {
        return { 0x3fac22107855aa56ul, 0x78563412 };
    }

    void start_receive_encrypted()  { this->reception_encrypted_   = true; }
    void start_transmit_encrypted() { this->transmition_encrypted_ = true; }
    void stop_receive_encrypted()   { this->reception_encrypted_   = false; }
    void stop_transmit_encrypted()  { this->transmition_encrypted_ = false; }
};

using callbacks_option = bluetoe::link_layer::connection_callbacks< callbacks_t, callbacks_obj >;
using big_buffers      = bluetoe::link_layer::buffer_sizes< 2000u, 2000u >;

using ll_secure = bluetoe::link_layer::link_layer< secret_server, full_radio, vault_security_manager, callbacks_option, big_buffers >;
using ll_plain  = bluetoe::link_layer::link_layer< open_server, test::radio, callbacks_option, big_buffers >;

struct iface
{
    virtual ~iface() {}
    virtual void start() = 0;
    virtual bool connect( unsigned interval, unsigned timeout ) = 0;
    virtual bool event( const std::vector< std::vector< std::uint8_t > >& pdus, bool timeout, std::string& tx ) = 0;
    virtual bool adv() = 0;
    virtual std::string state() const = 0;
    virtual std::string flags() const = 0;
    virtual bool api( const std::vector< std::string >& w, bool& result ) = 0;
};

template < class LL > struct enc_state
{
    static bool get( const LL& ll ) { return ll.connection_data_.is_encrypted(); }
};

template <> struct enc_state< ll_plain >
{
    static bool get( const ll_plain& ) { return false; }
};

template < class LL >
struct driver : iface
{
    // the link layer lives in an exactly sized heap block (ASan sees every out-of-bounds access)
    std::unique_ptr< LL > ll;

    driver() : ll( new LL ) {}

    void step()
    {
        if ( ll->advertising_response_ )
        {
            ll->advertising_response_ = false;
            ll->simulate_advertising_response();
        }
        else if ( ll->connection_event_response_ )
        {
            ll->connection_event_response_ = false;
            ll->simulate_connection_event_response();
        }
    }

    void start() override
    {
        // link_layer::run(): leaves state `initial`, schedules the first advertisement
        ll->end_of_simulation( bluetoe::link_layer::delta_time() );
        ll->run();
    }

    bool connect( unsigned interval, unsigned timeout ) override
    {
        if ( ll->state_ != LL::state::advertising )
            return false;

        const std::vector< std::uint8_t > pdu =
        {
            0xc5, 0x22,
            0x3c, 0x1c, 0x62, 0x92, 0xf0, 0x48,
            0x47, 0x11, 0x08, 0x15, 0x0f, 0xc0,
            0x5a, 0xb3, 0x9a, 0xaf,
            0x08, 0x81, 0xf6,
            0x03,
            0x0b, 0x00,
            static_cast< std::uint8_t >( interval & 0xff ), static_cast< std::uint8_t >( interval >> 8 ),
            0x00, 0x00,
            static_cast< std::uint8_t >( timeout & 0xff ), static_cast< std::uint8_t >( timeout >> 8 ),
            0xff, 0xff, 0xff, 0xff, 0x1f,
            0xaa
        };

        ll->responders_.clear();
        for ( unsigned channel = 37; channel != 40; ++channel )
            ll->respond_to( channel, pdu );
        // a new connection starts with SN = NESN = 0 on both sides (radio_impl::run() would do that)
        ll->central_sequence_number_    = 0;
        ll->central_ne_sequence_number_ = 0;
        step();
        ll->responders_.clear();

        return ll->state_ == LL::state::connecting;
    }

    bool adv() override
    {
        if ( ll->state_ != LL::state::advertising )
            return false;
        step();
        return true;
    }

    bool event( const std::vector< std::vector< std::uint8_t > >& pdus, bool timeout, std::string& tx ) override
    {
        if ( ll->state_ == LL::state::advertising || ll->state_ == LL::state::initial || !ll->connection_event_response_ )
            return false;

        ll->connection_events_response_.clear();
        if ( timeout )
        {
            ll->add_connection_event_respond_timeout();
        }
        else
        {
            test::pdu_list_t list;
            for ( const auto& p : pdus )
            {
                std::vector< std::uint8_t > air;
                air.push_back( p[ 0 ] & 0x03 );
                air.push_back( static_cast< std::uint8_t >( p.size() - 1 ) );
                air.insert( air.end(), p.begin() + 1, p.end() );
                list.push_back( test::pdu_t( air ) );
            }
            if ( list.empty() )
                list.push_back( test::pdu_t( { 0x01, 0x00 } ) );
            ll->add_connection_event_respond( test::connection_event_response( list ) );
        }

        const std::size_t index = ll->connection_events_.size() - 1;
        step();

        // the event that was simulated is at `index` (end_event pushed the next one behind it)
        tx.clear();
        if ( index < ll->connection_events_.size() )
        {
            for ( const auto& p : ll->connection_events_[ index ].transmitted_data )
            {
                if ( p.data.size() > 2 && p.data[ 1 ] != 0 )
                {
                    if ( !tx.empty() )
                        tx += ",";
                    std::vector< std::uint8_t > v;
                    v.push_back( p.data[ 0 ] & 0x03 );
                    v.insert( v.end(), p.data.begin() + 2, p.data.end() );
                    tx += verif::to_hex( v );
                }
            }
        }
        // keep the radio's log small
        if ( ll->connection_events_.size() > 8 )
            ll->connection_events_.erase( ll->connection_events_.begin(), ll->connection_events_.end() - 2 );
        if ( ll->advertised_data_.size() > 8 )
            ll->advertised_data_.erase( ll->advertised_data_.begin(), ll->advertised_data_.end() - 2 );

        return true;
    }

    std::string state() const override
    {
        switch ( ll->state_ )
        {
        case LL::state::initial:            return "initial";
        case LL::state::advertising:        return "advertising";
        case LL::state::connecting:         return "connecting";
        case LL::state::connected:          return "connected";
        case LL::state::disconnecting:      return "disconnecting";
        case LL::state::connection_changed: return "changed";
        }
        return "?";
    }

    std::string flags() const override
    {
        std::string r = " enc=";
        r += enc_state< LL >::get( *ll ) ? "1" : "0";
        r += " rxe=";
        r += ll->reception_encrypted_ ? "1" : "0";
        r += " txe=";
        r += ll->transmition_encrypted_ ? "1" : "0";
        return r;
    }

    bool api( const std::vector< std::string >& w, bool& result ) override
    {
        unsigned long long a[ 4 ] = { 0, 0, 0, 0 };
        for ( std::size_t i = 2; i < w.size() && i < 6; ++i )
            if ( !verif::parse_u64( w[ i ], a[ i - 2 ] ) )
                return false;

        result = true;
        if ( w[ 1 ] == "disconnect" && w.size() == 2 )
        {
            if ( ll->state_ != LL::state::connected && ll->state_ != LL::state::connecting && ll->state_ != LL::state::connection_changed )
                return false;
            ll->disconnect();
        }
        else if ( w[ 1 ] == "disconnect" && w.size() == 3 )
        {
            if ( ll->state_ != LL::state::connected && ll->state_ != LL::state::connecting && ll->state_ != LL::state::connection_changed )
                return false;
            ll->disconnect( static_cast< std::uint8_t >( a[ 0 ] ) );
        }
        else if ( w[ 1 ] == "version" && w.size() == 2 )
            result = ll->remote_versions_request();
        else if ( w[ 1 ] == "param" && w.size() == 6 )
            result = ll->connection_parameter_update_request( a[ 0 ], a[ 1 ], a[ 2 ], a[ 3 ] );
        else if ( w[ 1 ] == "paramll" && w.size() == 6 )
            result = ll->initiating_connection_parameter_request( a[ 0 ], a[ 1 ], a[ 2 ], a[ 3 ] );
        else if ( w[ 1 ] == "phy" && w.size() == 4 )
            result = ll->phy_update_request( static_cast< std::uint8_t >( a[ 0 ] ), static_cast< std::uint8_t >( a[ 1 ] ) );
        else
            return false;

        // the API functions call wake_up(); the count is of no interest here
        ll->wake_ups_ = 0;
        return true;
    }
};

std::string join_callbacks()
{
    std::string r;
    for ( const auto& c : callbacks )
    {
        if ( !r.empty() )
            r += ",";
        r += c;
    }
    callbacks.clear();
    return r.empty() ? "-" : r;
}

}

int main()
{
    std::unique_ptr< iface > ll;

    return verif::line_loop( [&]( const std::vector< std::string >& w ) -> std::string {
        if ( w.empty() )
            return "bad-op";

        std::string tx;
        std::string extra;

        if ( w[ 0 ] == "reset" && w.size() == 2 && ( w[ 1 ] == "0" || w[ 1 ] == "1" ) )
        {
            ll.reset();
            callbacks.clear();
            key_db.clear();
            if ( w[ 1 ] == "0" )
                ll.reset( new driver< ll_secure > );
            else
                ll.reset( new driver< ll_plain > );
            ll->start();
        }
        else if ( !ll )
        {
            return "bad-op";
        }
        else if ( w[ 0 ] == "key" && w.size() == 3 )
        {
            unsigned long long e = 0, r = 0;
            if ( !verif::parse_u64( w[ 1 ], e ) || !verif::parse_u64( w[ 2 ], r ) || e > 0xffff )
                return "bad-op";
            key_db.insert( std::make_pair( unsigned( e ), r ) );
        }
        else if ( w[ 0 ] == "connect" && w.size() == 3 )
        {
            unsigned long long i = 0, t = 0;
            if ( !verif::parse_u64( w[ 1 ], i ) || !verif::parse_u64( w[ 2 ], t ) || i > 0xffff || t > 0xffff )
                return "bad-op";
            extra = ll->connect( i, t ) ? " r=1" : " r=0";
        }
        else if ( w[ 0 ] == "ev" )
        {
            std::vector< std::vector< std::uint8_t > > pdus;
            for ( std::size_t i = 1; i != w.size(); ++i )
            {
                std::vector< std::uint8_t > p;
                if ( !verif::parse_hex( w[ i ], p ) || p.empty() || p.size() > 28 )
                    return "bad-op";
                pdus.push_back( p );
            }
            if ( !ll->event( pdus, false, tx ) )
                return "bad-op";
        }
        else if ( w[ 0 ] == "to" && w.size() == 1 )
        {
            if ( !ll->event( std::vector< std::vector< std::uint8_t > >(), true, tx ) )
                return "bad-op";
        }
        else if ( w[ 0 ] == "adv" && w.size() == 1 )
        {
            if ( !ll->adv() )
                return "bad-op";
        }
        else if ( w[ 0 ] == "api" && w.size() >= 2 )
        {
            bool result = false;
            if ( !ll->api( w, result ) )
                return "bad-op";
            extra = result ? " r=1" : " r=0";
        }
        else
        {
            return "bad-op";
        }

        return "tx=" + ( tx.empty() ? std::string( "-" ) : tx ) + " cb=" + join_callbacks() + " st=" + ll->state() + ll->flags() + extra;
    } );
}
