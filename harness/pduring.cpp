// Correspondence harness for C18: drives the real bluetoe::link_layer::pdu_ring_buffer<> from
// the repository under test. The ring's storage is an exactly-sized heap block, so ASan sees
// every access outside [0, Size). All positions are printed as offsets into the storage.
//
//   reset <size> <layout> <fill>   size in {29,30,58,61,100,255,300,600}; layout 0 = default_pdu_layout,
//                                  1 = test::layout_with_overhead<1>, 2 = nRF encrypted_pdu_layout,
//                                  3 = test::layout_with_overhead<3>; storage filled with byte <fill>
//                                  -> "ok"
//   alloc <n>                      alloc_front(n)            -> "<offset>" | "none" | "pre" (n < memory_size(0))
//   push <n> <hex>                 alloc_front(n); copy <hex> into the buffer; push_front
//                                  -> "<offset> <front> <end>" | "none" | "pre"
//                                  pre: n < memory_size(0), |hex| < 2, |hex| > n, length field 0,
//                                       memory_size(length field) > n   (documented preconditions)
//   peek                           next_end()                -> "<offset> <size> <hex>" | "none"
//   pop                            pop_end()                 -> "<front> <end>" | "pre" (ring empty)
//   more                           more_than_one()           -> "0" | "1"
//   mem                            -> hex dump of the whole storage
#include "common/proto.hpp"
#include <memory>
#include <cassert>
#include <utility>

#define private public
#include <bluetoe/ring_buffer.hpp>
#undef private
#include <bluetoe/default_pdu_layout.hpp>
#include <bluetoe/nrf.hpp>
#include <tests/test_tools/test_layout.hpp>

using bluetoe::link_layer::read_buffer;

struct ring_if
{
    virtual ~ring_if() {}
    virtual std::size_t size() const = 0;
    virtual std::size_t min_size() const = 0;
    virtual std::size_t mem_size( std::size_t payload ) const = 0;
    virtual long alloc( std::size_t n ) = 0;                       // offset or -1
    virtual void push( std::size_t off, std::size_t n ) = 0;
    virtual bool peek( std::size_t& off, std::size_t& n ) = 0;
    virtual void pop() = 0;
    virtual bool more() = 0;
    virtual long front() const = 0;
    virtual long end() const = 0;
    virtual std::uint8_t* mem() = 0;
};

template < std::size_t Size, class Layout >
struct ring_impl : ring_if
{
    typedef bluetoe::link_layer::pdu_ring_buffer< Size, read_buffer, Layout > ring_t;

    // exactly Size bytes on the heap: one byte outside is an ASan error
    std::unique_ptr< std::uint8_t[] > storage;
    ring_t ring;

    explicit ring_impl( std::uint8_t fill )
        : storage( prepare( fill ) )
        , ring( storage.get() )
    {
    }

    static std::uint8_t* prepare( std::uint8_t fill )
    {
        std::uint8_t* p = new std::uint8_t[ Size ];
        std::memset( p, fill, Size );
        return p;
    }

    std::size_t size() const override { return Size; }
    std::size_t min_size() const override { return Layout::data_channel_pdu_memory_size( 0 ); }
    std::size_t mem_size( std::size_t payload ) const override { return Layout::data_channel_pdu_memory_size( payload ); }

    long off( const std::uint8_t* p ) const { return p - storage.get(); }

    long alloc( std::size_t n ) override
    {
        const read_buffer b = ring.alloc_front( storage.get(), n );
        if ( b.size == 0 )
            return -1;
        assert( b.size == n );
        return off( b.buffer );
    }

    void push( std::size_t o, std::size_t n ) override
    {
        ring.push_front( storage.get(), read_buffer{ storage.get() + o, n } );
    }

    bool peek( std::size_t& o, std::size_t& n ) override
    {
        const read_buffer b = ring.next_end();
        if ( b.size == 0 )
            return false;
        o = off( b.buffer );
        n = b.size;
        return true;
    }

    void pop() override { ring.pop_end( storage.get() ); }
    bool more() override { return ring.more_than_one(); }
    long front() const override { return off( ring.front_ ); }
    long end() const override { return off( ring.end_ ); }
    std::uint8_t* mem() override { return storage.get(); }
};

template < std::size_t Size >
static ring_if* make_layout( unsigned long long layout, std::uint8_t fill )
{
    switch ( layout )
    {
    case 0: return new ring_impl< Size, bluetoe::link_layer::default_pdu_layout >( fill );
    case 1: return new ring_impl< Size, test::layout_with_overhead< 1 > >( fill );
    case 2: return new ring_impl< Size, bluetoe::nrf_details::encrypted_pdu_layout >( fill );
    case 3: return new ring_impl< Size, test::layout_with_overhead< 3 > >( fill );
    }
    return nullptr;
}

static ring_if* make( unsigned long long size, unsigned long long layout, std::uint8_t fill )
{
    switch ( size )
    {
    case 29:  return make_layout< 29 >( layout, fill );
    case 30:  return make_layout< 30 >( layout, fill );
    case 58:  return make_layout< 58 >( layout, fill );
    case 61:  return make_layout< 61 >( layout, fill );
    case 100: return make_layout< 100 >( layout, fill );
    case 255: return make_layout< 255 >( layout, fill );
    case 300: return make_layout< 300 >( layout, fill );
    case 600: return make_layout< 600 >( layout, fill );
    }
    return nullptr;
}

int main()
{
    std::unique_ptr< ring_if > ring( make( 29, 0, 0 ) );

    return verif::line_loop( [&]( const std::vector< std::string >& w ) -> std::string {
        if ( w.empty() ) return "bad-op";
        unsigned long long a = 0, b = 0, c = 0;

        if ( w[ 0 ] == "reset" && w.size() == 4 && verif::parse_u64( w[ 1 ], a ) && verif::parse_u64( w[ 2 ], b )
            && verif::parse_u64( w[ 3 ], c ) && c < 256 )
        {
            ring_if* n = make( a, b, static_cast< std::uint8_t >( c ) );
            if ( !n ) return "bad-op";
            ring.reset( n );
            return "ok";
        }

        if ( w[ 0 ] == "alloc" && w.size() == 2 && verif::parse_u64( w[ 1 ], a ) )
        {
            if ( a < ring->min_size() ) return "pre";
            const long o = ring->alloc( a );
            return o < 0 ? std::string( "none" ) : std::to_string( o );
        }

        if ( w[ 0 ] == "push" && w.size() == 3 && verif::parse_u64( w[ 1 ], a ) )
        {
            std::vector< std::uint8_t > data;
            if ( !verif::parse_hex( w[ 2 ], data ) ) return "bad-op";
            if ( a < ring->min_size() || data.size() < 2 || data.size() > a || data[ 1 ] == 0
                || ring->mem_size( data[ 1 ] ) > a )
                return "pre";
            const long o = ring->alloc( a );
            if ( o < 0 ) return "none";
            std::memcpy( ring->mem() + o, data.data(), data.size() );
            ring->push( o, a );
            return std::to_string( o ) + " " + std::to_string( ring->front() ) + " " + std::to_string( ring->end() );
        }

        if ( w[ 0 ] == "peek" && w.size() == 1 )
        {
            std::size_t o = 0, n = 0;
            if ( !ring->peek( o, n ) ) return "none";
            return std::to_string( o ) + " " + std::to_string( n ) + " " + verif::to_hex( ring->mem() + o, n );
        }

        if ( w[ 0 ] == "pop" && w.size() == 1 )
        {
            std::size_t o = 0, n = 0;
            if ( !ring->peek( o, n ) ) return "pre";
            ring->pop();
            return std::to_string( ring->front() ) + " " + std::to_string( ring->end() );
        }

        if ( w[ 0 ] == "more" && w.size() == 1 )
            return ring->more() ? "1" : "0";

        if ( w[ 0 ] == "mem" && w.size() == 1 )
            return verif::to_hex( ring->mem(), ring->size() );

        return "bad-op";
    } );
}
