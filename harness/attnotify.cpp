// Correspondence harness for C10: drives the real bluetoe::server<>::notify / indicate (by bound
// value and by characteristic UUID), the real notification queue of two connections and the real
// server::l2cap_output for a family of server types (harness/attnotify/servers.hpp).
//
//   reset <S>             select server type S, fresh server object, 2 fresh connections, all
//                         memory cells back to their initial content                        -> ok
//   decl                  the declaration of S read off the REAL types, as a `def ...` op line
//   cellsdump             the initial memory, as a `cells ...` op line
//   def ... | cells ...   model only (hand-over of declaration and memory)                  -> ok
//   table                 what the REAL templates computed: number of CCCDs, sizes of the queue's
//                         priority levels, for every position of the priority sorted list the
//                         cccd_position / value attribute index / handle, the result of the lookup
//                         by value and by UUID for every characteristic with a CCCD, the CCCD flag
//                         index of every CCCD (observed by writing the descriptor), the value
//                         attribute index of every characteristic (scan of the attribute table)
//   sub <c> <p> <v>       write of the 16 bit value v to the p-th CCCD (declaration order) through the
//                         access function of the real CCCD attribute (servers X1, C3: by an ATT Write
//                         Request through server::l2cap_input), connection c        -> ok | rc=.. | rsp=..
//   mtu <c> <m>           connection_data::client_mtu( m )                           -> negotiated MTU
//   set <cell> <hex>      server side change of a bound value                              -> ok
//   nv <c> <cell> <n|i>   server.notify( value ) / indicate( value ), the notification callback
//                         belongs to connection c                           -> 1 | 0 (newly queued)
//   nu <c> <uuid> <n|i>   server.notify< UUID >() / indicate< UUID >()                 -> 1 | 0
//   out <c> <size>        server.l2cap_output into an exactly sized heap block   -> PDU hex | -
//   conf <c>              server::handle_value_confirmation on connection c                  -> ok
#include "common/proto.hpp"
#include <memory>
#include <tuple>
#include <map>
#include <set>
#include <type_traits>
#include <cassert>
#define private public
#define protected public
#include <bluetoe/server.hpp>
#undef private
#undef protected
#include <bluetoe/link_state.hpp>
#include "attnotify/servers.hpp"

namespace {

struct cell { std::uint8_t* p; std::size_t n; std::vector< std::uint8_t > init; };
std::vector< cell >          g_cells;
std::map< const void*, int > g_cell_by_ptr;

template < class T >
void reg_cell( T& v )
{
    std::uint8_t* p = reinterpret_cast< std::uint8_t* >( &v );
    g_cell_by_ptr[ &v ] = static_cast< int >( g_cells.size() );
    g_cells.push_back( cell{ p, sizeof( T ), std::vector< std::uint8_t >( p, p + sizeof( T ) ) } );
}

void init_cells()
{
    using namespace fam;
    auto fill = []( std::uint8_t* p, std::size_t n, std::uint8_t seed ) { for ( std::size_t i = 0; i != n; ++i ) p[ i ] = seed + i; };
    fill( v3, sizeof( v3 ), 0x40 ); fill( v4, sizeof( v4 ), 0x60 ); fill( v6, sizeof( v6 ), 0xc0 ); fill( v8, sizeof( v8 ), 0x80 );
    reg_cell( v0 ); reg_cell( v1 ); reg_cell( v2 ); reg_cell( v3 ); reg_cell( v4 ); reg_cell( v5 );
    reg_cell( v6 ); reg_cell( v7 ); reg_cell( v8 ); reg_cell( v9 ); reg_cell( v10 ); reg_cell( v11 );
}

void restore_cells()
{
    for ( auto& c : g_cells )
        std::copy( c.init.begin(), c.init.end(), c.p );
}

std::string join( const std::vector< std::string >& v, const char* sep )
{
    if ( v.empty() ) return "-";
    std::string r;
    for ( std::size_t i = 0; i != v.size(); ++i )
        r += ( i ? sep : "" ) + v[ i ];
    return r;
}

std::string num( unsigned long long v ) { return std::to_string( v ); }

// identification of a UUID as a decimal number: the 16 bit value, or the full 128 bit value (the
// library's uuid<>::as_16bit() of a 128 bit UUID is just a part of it and can collide with a 16 bit UUID)
template < class U >
std::string uuid_id()
{
    if ( !U::is_128bit )
        return num( U::as_16bit() );
    std::vector< std::uint8_t > v( U::bytes + 0, U::bytes + sizeof( U::bytes ) );   // little endian
    std::string r;
    for ( bool zero = false; !zero; )
    {
        unsigned rem = 0;
        zero = true;
        for ( std::size_t i = v.size(); i != 0; --i )
        {
            const unsigned cur = rem * 256 + v[ i - 1 ];
            v[ i - 1 ] = cur / 10;
            rem        = cur % 10;
            zero       = zero && v[ i - 1 ] == 0;
        }
        r.insert( r.begin(), static_cast< char >( '0' + rem ) );
    }
    return r;
}

// the UUIDs of a higher_outgoing_priority< ... > option
template < class P > struct prio_list;
template < class ... Us >
struct prio_list< bluetoe::higher_outgoing_priority< Us... > >
{
    static std::vector< std::string > get() { return std::vector< std::string >{ uuid_id< Us >()... }; }
};

template < class T > struct int_list;
template < class T, T ... Ns >
struct int_list< std::tuple< std::integral_constant< T, Ns >... > >
{
    static std::vector< std::string > get() { return std::vector< std::string >{ num( Ns )... }; }
};

// bound variable of a characteristic value
template < class V > struct bound { static const void* ptr() { return nullptr; } static std::size_t size() { return 0; } };
template < class T, T* P >
struct bound< bluetoe::bind_characteristic_value< T, P > > { static const void* ptr() { return P; } static std::size_t size() { return sizeof( T ); } };

struct char_info
{
    std::string uuid; int cell; std::size_t size; bool readable, notify, indicate; std::size_t extra; bool cccd;
    const void* ptr;
};

// walks Server::services (declaration order, the GAP service included)
template < class Server >
struct walker
{
    std::vector< std::string >              services;
    std::vector< char_info >                chars;

    template < class C >
    void characteristic( std::vector< std::string >& out )
    {
        using vt = typename C::value_type;
        using b  = bound< typename C::base_value_type >;
        char_info i;
        i.uuid     = uuid_id< typename C::configured_uuid >();
        i.ptr      = b::ptr();
        i.cell     = i.ptr ? g_cell_by_ptr.at( i.ptr ) : 900 + static_cast< int >( chars.size() );
        i.size     = b::size();
        i.readable = vt::has_read_access;
        i.notify   = vt::has_notification;
        i.indicate = vt::has_indication;
        i.cccd     = C::number_of_client_configs != 0;
        i.extra    = C::number_of_attributes - 2 - C::number_of_client_configs;
        chars.push_back( i );
        out.push_back( i.uuid + "/" + num( i.cell ) + "/" + num( i.size ) + "/" + num( i.readable ) + "/" + num( i.notify ) + "/"
            + num( i.indicate ) + "/" + num( i.extra ) );
    }

    void chars_of( std::tuple<>*, std::vector< std::string >& ) {}
    template < class C, class ... Cs >
    void chars_of( std::tuple< C, Cs... >*, std::vector< std::string >& out )
    {
        characteristic< C >( out );
        chars_of( static_cast< std::tuple< Cs... >* >( nullptr ), out );
    }

    void run( std::tuple<>* ) {}
    template < class S, class ... Ss >
    void run( std::tuple< S, Ss... >* )
    {
        std::vector< std::string > cs;
        chars_of( static_cast< typename S::characteristics* >( nullptr ), cs );
        services.push_back( uuid_id< typename S::uuid >() + ":" + num( S::number_of_service_attributes ) + ":"
            + join( prio_list< typename S::notification_priority >::get(), "." ) + ":" + join( cs, "|" ) );
        run( static_cast< std::tuple< Ss... >* >( nullptr ) );
    }

    walker() { run( static_cast< typename Server::services* >( nullptr ) ); }
};

struct server_if
{
    virtual ~server_if() {}
    virtual std::string decl() = 0;
    virtual std::string table() = 0;
    virtual std::string sub( unsigned c, std::size_t p, unsigned v ) = 0;
    virtual std::string mtu( unsigned c, unsigned m ) = 0;
    virtual std::string by_value( unsigned c, std::size_t cell, bool indication ) = 0;
    virtual std::string by_uuid( unsigned c, const std::string& uuid, bool indication ) = 0;
    virtual std::string out( unsigned c, std::size_t size ) = 0;
    virtual std::string conf( unsigned c ) = 0;
};

template < class Server, bool ViaAtt = false >
struct wrapper : server_if
{
    using con_t    = typename Server::template channel_data_t< bluetoe::details::link_state >;
    using services = typename Server::services;
    using prio     = typename Server::notification_priority;
    static constexpr std::size_t n_cccd = Server::number_of_client_configs;

    Server   srv;
    con_t    con[ 2 ];
    unsigned cur = 0;
    walker< Server > info;

    // what the link layer's queue_lcap_notification does for its connection
    static bool callback( const bluetoe::details::notification_data& item, void* that, bluetoe::details::notification_type type )
    {
        wrapper& w = *static_cast< wrapper* >( that );
        con_t&   c = w.con[ w.cur ];
        switch ( type )
        {
        case bluetoe::details::notification_type::notification:
            return c.queue_notification( item.client_characteristic_configuration_index() );
        case bluetoe::details::notification_type::indication:
            return c.queue_indication( item.client_characteristic_configuration_index() );
        case bluetoe::details::notification_type::confirmation:
            c.indication_confirmed();
            return true;
        }
        return false;
    }

    wrapper() { srv.notification_callback( &callback, this ); }

    std::vector< std::size_t > indices_of( std::uint16_t uuid ) const
    {
        std::vector< std::size_t > r;
        for ( std::size_t i = 0; i != Server::number_of_attributes; ++i )
            if ( Server::attribute_at( i ).uuid == uuid )
                r.push_back( i );
        return r;
    }

    std::string decl() override
    {
        std::vector< std::string > handles;
        for ( std::size_t i = 0; i != Server::number_of_attributes; ++i )
            handles.push_back( num( Server::handle_mapping::handle_by_index( i ) ) );
        return "def " + num( Server::maximum_channel_mtu_size ) + " " + join( prio_list< prio >::get(), "," ) + " " + join( handles, "," )
            + " " + join( info.services, " " );
    }

    static std::string nd( const bluetoe::details::notification_data& d )
    {
        return d.valid() ? num( d.attribute_table_index() ) + ":" + num( d.client_characteristic_configuration_index() ) : "x";
    }

    // lookup by UUID for every characteristic with a CCCD: the type the real
    // find_characteristic_data_by_uuid_in_service_list<> yields, handed to the real find_notification_by_uuid<>
    void uuid_lookup( std::tuple<>*, std::vector< std::string >& ) {}
    template < class C >
    void uuid_lookup_one( std::vector< std::string >&, std::false_type ) {}
    template < class F >
    std::string uuid_lookup_found( std::false_type ) { return "x"; }     // the first characteristic with that UUID has no CCCD
    template < class F >
    std::string uuid_lookup_found( std::true_type )
    {
        return nd( bluetoe::details::find_notification_by_uuid< prio, services, typename F::characteristic_t >::data() );
    }
    template < class C >
    void uuid_lookup_one( std::vector< std::string >& out, std::true_type )
    {
        using found = typename bluetoe::details::find_characteristic_data_by_uuid_in_service_list< services, typename C::configured_uuid >::type;
        out.push_back( uuid_lookup_found< found >( std::integral_constant< bool, found::characteristic_t::number_of_client_configs != 0 >() ) );
    }
    template < class C, class ... Cs >
    void uuid_lookup( std::tuple< C, Cs... >*, std::vector< std::string >& out )
    {
        uuid_lookup_one< C >( out, std::integral_constant< bool, C::number_of_client_configs != 0 >() );
        uuid_lookup( static_cast< std::tuple< Cs... >* >( nullptr ), out );
    }
    void uuid_lookup_s( std::tuple<>*, std::vector< std::string >& ) {}
    template < class S, class ... Ss >
    void uuid_lookup_s( std::tuple< S, Ss... >*, std::vector< std::string >& out )
    {
        uuid_lookup( static_cast< typename S::characteristics* >( nullptr ), out );
        uuid_lookup_s( static_cast< std::tuple< Ss... >* >( nullptr ), out );
    }

    std::string table() override
    {
        std::vector< std::string > sorted, val, uuid, flag, layout;
        const std::vector< std::string > cccd_indices = int_list< typename Server::cccd_indices >::get();
        for ( std::size_t i = 0; i != n_cccd; ++i )
        {
            const auto d = srv.find_notification_data_by_index( i );
            sorted.push_back( cccd_indices[ i ] + ":" + num( d.attribute_table_index() ) + ":"
                + num( Server::handle_mapping::handle_by_index( d.attribute_table_index() ) ) );
        }
        for ( const auto& c : info.chars )
            if ( c.cccd )
                val.push_back( c.ptr ? nd( srv.find_notification_data( c.ptr ) ) : std::string( "x" ) );
        uuid_lookup_s( static_cast< services* >( nullptr ), uuid );
        // CCCD flag index: write 3 to the j-th CCCD of a scratch connection and look where it arrived
        const std::vector< std::size_t > cccds = indices_of( 0x2902 );
        for ( std::size_t j = 0; j != cccds.size(); ++j )
        {
            con_t scratch;
            std::uint8_t value[ 2 ] = { 3, 0 };
            auto write = bluetoe::details::attribute_access_arguments::write( &value[ 0 ], &value[ 2 ], 0, scratch.client_configurations(),
                bluetoe::connection_security_attributes(), &srv );
            const auto rc = Server::attribute_at( cccds[ j ] ).access( write, cccds[ j ] );
            std::string f = "x";
            if ( rc == bluetoe::details::attribute_access_result::success )
                for ( std::size_t i = 0; i != n_cccd; ++i )
                    if ( scratch.client_configurations().flags( i ) == 3 )
                        f = num( i );
            flag.push_back( f );
        }
        for ( std::size_t i : indices_of( 0x2803 ) )
            layout.push_back( num( i + 1 ) );
        return "n=" + num( n_cccd ) + " sizes=" + join( int_list< typename prio::template numbers< services >::type >::get(), "," )
            + " sorted=" + join( sorted, "," ) + " val=" + join( val, "," ) + " uuid=" + join( uuid, "," ) + " flag=" + join( flag, "," )
            + " layout=" + join( layout, "," );
    }

    // the CCCD write and the MTU exchange are performed below l2cap_input (whose request handling is
    // the subject of the attaccess / cccd components; instantiating it for every server of the
    // family makes the harness build several times slower): the write through the access function of
    // the real CCCD attribute, exactly as server::handle_write_request does
    std::string sub( unsigned c, std::size_t p, unsigned v ) override
    {
        const std::vector< std::size_t > cccds = indices_of( 0x2902 );
        if ( p >= cccds.size() || v > 0xffff ) return "bad-op";
        return sub_impl( c, cccds[ p ], v, std::integral_constant< bool, ViaAtt >() );
    }

    // directly through the access function of the real CCCD attribute, as server::handle_write_request does
    std::string sub_impl( unsigned c, std::size_t index, unsigned v, std::false_type )
    {
        std::uint8_t value[ 2 ] = { static_cast< std::uint8_t >( v & 0xff ), static_cast< std::uint8_t >( v >> 8 ) };
        auto write = bluetoe::details::attribute_access_arguments::write( &value[ 0 ], &value[ 2 ], 0, con[ c ].client_configurations(),
            con[ c ].security_attributes(), &srv );
        const auto rc = Server::attribute_at( index ).access( write, index );
        return rc == bluetoe::details::attribute_access_result::success ? "ok" : "rc=" + num( static_cast< unsigned >( rc ) );
    }

    // for a few servers: a real ATT Write Request to the CCCD handle through server::l2cap_input
    std::string sub_impl( unsigned c, std::size_t index, unsigned v, std::true_type )
    {
        const std::uint16_t h = Server::handle_mapping::handle_by_index( index );
        std::unique_ptr< std::uint8_t[] > ib( new std::uint8_t[ 5 ] ), ob( new std::uint8_t[ 23 ] );
        const std::uint8_t pdu[ 5 ] = { 0x12, static_cast< std::uint8_t >( h & 0xff ), static_cast< std::uint8_t >( h >> 8 ),
            static_cast< std::uint8_t >( v & 0xff ), static_cast< std::uint8_t >( v >> 8 ) };
        std::copy( pdu, pdu + 5, ib.get() );
        std::size_t out_size = 23;
        cur = c;
        srv.l2cap_input( ib.get(), 5, ob.get(), out_size, con[ c ] );
        return out_size == 1 && ob[ 0 ] == 0x13 ? "ok" : "rsp=" + verif::to_hex( ob.get(), std::min< std::size_t >( out_size, 23 ) );
    }

    std::string mtu( unsigned c, unsigned m ) override
    {
        if ( m < 23 || m > 0xffff ) return "bad-op";
        con[ c ].client_mtu( m );
        return num( con[ c ].negotiated_mtu() );
    }

    std::string by_value( unsigned c, std::size_t cell, bool indication ) override
    {
        // notify( value ) asserts that the value is bound to a characteristic with a CCCD
        bool bound_with_cccd = false;
        for ( const auto& ch : info.chars )
            bound_with_cccd = bound_with_cccd || ( ch.cccd && ch.ptr == g_cells[ cell ].p );
        if ( !bound_with_cccd ) return "bad-op";
        cur = c;
        const std::uint8_t& value = *g_cells[ cell ].p;
        return indication ? num( srv.indicate( value ) ) : num( srv.notify( value ) );
    }

    // notify< UUID >() / indicate< UUID >() only compile if the first characteristic with that UUID has the property
    template < class U > std::string call( bool indication, std::true_type, std::true_type )
    {
        return indication ? num( srv.template indicate< U >() ) : num( srv.template notify< U >() );
    }
    template < class U > std::string call( bool indication, std::true_type, std::false_type )
    {
        return indication ? std::string( "bad-op" ) : num( srv.template notify< U >() );
    }
    template < class U > std::string call( bool indication, std::false_type, std::true_type )
    {
        return indication ? num( srv.template indicate< U >() ) : std::string( "bad-op" );
    }
    template < class U > std::string call( bool, std::false_type, std::false_type ) { return "bad-op"; }

    bool uuid_call( std::tuple<>*, const std::string&, bool, std::string& ) { return false; }
    template < class C, class ... Cs >
    bool uuid_call( std::tuple< C, Cs... >*, const std::string& uuid, bool indication, std::string& result )
    {
        if ( uuid_id< typename C::configured_uuid >() == uuid )
        {
            using U     = typename C::configured_uuid;
            using found = typename bluetoe::details::find_characteristic_data_by_uuid_in_service_list< services, U >::type;
            result = call< U >( indication, std::integral_constant< bool, found::has_notification >(), std::integral_constant< bool, found::has_indication >() );
            return true;
        }
        return uuid_call( static_cast< std::tuple< Cs... >* >( nullptr ), uuid, indication, result );
    }
    bool uuid_call_s( std::tuple<>*, const std::string&, bool, std::string& ) { return false; }
    template < class S, class ... Ss >
    bool uuid_call_s( std::tuple< S, Ss... >*, const std::string& uuid, bool indication, std::string& result )
    {
        return uuid_call( static_cast< typename S::characteristics* >( nullptr ), uuid, indication, result )
            || uuid_call_s( static_cast< std::tuple< Ss... >* >( nullptr ), uuid, indication, result );
    }

    std::string by_uuid( unsigned c, const std::string& uuid, bool indication ) override
    {
        cur = c;
        std::string result = "bad-op";
        uuid_call_s( static_cast< services* >( nullptr ), uuid, indication, result );
        return result;
    }

    std::string out( unsigned c, std::size_t size ) override
    {
        if ( size > con[ c ].negotiated_mtu() ) return "bad-op";
        std::unique_ptr< std::uint8_t[] > ob( new std::uint8_t[ size ] );
        std::fill( ob.get(), ob.get() + size, 0xA5 );
        std::size_t out_size = size;
        cur = c;
        srv.l2cap_output( ob.get(), out_size, con[ c ] );
        if ( out_size > size )
            return "OVERSIZE " + num( out_size );
        return verif::to_hex( ob.get(), out_size );
    }

    std::string conf( unsigned c ) override
    {
        std::uint8_t in[ 1 ] = { 0x1e }, ob[ 23 ];
        std::size_t  out_size = 23;
        cur = c;
        srv.handle_value_confirmation( in, 1, ob, out_size, con[ c ] );
        return out_size == 0 ? "ok" : verif::to_hex( ob, out_size );
    }
};

template < class S, bool ViaAtt = false > std::unique_ptr< server_if > mk() { return std::unique_ptr< server_if >( new wrapper< S, ViaAtt > ); }

std::unique_ptr< server_if > make( const std::string& n )
{
    using namespace fam;
#define SRV( X ) if ( n == #X ) return mk< X >();
    SRV( P1 ) SRV( P2 ) SRV( P3 ) SRV( P4 ) SRV( P5 ) SRV( P6 ) SRV( P7 ) SRV( P8 )
    SRV( E1 ) SRV( E2 ) SRV( H1 ) SRV( R1 ) SRV( M1 ) SRV( D1 ) SRV( U1 )
    SRV( X2 ) SRV( X3 )
    if ( n == "X1" ) return mk< X1, true >();     // CCCD writes by ATT Write Request through l2cap_input
    if ( n == "C3" ) return mk< C3, true >();
    return std::unique_ptr< server_if >();
}

}

int main()
{
    init_cells();
    std::unique_ptr< server_if > s = make( "P1" );
    return verif::line_loop( [&]( const std::vector< std::string >& w ) -> std::string {
        unsigned long long a = 0, b = 0, c = 0;
        if ( w.empty() ) return "bad-op";
        if ( w[ 0 ] == "reset" && w.size() == 2 )
        {
            auto n = make( w[ 1 ] );
            if ( !n ) return "bad-op";
            restore_cells();
            s = std::move( n );
            return "ok";
        }
        if ( w[ 0 ] == "def" || w[ 0 ] == "cells" ) return "ok";
        if ( w[ 0 ] == "decl" && w.size() == 1 ) return s->decl();
        if ( w[ 0 ] == "cellsdump" && w.size() == 1 )
        {
            std::string r = "cells";
            for ( const auto& ce : g_cells ) r += " " + verif::to_hex( ce.init );
            return r;
        }
        if ( w[ 0 ] == "table" && w.size() == 1 ) return s->table();
        const bool kind = w.size() == 4 && ( w[ 3 ] == "n" || w[ 3 ] == "i" );
        if ( w[ 0 ] == "sub" && w.size() == 4 && verif::parse_u64( w[ 1 ], a ) && verif::parse_u64( w[ 2 ], b ) && verif::parse_u64( w[ 3 ], c ) && a < 2 )
            return s->sub( a, b, c );
        if ( w[ 0 ] == "mtu" && w.size() == 3 && verif::parse_u64( w[ 1 ], a ) && verif::parse_u64( w[ 2 ], b ) && a < 2 )
            return s->mtu( a, b );
        if ( w[ 0 ] == "set" && w.size() == 3 && verif::parse_u64( w[ 1 ], a ) && a < g_cells.size() )
        {
            std::vector< std::uint8_t > v;
            if ( !verif::parse_hex( w[ 2 ], v ) || v.size() != g_cells[ a ].n ) return "bad-op";
            std::copy( v.begin(), v.end(), g_cells[ a ].p );
            return "ok";
        }
        if ( w[ 0 ] == "nv" && kind && verif::parse_u64( w[ 1 ], a ) && verif::parse_u64( w[ 2 ], b ) && a < 2 && b < g_cells.size() )
            return s->by_value( a, b, w[ 3 ] == "i" );
        if ( w[ 0 ] == "nu" && kind && verif::parse_u64( w[ 1 ], a ) && a < 2 && w[ 2 ].find_first_not_of( "0123456789" ) == std::string::npos )
            return s->by_uuid( a, w[ 2 ], w[ 3 ] == "i" );
        if ( w[ 0 ] == "out" && w.size() == 3 && verif::parse_u64( w[ 1 ], a ) && verif::parse_u64( w[ 2 ], b ) && a < 2 && b <= 4096 )
            return s->out( a, b );
        if ( w[ 0 ] == "conf" && w.size() == 2 && verif::parse_u64( w[ 1 ], a ) && a < 2 )
            return s->conf( a );
        return "bad-op";
    } );
}
