// Server family for the attnotify component (C10). Every server is a REAL bluetoe::server<> type.
// 1..6 characteristics with a CCCD over 1..3 services, with and without
// higher_outgoing_priority<> at service and server level, notify only / indicate only / both,
// characteristics without CCCD in between, further descriptors, fixed handles, a service without
// characteristics, no_read_access, a larger MTU, one variable bound twice, one characteristic
// type used twice.  (lower_outgoing_priority<> is declared "currently not implemented" in
// outgoing_priority.hpp and does not compile as option of a service or server with a CCCD.)
#ifndef VERIF_ATTNOTIFY_SERVERS_HPP
#define VERIF_ATTNOTIFY_SERVERS_HPP

#include <bluetoe/server.hpp>
#include <bluetoe/service.hpp>
#include <bluetoe/characteristic.hpp>
#include <bluetoe/characteristic_value.hpp>
#include <bluetoe/outgoing_priority.hpp>
#include <bluetoe/attribute_handle.hpp>
#include <bluetoe/gatt_options.hpp>

namespace fam {

// memory cells (globals: ASan puts red zones around them)
std::uint8_t  v0  = 0x10;
std::uint16_t v1  = 0x2221;
std::uint32_t v2  = 0x36353433;
std::uint8_t  v3[ 20 ];
std::uint8_t  v4[ 30 ];
std::uint8_t  v5  = 0x55;
std::uint8_t  v6[ 3 ];
std::uint8_t  v7  = 0x77;
std::uint8_t  v8[ 60 ];
std::uint8_t  v9  = 0x99;
std::uint16_t v10 = 0xa2a1;
std::uint8_t  v11 = 0xbb;

static const char name_a[] = "name a";
static const char name_b[] = "b";

using bluetoe::notify;
using bluetoe::indicate;
using bluetoe::no_read_access;
using bluetoe::no_write_access;
using bluetoe::higher_outgoing_priority;

template < std::uint64_t U > using SU = bluetoe::service_uuid16< U >;
template < std::uint64_t U > using CU = bluetoe::characteristic_uuid16< U >;

#define CH( U, V, ... ) bluetoe::characteristic< CU< U >, bluetoe::bind_characteristic_value< decltype( V ), &V >, ##__VA_ARGS__ >

using bluetoe::server;
using bluetoe::service;

// one characteristic
using P1 = server< service< SU< 0x1001 >, CH( 0xA001, v0, notify ) > >;

// the example of DESIGN.md C10 / fixes/attnotify-01
using P2 = server< service< SU< 0x1001 >,
    CH( 0xA001, v0, notify ), CH( 0xA002, v1, notify ),
    higher_outgoing_priority< CU< 0xA002 > > > >;

// characteristic without CCCD in between, indicate only, both; two named characteristics
using P3 = server< service< SU< 0x1001 >,
    CH( 0xA001, v0, notify ), CH( 0xA002, v5 ), CH( 0xA003, v1, indicate ), CH( 0xA004, v2, notify, indicate ),
    higher_outgoing_priority< CU< 0xA004 >, CU< 0xA001 > > > >;

// server level priority only
using P4 = server<
    service< SU< 0x1001 >, CH( 0xA001, v0, notify ), CH( 0xA002, v1, notify, indicate ) >,
    service< SU< 0x1002 >, CH( 0xA003, v2, indicate ), CH( 0xA004, v3, notify ) >,
    higher_outgoing_priority< SU< 0x1002 > > >;

// the example of outgoing_priority.hpp (two characteristics per service)
using P5 = server<
    service< SU< 0x1001 >, CH( 0xA001, v0, notify ), CH( 0xA002, v1, notify ), higher_outgoing_priority< CU< 0xA002 > > >,
    service< SU< 0x1002 >, CH( 0xA003, v2, notify ), CH( 0xA004, v5, indicate ) >,
    service< SU< 0x1003 >, CH( 0xA005, v6, notify, indicate ), CH( 0xA006, v7, notify ), higher_outgoing_priority< CU< 0xA005 >, CU< 0xA006 > > >,
    higher_outgoing_priority< SU< 0x1001 > > >;

// no priorities, three services, descriptors behind the CCCD, characteristics without CCCD
using P6 = server<
    service< SU< 0x1001 >, CH( 0xA001, v0, notify, bluetoe::characteristic_name< name_a > ), CH( 0xA002, v5 ) >,
    service< SU< 0x1002 >, CH( 0xA003, v9 ), CH( 0xA004, v1, indicate ), CH( 0xA005, v2, notify, indicate, bluetoe::characteristic_name< name_b > ) >,
    service< SU< 0x1003 >, CH( 0xA006, v6, notify ), CH( 0xA007, v7, indicate ) > >;

// service level priorities of different length in two services (shared priorities)
using P7 = server<
    service< SU< 0x1001 >, CH( 0xA001, v0, notify ), CH( 0xA002, v1, notify ), CH( 0xA003, v2, indicate ), higher_outgoing_priority< CU< 0xA003 > > >,
    service< SU< 0x1002 >, CH( 0xA004, v5, notify ), CH( 0xA005, v6, notify, indicate ), higher_outgoing_priority< CU< 0xA005 >, CU< 0xA004 > > > >;

// two services named at server level (in reverse order), one not named
using P8 = server<
    service< SU< 0x1001 >, CH( 0xA001, v0, notify ), CH( 0xA002, v1, indicate ) >,
    service< SU< 0x1002 >, CH( 0xA003, v2, notify, indicate ), CH( 0xA004, v9 ), higher_outgoing_priority< CU< 0xA003 > > >,
    service< SU< 0x1003 >, CH( 0xA005, v5, notify ) >,
    higher_outgoing_priority< SU< 0x1002 >, SU< 0x1001 > > >;

// a service without characteristics in front (fixes/attnotify-02)
using E1 = server<
    service< SU< 0x1000 > >,
    service< SU< 0x1001 >, CH( 0xA001, v0, notify ), CH( 0xA002, v1, notify, indicate ), higher_outgoing_priority< CU< 0xA002 > > > >;

// ... and in the middle, two of them
using E2 = server<
    service< SU< 0x1001 >, CH( 0xA001, v0, notify ) >,
    service< SU< 0x1000 > >,
    service< SU< 0x1004 > >,
    service< SU< 0x1002 >, CH( 0xA002, v5 ), CH( 0xA003, v1, indicate ) >,
    higher_outgoing_priority< SU< 0x1002 > > >;

// fixed handles
using H1 = server<
    service< SU< 0x1001 >, bluetoe::attribute_handle< 0x0010 >,
        CH( 0xA001, v0, notify, bluetoe::attribute_handles< 0x0020, 0x0022, 0x0025 > ),
        CH( 0xA002, v1, notify, indicate ),
        higher_outgoing_priority< CU< 0xA002 > > >,
    service< SU< 0x1002 >, CH( 0xA003, v2, indicate, bluetoe::attribute_handle< 0x0100 > ) > >;

// no_read_access + notify on a bound value
using R1 = server< service< SU< 0x1001 >,
    CH( 0xA001, v0, notify, no_read_access ), CH( 0xA002, v1, notify, indicate ),
    CH( 0xA003, v2, indicate, no_read_access, no_write_access ) > >;

// larger MTU, values larger than the default and the maximum MTU
using M1 = server< bluetoe::max_mtu_size< 65 >,
    service< SU< 0x1001 >, CH( 0xA001, v4, notify ), CH( 0xA002, v8, notify, indicate ), CH( 0xA003, v3, indicate ),
    higher_outgoing_priority< CU< 0xA003 >, CU< 0xA002 > > > >;

// one variable bound by two characteristics (lookup by value: the last one in priority order)
using D1 = server< service< SU< 0x1001 >,
    CH( 0xA001, v0, notify ), CH( 0xA002, v0, notify, indicate ), CH( 0xA003, v1, notify ),
    higher_outgoing_priority< CU< 0xA003 >, CU< 0xA001 > > > >;

// the very same characteristic type in two services (lookup by UUID: the first in priority order)
using U1 = server<
    service< SU< 0x1001 >, CH( 0xA001, v0, notify ), CH( 0xA002, v1, notify ) >,
    service< SU< 0x1002 >, CH( 0xA001, v0, notify ), CH( 0xA003, v2, indicate ) >,
    higher_outgoing_priority< SU< 0x1002 > > >;

// ---- characteristics that share a UUID (the UUID alone does not name a characteristic) ----
template < std::uint64_t A > using CU128 = bluetoe::characteristic_uuid< A, 0x1111, 0x2222, 0x3333, 0x444444444444 >;
#define CH128( A, V, ... ) bluetoe::characteristic< CU128< A >, bluetoe::bind_characteristic_value< decltype( V ), &V >, ##__VA_ARGS__ >

// the same 16 bit characteristic UUID in two services, the second service has the higher priority:
// notify< 0xA001 >() is the FIRST characteristic with that UUID in declaration order (v0)
using X1 = server<
    service< SU< 0x1001 >, CH( 0xA001, v0, notify ), CH( 0xA002, v1, notify ) >,
    service< SU< 0x1002 >, CH( 0xA001, v5, notify, indicate ), CH( 0xA003, v2, indicate ) >,
    higher_outgoing_priority< SU< 0x1002 > > >;

// shared UUIDs without any priority (also twice in one service, and a third time in the second service)
using X2 = server<
    service< SU< 0x1001 >, CH( 0xA001, v0, notify ), CH( 0xA001, v1, notify, indicate ), CH( 0xA002, v2, indicate ) >,
    service< SU< 0x1002 >, CH( 0xA002, v5, notify ), CH( 0xA001, v6, notify ) > >;

// a shared 128 bit UUID, reordered by a service level and a server level priority; the 128 bit UUID's
// as_16bit() equals the 16 bit UUID 0xA001 of another characteristic; the first characteristic with
// UUID 0xA002 has no CCCD (notify< 0xA002 >() does not compile although a later one could be notified)
using X3 = server<
    service< SU< 0x1001 >, CH128( 0x0000A001, v0, notify ), CH( 0xA001, v1, notify ), CH( 0xA002, v9 ),
        higher_outgoing_priority< CU< 0xA001 > > >,
    service< SU< 0x1002 >, CH128( 0x0000A001, v6, notify, indicate ), CH( 0xA002, v7, notify ) >,
    higher_outgoing_priority< SU< 0x1002 > > >;

// three characteristics reordered cyclically ( c, a, b ): the permutation differs from its inverse
using C3 = server< service< SU< 0x1001 >,
    CH( 0xA001, v0, notify ), CH( 0xA002, v1, notify, indicate ), CH( 0xA003, v2, notify ),
    higher_outgoing_priority< CU< 0xA003 > > > >;

}
#endif
