// Emulated nRF52 register header for building bluetoe/bindings/nordic/nrf52/security_tool_box.cpp
// on the host (verification harness only; stands in for Nordic's <nrf.h>).
//
// Only the peripherals named by bluetoe/bindings/nordic/include/bluetoe/nrf.hpp exist. Two of
// them have behaviour:
//   NRF_RNG  TASKS_START = 1   -> next byte of a scripted byte stream appears in VALUE and
//                                 EVENTS_VALRDY becomes 1; when the script is exhausted a
//                                 verif_rng_exhausted exception leaves the (otherwise endless)
//                                 polling loop of the code under test
//   NRF_ECB  TASKS_STARTECB = 1 -> AES-128 ECB encryption of the block structure at ECBDATAPTR
//                                 { key[16]; cleartext[16]; ciphertext[16] } (nRF52 product
//                                 specification, "ECB data structure"), EVENTS_ENDECB becomes 1
// Everything else is plain memory.
#ifndef VERIF_NRF_STUB_NRF_H
#define VERIF_NRF_STUB_NRF_H

#include <stdint.h>

#define __NVIC_PRIO_BITS 3

struct verif_rng_exhausted {};

namespace verif_nrf {
    void rng_task_start();
    void ecb_task_start();
}

struct verif_rng_start_task {
    void operator=( uint32_t v ) { if ( v ) verif_nrf::rng_task_start(); }
};

struct verif_ecb_start_task {
    void operator=( uint32_t v ) { if ( v ) verif_nrf::ecb_task_start(); }
};

struct NRF_RNG_Type {
    verif_rng_start_task TASKS_START;
    volatile uint32_t    TASKS_STOP;
    volatile uint32_t    EVENTS_VALRDY;
    volatile uint32_t    VALUE;
};

struct NRF_ECB_Type {
    verif_ecb_start_task TASKS_STARTECB;
    volatile uint32_t    TASKS_STOPECB;
    volatile uint32_t    EVENTS_ENDECB;
    volatile uint32_t    EVENTS_ERRORECB;
    volatile uint32_t    ECBDATAPTR;
};

struct NRF_CLOCK_Type {
    volatile uint32_t TASKS_HFCLKSTART, TASKS_HFCLKSTOP, TASKS_LFCLKSTART, TASKS_LFCLKSTOP;
    volatile uint32_t EVENTS_HFCLKSTARTED, EVENTS_LFCLKSTARTED;
    volatile uint32_t LFCLKSRC;
};

struct NRF_RTC_Type {
    volatile uint32_t TASKS_START, TASKS_STOP, EVTEN;
};

struct NRF_RADIO_Type  { volatile uint32_t dummy; };
struct NRF_TIMER_Type  { volatile uint32_t dummy; };
struct NRF_TEMP_Type   { volatile uint32_t dummy; };
struct NRF_CCM_Type    { volatile uint32_t dummy; };
struct NRF_AAR_Type    { volatile uint32_t dummy; };
struct NRF_PPI_Type    { volatile uint32_t dummy; };
struct NRF_GPIOTE_Type { volatile uint32_t dummy; };
struct NVIC_Type       { volatile uint32_t dummy; };

extern NRF_RNG_Type    verif_nrf_rng;
extern NRF_ECB_Type    verif_nrf_ecb;
extern NRF_CLOCK_Type  verif_nrf_clock;
extern NRF_RTC_Type    verif_nrf_rtc0;
extern NRF_RADIO_Type  verif_nrf_radio;
extern NRF_TIMER_Type  verif_nrf_timer0, verif_nrf_timer1;
extern NRF_TEMP_Type   verif_nrf_temp;
extern NRF_CCM_Type    verif_nrf_ccm;
extern NRF_AAR_Type    verif_nrf_aar;
extern NRF_PPI_Type    verif_nrf_ppi;
extern NRF_GPIOTE_Type verif_nrf_gpiote;
extern NVIC_Type       verif_nrf_nvic;

#define NRF_RNG    ( &verif_nrf_rng )
#define NRF_ECB    ( &verif_nrf_ecb )
#define NRF_CLOCK  ( &verif_nrf_clock )
#define NRF_RTC0   ( &verif_nrf_rtc0 )
#define NRF_RADIO  ( &verif_nrf_radio )
#define NRF_TIMER0 ( &verif_nrf_timer0 )
#define NRF_TIMER1 ( &verif_nrf_timer1 )
#define NRF_TEMP   ( &verif_nrf_temp )
#define NRF_CCM    ( &verif_nrf_ccm )
#define NRF_AAR    ( &verif_nrf_aar )
#define NRF_PPI    ( &verif_nrf_ppi )
#define NRF_GPIOTE ( &verif_nrf_gpiote )
#define NVIC       ( &verif_nrf_nvic )

#define CLOCK_LFCLKSRCCOPY_SRC_Pos   0
#define CLOCK_LFCLKSRCCOPY_SRC_RC    0
#define CLOCK_LFCLKSRCCOPY_SRC_Xtal  1
#define CLOCK_LFCLKSRCCOPY_SRC_Synth 2
#define RTC_EVTEN_COMPARE0_Pos       16
#define RTC_EVTEN_COMPARE0_Enabled   1
#define RTC_EVTEN_COMPARE1_Pos       17
#define RTC_EVTEN_COMPARE1_Enabled   1
#define RTC_EVTEN_OVRFLW_Pos         1
#define RTC_EVTEN_OVRFLW_Enabled     1

#endif
