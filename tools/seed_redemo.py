#!/usr/bin/env python3
"""re-runs only the demo step for /tmp/seedres results whose patched demo returned 0 (free-form demo.txt)"""
import json, glob, os, subprocess, sys, importlib.util
spec = importlib.util.spec_from_file_location("sp", os.path.join(os.path.dirname(os.path.abspath(__file__)), "seed_pipeline.py"))
src = open(spec.origin).read()
ns = {}
exec(src[src.index("def sh("):src.index("os.makedirs(\"/tmp/seedres\"")], {"subprocess": subprocess, "os": os}, ns)
for f in sorted(glob.glob("/tmp/seedres/*.json")):
    d = json.load(open(f))
    if d.get("demo_patched_rc") not in (0, None) and d.get("demo_pristine_rc") == 0:
        continue
    if d.get("demo_rerun"): continue
    d["demo_rerun"] = True
    D = "/tmp/seed_%s" % d["id"]; m = d["m"]; WT = D + "/wt"
    if not os.path.isdir(WT): continue
    cmd = ns["demo_cmd"]("%s/%s/demo.txt" % (D, m))
    ns["sh"]("git -C %s checkout -q -- ." % WT)
    r0 = ns["sh"]("cd %s/%s && %s" % (D, m, cmd), timeout=1800)
    ns["sh"]("git -C %s apply %s/%s/patch.diff" % (WT, D, m))
    r1 = ns["sh"]("cd %s/%s && %s" % (D, m, cmd), timeout=1800)
    ns["sh"]("git -C %s checkout -q -- ." % WT)
    d["demo_pristine_rc"], d["demo_patched_rc"] = r0.returncode, r1.returncode
    d["demo_patched_tail"] = (r1.stdout + r1.stderr)[-400:]
    json.dump(d, open(f, "w"), indent=1)
    print(d["id"], m, r0.returncode, r1.returncode)
