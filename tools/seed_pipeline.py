#!/usr/bin/env python3
"""seed_pipeline.py <ID> <mN> [extra check ids...]
Confirms an independently written breaking change (/tmp/seed_<ID>/<mN>/) and runs the checks against it:
 1. demo on the author's pristine worktree -> must exit 0; with the patch -> must exit non-zero
 2. patch applied to the scratch worktree /tmp/seedrepo (= /repo HEAD, all fixes): incremental build of
    the repository's whole test suite + ctest -> the 70 baseline tests must pass
 3. check.py <ID> (+extras) with VERIF_REPO=/tmp/seedrepo
Writes /tmp/seedres/<ID>-<mN>.json; always restores both worktrees."""
import json, os, subprocess, sys, time
pid, m = sys.argv[1], sys.argv[2]
extra = sys.argv[3:]
V = os.path.dirname(os.path.dirname(os.path.abspath(__file__)))
D = "/tmp/seed_%s" % pid
SR = os.environ.get("SEEDREPO", "/tmp/seedrepo")
WT, SB = D + "/wt", SR + "_b"
patch = "%s/%s/patch.diff" % (D, m)
res = {"id": pid, "m": m}
PHASE = os.environ.get("SEED_PHASE", "all")     # all | checks (demo + checks, no suite) | suite (suite only, merges)
_resf = "/tmp/seedres/%s-%s.json" % (pid, m)
if PHASE == "suite" and os.path.exists(_resf):
    res = json.load(open(_resf)); os.environ["SEED_FORCE"] = "1"
    try: os.remove("/tmp/seedres/%s-%s.lock" % (pid, m))
    except OSError: pass
def sh(cmd, **kw):
    return subprocess.run(cmd, shell=True, capture_output=True, text=True, **kw)
def demo_cmd(path):
    """first command block of the free-form demo.txt: non-comment lines up to the first blank line,
    without trailing `; echo ...` (so the exit status is the demo's) and without git apply/checkout"""
    block = []
    import re as _re0
    start = _re0.compile(r"^\s*(g\+\+|gcc|c\+\+|cc |clang|cd |sh |bash |mkdir|make|\./|/tmp|export |set |[A-Z_][A-Z0-9_]*=|\()")
    for l in open(path).read().splitlines():
        if not block:
            if start.match(l) and not l.lstrip().startswith("git "):
                block.append(l)
            continue
        if not l.strip():
            break
        if l.lstrip().startswith("#") or l.lstrip().startswith("git "):
            continue
        block.append(l)
    cmd = "\n".join(block)
    import re as _re
    cmd = _re.sub(r";\s*echo\s+[^\n;&|]*\$\?[^\n]*$", "", cmd)
    mo = _re.search(r"-o\s+(\S+)\s*$", cmd)
    if mo and "&&" not in cmd.split("-o")[-1]:
        cmd = cmd + " && " + mo.group(1)      # build-only block: run the produced binary as well
    return cmd
os.makedirs("/tmp/seedres", exist_ok=True)
if os.path.exists("/tmp/seedres/%s-%s.json" % (pid, m)) and not os.environ.get("SEED_FORCE"):
    print("already done"); sys.exit(0)
try:
    os.close(os.open("/tmp/seedres/%s-%s.lock" % (pid, m), os.O_CREAT | os.O_EXCL))
except FileExistsError:
    print("another worker has it"); sys.exit(0)
try:
    sh("git -C %s checkout -q -- ." % WT)
    if PHASE == "suite":
        a = None
    else:
        r = sh("cd %s/%s && %s" % (D, m, demo_cmd("%s/%s/demo.txt" % (D, m))), timeout=1800)
        res["demo_pristine_rc"] = r.returncode
        a = sh("git -C %s apply %s" % (WT, patch))
    if a is None:
        pass
    elif a.returncode != 0:
        res["error"] = "patch does not apply to author's worktree: " + a.stderr[-300:]
    else:
        r = sh("cd %s/%s && %s" % (D, m, demo_cmd("%s/%s/demo.txt" % (D, m))), timeout=1800)
        res["demo_patched_rc"] = r.returncode
        res["demo_patched_tail"] = (r.stdout + r.stderr)[-400:]
    sh("git -C %s checkout -q -- ." % WT)
    # suite + checks on the scratch copy of /repo HEAD
    sh("git -C %s checkout -q -- . ; git -C %s checkout -q --detach $(git -C /repo rev-parse HEAD)" % (SR, SR))
    a = sh("git -C %s apply --3way %s || git -C %s apply %s" % (SR, patch, SR, patch))
    st = sh("git -C %s status --porcelain --untracked-files=no" % SR).stdout.strip()
    if not st:
        res["error"] = "patch does not apply to /repo HEAD: " + a.stderr[-300:]
    else:
        t = time.time()
        if PHASE != "checks":
          sh("cmake --build %s -j14 -- -k0 > %s/seed_build.log 2>&1" % (SB, SB), timeout=7200)
        c = sh("true") if PHASE == "checks" else sh("ctest --test-dir %s -j8 --timeout 900 2>&1 | grep -E 'tests passed|tests failed|^[[:space:]]+[0-9]+ - '" % SB, timeout=7200)
        import re
        if PHASE != "checks":
            res["suite_s"] = round(time.time() - t)
            res["suite_tail"] = c.stdout[-700:]
            mm = re.search(r"(\d+) tests failed out of (\d+)", c.stdout)
            res["suite_failed"] = int(mm.group(1)) if mm else None
            res["suite_failed_names"] = re.findall(r"\d+ - (\w+) \((Failed|Not Run|Timeout|Subprocess aborted|SEGFAULT)\)", c.stdout)
        checks = res.get("checks", {})
        for cid in ([] if PHASE == "suite" else [pid] + extra):
            r = sh("cd %s && VERIF_REPO=%s python3 check.py %s 2>&1" % (V, SR, cid), timeout=3600)
            lines = [l[:260] for l in r.stdout.splitlines() if l.startswith(("VIOLATION", "[C"))]
            checks[cid] = {"rc": r.returncode, "lines": lines[:8]}
        res["checks"] = checks
finally:
    sh("git -C %s checkout -q -- . ; git -C %s reset -q --hard HEAD" % (SR, SR))
    sh("git -C %s checkout -q -- ." % WT)
json.dump(res, open("/tmp/seedres/%s-%s.json" % (pid, m), "w"), indent=1)
print(json.dumps({k: v for k, v in res.items() if k not in ("suite_tail", "demo_patched_tail")}, indent=1)[:1500])
