#!/usr/bin/env python3
"""mk_seed_task.py <ID> [n] [first index]  — prepares /tmp/seed_<ID>/ (a scratch worktree of /repo HEAD + PROMPT.md
containing ONLY the property text and generic instructions) for an independent sub-agent that
writes property-breaking changes. Nothing from /verif's machinery goes into the prompt."""
import json
import os
import subprocess
import sys

pid = sys.argv[1]
n = int(sys.argv[2]) if len(sys.argv) > 2 else 2
start = int(sys.argv[3]) if len(sys.argv) > 3 else 1
V = os.path.dirname(os.path.dirname(os.path.abspath(__file__)))
prop = [json.loads(l) for l in open(os.path.join(V, "properties.jsonl")) if json.loads(l)["id"] == pid][0]
d = "/tmp/seed_%s" % pid
os.makedirs(d, exist_ok=True)
if not os.path.exists(d + "/wt"):
    subprocess.run(["git", "-C", "/repo", "worktree", "add", "-q", "--detach", d + "/wt", "HEAD"], check=True)
dirs = " and ".join("`%s/m%d/`" % (d, i + start) for i in range(n))
prompt = f"""You are helping to evaluate a verification tool by writing realistic *bugs* for it to find. You work ONLY in the scratch git worktree `{d}/wt` (a checkout of the C++ library TorstenRobitzki/bluetoe: header-only BLE GATT server with its own ATT protocol handler, link layer over a scheduled-radio abstraction, security manager and nRF51/52 bindings) and in `{d}/`. Do not look at or touch `/verif` or `/repo`.

The property:

  {prop['id']} — {prop['title']}
  Statement: {prop['statement']}
  Quantified over: {prop['quantifier']['text']}
  Code it is anchored in: {', '.join(prop['anchors']['files'])}
  Mechanisms meant to make it hold: {'; '.join(m['name'] + ' (' + m.get('where', '') + ')' for m in prop['anchors']['mechanism'])}

Task: produce {n} different, independent source changes to the library (each a separate patch against the pristine worktree) that BREAK this property while (a) still compiling, and (b) still passing the library's existing test suite. Each change must need something specific to manifest — a particular interleaving, a fault at a particular point, a multi-step sequence of operations, an unusual input or boundary value, or two cooperating sites that each look fine alone — NOT something ordinary use would expose at once. Make them look like plausible developer mistakes, refactorings or "optimisations", not sabotage. Do not merely re-introduce something the code obviously guards with a dedicated existing test (it would fail the suite).

For each change deliver, in {dirs}:
 - `patch.diff` — `git diff` of the change against the pristine worktree (library sources under bluetoe/ only; do not edit tests);
 - a demonstration `demo.cpp` (+ the exact build/run command in `demo.txt`) — a small program that exits 0 on the pristine code and non-zero (printing what went wrong) with the change applied. It may use the library headers directly (include paths: `-I{d}/wt -I{d}/wt/bluetoe -I{d}/wt/bluetoe/link_layer/include -I{d}/wt/bluetoe/utility/include -I{d}/wt/bluetoe/sm/include`; put `#include <iterator>`, `<algorithm>`, `<cstring>` before bluetoe headers, they forget them; g++ -std=c++11) and the repo's own test scaffolding under `tests/test_tools` / `tests/link_layer` / `tests/security_manager` (test_radio, test_sm.hpp, aes.c, uECC.c …; Boost.Test is installed, header-only variant `<boost/test/included/unit_test.hpp>` works) — look at the existing tests for how to instantiate things;
 - `meta.json` — {{"property":"{pid}","summary":"…","needs":"what specific interleaving/sequence/input is needed to manifest","tests_run":"which existing tests you built and ran and their result"}}.

Existing tests: configure once with `cmake -G Ninja -S {d}/wt -B {d}/b -DCMAKE_BUILD_TYPE=RelWithDebInfo -DBLUETOE_BUILD_UNIT_TESTS=ON -DCMAKE_CXX_FLAGS=-Wno-error`. The machine is shared with many other jobs, so do NOT build the whole suite: build only the test targets whose sources include the headers you touched (find them with grep in {d}/wt/tests; typically 3-15 targets) with `cmake --build {d}/b -j4 --target <names>` (a load scheduler may pause ninja for a while; just wait), run those test binaries, and list them in meta.json; the full suite is run centrally afterwards, so think hard about which existing tests could notice your change and avoid changes they would catch. (Six test targets - service_tests, characteristic_value_tests, advertising_tests, gap_service_tests, attribute_handle_tests, battery_tests - do not compile even on pristine code; ignore them.) Verify yourself: demo passes on pristine and fails with the patch; the tests pass with the patch. Leave the worktree pristine at the end (`git -C {d}/wt checkout -- .`) and delete `{d}/b` when done. Final answer: a short summary of the changes (3 lines each).
"""
open(d + "/PROMPT.md", "w").write(prompt)
print(d + "/PROMPT.md")
