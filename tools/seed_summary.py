#!/usr/bin/env python3
import json, glob, os
for f in sorted(glob.glob("/tmp/seedres/*.json")):
    d = json.load(open(f))
    ch = {k: ("VIOL" if any(l.startswith("VIOL") for l in v["lines"]) else "pass", sum(l.startswith("VIOL") and "no-failing" not in l for l in v["lines"])) for k, v in d.get("checks", {}).items()}
    print(d["id"], d["m"], "demo", d.get("demo_pristine_rc"), d.get("demo_patched_rc"), "suite_failed", d.get("suite_failed"), [n for n, _ in d.get("suite_failed_names", []) if n not in ("service_tests","characteristic_value_tests","advertising_tests","gap_service_tests","attribute_handle_tests","battery_tests")], ch, d.get("error", "")[:100], "suite_s", d.get("suite_s"))
