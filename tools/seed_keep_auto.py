#!/usr/bin/env python3
"""Keeps every confirmed seeded change of /tmp/seedres/*.json under seeded/<ID>-<mN>/ (patch.diff, demo,
meta.json extended with what the coordinator ran and which checks reported it)."""
import glob, json, os, shutil, sys
V = os.path.dirname(os.path.dirname(os.path.abspath(__file__)))
KNOWN_BAD = {"service_tests", "characteristic_value_tests", "advertising_tests", "gap_service_tests", "attribute_handle_tests", "battery_tests"}
for f in sorted(glob.glob("/tmp/seedres/*.json")):
    d = json.load(open(f))
    name = "%s-%s" % (d["id"], d["m"])
    src = "/tmp/seed_%s/%s" % (d["id"], d["m"])
    if d.get("error") or "checks" not in d:
        print(name, "SKIP (error):", d.get("error", "")[:120]); continue
    if "suite_failed_names" not in d:
        print(name, "SKIP: suite phase not run yet"); continue
    bad = [n for n, _ in d.get("suite_failed_names", []) if n not in KNOWN_BAD]
    if d.get("demo_pristine_rc") != 0 or not d.get("demo_patched_rc"):
        print(name, "SKIP: demo does not separate pristine/patched", d.get("demo_pristine_rc"), d.get("demo_patched_rc")); continue
    if bad:
        print(name, "SKIP: existing tests fail with the change:", bad); continue
    dst = os.path.join(V, "seeded", name)
    if not os.path.isdir(src) and not os.path.exists(os.path.join(dst, "meta.json")):
        print(name, "source dir gone"); continue
    os.makedirs(dst, exist_ok=True)
    note = None
    if os.path.exists(os.path.join(dst, "meta.json")):
        note = json.load(open(os.path.join(dst, "meta.json"))).get("note_coordinator")
    for fn in (os.listdir(src) if os.path.isdir(src) else []):
        p = os.path.join(src, fn)
        if os.path.isfile(p) and os.path.getsize(p) < 300000 and fn.endswith((".diff", ".cpp", ".txt", ".json", ".sh", ".hpp", ".md")):
            shutil.copy(p, dst)
    meta = json.load(open(os.path.join(dst, "meta.json")))
    rep = {}
    for cid, c in d["checks"].items():
        v = [l for l in c["lines"] if l.startswith("VIOLATION")]
        if v:
            rep[cid] = {"violation_lines": len(v), "with_failing_input": sum("no-failing-input-found" not in l for l in v),
                        "first": v[0].replace(V + "/", "")[:200]}
    meta["property"] = d["id"]
    if note:
        meta["note_coordinator"] = note
    meta["detected"] = bool(rep)
    meta["reported_by"] = ", ".join("%s (%d failing-input replay%s%s)" % (k, r["with_failing_input"], "s" if r["with_failing_input"] != 1 else "", ", correspondence" if r["violation_lines"] > r["with_failing_input"] else "") for k, r in rep.items()) or "NOT REPORTED by the checks run (%s)" % ",".join(d["checks"].keys())
    if any(c.get("rechecked_after_strengthening") for c in d["checks"].values()):
        meta["reported_by"] += " [missed by the first version of the check; reported after the check was strengthened]"
        meta["missed_first"] = True
    meta["suite"] = "70 baseline tests pass with the change (full suite, incremental build in scratch worktree of /repo HEAD)"
    meta["confirmed_by_coordinator"] = "tools/seed_pipeline.py: demo exit 0 on pristine / %s with patch; full test suite re-run with the patch: only the 6 targets that never compile are 'Not Run'; checks run with VERIF_REPO=<patched scratch worktree>: %s" % (d.get("demo_patched_rc"), json.dumps(rep)[:600])
    json.dump(meta, open(os.path.join(dst, "meta.json"), "w"), indent=1)
    print(name, "kept; detected =", meta["detected"], "|", meta["reported_by"])
