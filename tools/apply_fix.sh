#!/bin/sh
# apply_fix.sh <fixes/NAME.patch> : applies the patch to /repo and commits it with fixes/NAME.msg
set -e
P=$(readlink -f "$1"); M="${P%.patch}.msg"
git -C /repo apply --3way "$P" 2>/dev/null || git -C /repo apply "$P" || (cd /repo && patch -p1 < "$P")
git -C /repo add -A bluetoe
git -C /repo commit -q -F "$M"
git -C /repo log --oneline | head -1
