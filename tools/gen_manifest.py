#!/usr/bin/env python3
"""Regenerates MANIFEST.json from the component registry (comp/*.py) and properties.jsonl."""
import json
import os
import sys

V = os.path.dirname(os.path.dirname(os.path.abspath(__file__)))
sys.path.insert(0, V)
from vlib import core

NOT_APPLICABLE_REASONS = {}
p = os.path.join(V, "tools", "not_applicable.json")
if os.path.exists(p):
    NOT_APPLICABLE_REASONS = json.load(open(p))

props = [json.loads(l) for l in open(os.path.join(V, "properties.jsonl"))]
comps = core.load_components()
checks, engines, claimed = [], [], set()
for name, mod in comps.items():
    served = sorted(getattr(mod, "PROPS", {}).keys())
    if not served:
        continue
    engines.append({"name": name, "path": "comp/%s.py + lean/%s + %s" % (name, mod.LEAN_MODULE.replace(".", "/"), getattr(mod, "HARNESS_DESC", "harness/%s.cpp" % name)),
                    "serves_properties": served,
                    "kind_free_text": "hand-written Lean 4 model with kernel-checked theorems, tied to the real C++ by a differential correspondence harness"})
    for pid in served:
        pr = mod.PROPS[pid]
        claimed.add(pid)
        checks.append({
            "property_id": pid,
            "quick_cmd": "python3 check.py %s --tier quick" % pid,
            "thorough_cmd": "python3 check.py %s --tier thorough" % pid,
            "evidence_file": "evidence/%s.json" % pid,
            "replay_cmd_template": "python3 check.py %s --replay {path}" % pid,
            "engine": name,
            "level_claimed": {"category": pr.get("level", "proof") if pr.get("level", "proof") in ("exploration", "fault_enumeration", "model_checking", "proof", "translation_validation", "other") else "proof", "text": ("[PARTIAL: only part of the property is proved, see text] " if "partial" in str(pr.get("level", "")) else "") + pr["level_text"], "design_ref": pr.get("design_ref", "")},
            "level_note": pr["level_note"],
            "technique": pr["technique"],
        })
checks.sort(key=lambda c: c["property_id"])
na = []
for pr in props:
    if pr["id"] not in claimed:
        na.append({"property_id": pr["id"], "reason": NOT_APPLICABLE_REASONS.get(pr["id"], "no check built yet for this property (model + correspondence harness pending); not claimed")})
man = {
    "version": 1,
    "setup_cmd": "sh tools/setup.sh",
    "hooks": {
        "guard": core.GUARD,
        "enable": "harness builds pass -D%s; no source hooks are needed so far (private state is reached from the harness translation units)" % core.GUARD,
        "baseline_off_cmd": "sh /verif/tools/baseline.sh /repo /repo/_build",
        "source_commits": json.load(open(os.path.join(V, "tools", "hook_commits.json"))) if os.path.exists(os.path.join(V, "tools", "hook_commits.json")) else [],
        "add_only": True,
    },
    "engines": engines,
    "checks": checks,
    "notes": "One check.py invocation per property: Lean proof audit (#print axioms, source grep) + correspondence harness built from /repo's working tree + failing-input search; see DESIGN.md. Seeds via VERIF_SEED; alternative repository path via VERIF_REPO.",
    "not_applicable": na,
}
json.dump(man, open(os.path.join(V, "MANIFEST.json"), "w"), indent=1)
print("checks: %d  not claimed: %d" % (len(checks), len(na)))
