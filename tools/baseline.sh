#!/bin/sh
# Runs the repository's own test suite with the verification guard OFF (the guard macro
# TORSTENROBITZKI_BLUETOE_VERIF is only ever defined by /verif's harness builds).
# usage: baseline.sh [repo-dir] [build-dir]     (defaults /repo /repo/_build)
REPO=${1:-/repo}
B=${2:-$REPO/_build}
[ -f "$B/build.ninja" ] || cmake -G Ninja -S "$REPO" -B "$B" -DCMAKE_BUILD_TYPE=RelWithDebInfo -DBLUETOE_BUILD_UNIT_TESTS=ON -DCMAKE_CXX_FLAGS=-Wno-error -DCMAKE_C_FLAGS=-Wno-error >/dev/null 2>&1
# six test targets (service_tests, characteristic_value_tests, advertising_tests, gap_service_tests,
# attribute_handle_tests, battery_tests) do not compile with g++ 12 at the pinned commit and are not
# part of the 70-test baseline; -k0 keeps going past them
cmake --build "$B" -j"$(nproc)" -- -k0 >"$B/verif_build.log" 2>&1
ctest --test-dir "$B" -j8 --timeout 900 2>&1 | tail -15
