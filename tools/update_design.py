#!/usr/bin/env python3
"""Re-inserts the generated status tables (tools/gen_status.py) into DESIGN.md between the markers."""
import os, subprocess, sys
V = os.path.dirname(os.path.dirname(os.path.abspath(__file__)))
p = os.path.join(V, "DESIGN.md")
s = open(p).read()
a = s.index("<!-- BEGIN GENERATED STATUS")
b = s.index("<!-- END GENERATED STATUS -->")
gen = subprocess.run([sys.executable, os.path.join(V, "tools", "gen_status.py")], capture_output=True, text=True).stdout
s = s[:a] + "<!-- BEGIN GENERATED STATUS (tools/gen_status.py) -->\n### 9.3 Status per property, repaired defects, known findings, seeded changes\n\n" + gen + "\n" + s[b:]
open(p, "w").write(s)
print("DESIGN.md updated (%d generated lines)" % gen.count("\n"))
