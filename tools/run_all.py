#!/usr/bin/env python3
"""run_all.py [--tier quick|thorough] [--seeds 1,2,3] [--jobs N] [IDs...]
Runs the registered checks (all by default) in parallel and prints one summary line per run."""
import argparse
import concurrent.futures as cf
import json
import os
import subprocess
import sys
import time

V = os.path.dirname(os.path.dirname(os.path.abspath(__file__)))
ap = argparse.ArgumentParser()
ap.add_argument("ids", nargs="*")
ap.add_argument("--tier", default="quick")
ap.add_argument("--seeds", default="1")
ap.add_argument("--jobs", type=int, default=6)
a = ap.parse_args()
man = json.load(open(os.path.join(V, "MANIFEST.json")))
ids = a.ids or [c["property_id"] for c in man["checks"]]
# build Lean once up front so the parallel checks only find an up-to-date build
subprocess.run(["sh", os.path.join(V, "tools", "setup.sh")], stdout=subprocess.DEVNULL, stderr=subprocess.DEVNULL)


def one(pid, seed):
    t = time.time()
    env = dict(os.environ, VERIF_SEED=str(seed))
    p = subprocess.run([sys.executable, os.path.join(V, "check.py"), pid, "--tier", a.tier], capture_output=True, text=True, env=env, cwd=V)
    lines = [l for l in p.stdout.splitlines() if l.startswith(("VIOLATION", "KNOWN-FINDING"))]
    return pid, seed, p.returncode, time.time() - t, lines, p.stderr.strip().splitlines()[-1:] 


bad = 0
with cf.ThreadPoolExecutor(a.jobs) as ex:
    futs = [ex.submit(one, pid, int(s)) for s in a.seeds.split(",") for pid in ids]
    for f in cf.as_completed(futs):
        pid, seed, rc, dt, lines, last = f.result()
        nv = sum(l.startswith("VIOLATION") for l in lines)
        nk = sum(l.startswith("KNOWN") for l in lines)
        print("%s seed=%d rc=%d %.0fs violations=%d known=%d %s" % (pid, seed, rc, dt, nv, nk, (last[0][:150] if last else "")), flush=True)
        if rc != 0:
            bad += 1
            for l in lines[:4]:
                if l.startswith("VIOLATION"):
                    print("    " + l[:200])
print("runs with rc!=0: %d" % bad)
sys.exit(1 if bad else 0)
