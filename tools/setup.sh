#!/bin/sh
# Build the Lean model library, all property theorems and every component's model driver.
# Offline; uses only the pre-installed Lean toolchain. Harnesses are built by the checks
# themselves from /repo's current working tree.
set -e
cd "$(dirname "$0")/../lean"
drivers=$(grep -o '^name = "drv_[a-z0-9_]*"' lakefile.toml | sed 's/name = "\(.*\)"/\1/')
built=""
for d in $drivers; do
  root=$(awk -v n="$d" '$0 ~ "name = \""n"\"" {getline; print}' lakefile.toml | sed 's/root = "\(.*\)"/\1/' | tr . /)
  [ -f "$root.lean" ] && built="$built $d"
done
lake build BluetoeModel $built
