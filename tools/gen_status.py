#!/usr/bin/env python3
"""Prints the 'status as built' markdown tables for DESIGN.md from the registry, KNOWN_FINDINGS.json,
seeded/*/meta.json and the evidence files."""
import json, os, sys, re
V = os.path.dirname(os.path.dirname(os.path.abspath(__file__)))
sys.path.insert(0, V)
from vlib import core
comps = core.load_components()
known = json.load(open(os.path.join(V, "KNOWN_FINDINGS.json")))
props = [json.loads(l) for l in open(os.path.join(V, "properties.jsonl"))]
byprop = {}
for name, mod in comps.items():
    for pid, pr in getattr(mod, "PROPS", {}).items():
        byprop[pid] = (name, pr)
print("| property | component | level | theorems (+witnesses) | known findings | fixes in /repo | seeded changes caught |")
print("|---|---|---|---|---|---|---|")
seeded = {}
sd = os.path.join(V, "seeded")
if os.path.isdir(sd):
    for d in sorted(os.listdir(sd)):
        mp = os.path.join(sd, d, "meta.json")
        if os.path.exists(mp):
            m = json.load(open(mp))
            seeded.setdefault(m.get("property"), []).append((d, m))
for p in props:
    pid = p["id"]
    if pid not in byprop:
        print("| %s | — | not claimed | | | | |" % pid)
        continue
    name, pr = byprop[pid]
    nk = sum(1 for f in known["findings"] if f.get("property") == pid)
    fx = [x.split()[2] for x in known["fixed"] if ("property=%s " % pid) in x]
    sc = seeded.get(pid, [])
    caught = sum(1 for d, m in sc if m.get("detected", True))
    print("| %s | %s | %s | %d (+%d) | %d | %s | %s |" % (pid, name, pr.get("level", "proof"), len(pr.get("theorems", [])), len(pr.get("witnesses", [])), nk, " ".join(fx) or "—", ("%d/%d" % (caught, len(sc))) if sc else "—"))

print()
print("### Repaired defects (`fix:` commits in /repo, one per defect)")
print()
for x in known["fixed"]:
    print("* `" + x[:520].replace("|", "/") + ("…" if len(x) > 520 else "") + "`")
print()
print("### Known findings (genuine defects recorded, not repaired; key = failing input class)")
print()
print("| property | key | what fails |")
print("|---|---|---|")
for f in sorted(known["findings"], key=lambda f: (f.get("property", ""), f["key"])):
    print("| %s | `%s` | %s |" % (f.get("property"), f["key"], str(f.get("what", "")).replace("|", "/")[:400]))
if seeded:
    print()
    print("### Independently written breaking changes (seeded/) and the checks that catch them")
    print()
    print("| seeded change | property | what it needs to manifest | existing tests | reported by |")
    print("|---|---|---|---|---|")
    for pid in sorted(seeded):
        for d, m in seeded[pid]:
            print("| %s | %s | %s | %s | %s |" % (d, pid, str(m.get("needs", ""))[:300].replace("|", "/").replace("\n", " "), str(m.get("suite", "pass"))[:80], str(m.get("reported_by", m.get("confirmed_by_coordinator", "")))[:300].replace("|", "/")))
