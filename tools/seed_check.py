#!/usr/bin/env python3
"""seed_check.py <seeded/<id> dir> [--all] [--tier quick]
Applies seeded/<id>/patch.diff to /repo, runs the check of the property named in meta.json (or all
checks with --all), prints which checks report a VIOLATION, and restores /repo (git checkout)."""
import argparse
import json
import os
import subprocess
import sys

V = os.path.dirname(os.path.dirname(os.path.abspath(__file__)))
ap = argparse.ArgumentParser()
ap.add_argument("dir")
ap.add_argument("--all", action="store_true")
ap.add_argument("--tier", default="quick")
ap.add_argument("--ids", default="")
a = ap.parse_args()
d = os.path.abspath(a.dir)
meta = json.load(open(os.path.join(d, "meta.json")))
st = subprocess.run(["git", "-C", "/repo", "status", "--porcelain", "--untracked-files=no"], capture_output=True, text=True).stdout.strip()
if st:
    sys.exit("refusing: /repo has local modifications:\n" + st)
subprocess.run(["git", "-C", "/repo", "apply", os.path.join(d, "patch.diff")], check=True)
try:
    ids = a.ids.split(",") if a.ids else [meta["property"]]
    cmd = [sys.executable, os.path.join(V, "tools", "run_all.py"), "--tier", a.tier] + ([] if a.all else ids)
    p = subprocess.run(cmd, capture_output=True, text=True)
    print(p.stdout[-6000:])
finally:
    subprocess.run(["git", "-C", "/repo", "checkout", "--", "."], check=True)
    print("restored /repo:", subprocess.run(["git", "-C", "/repo", "status", "--porcelain", "--untracked-files=no"], capture_output=True, text=True).stdout.strip() or "clean")
