#!/bin/sh
# seed_try.sh <seed-dir e.g. /tmp/seed_C26> <mN> <ID...> : demo on pristine wt, demo on patched wt,
# then the given checks with VERIF_REPO=<wt>; restores the worktree afterwards.
D=$1; M=$2; shift 2
WT=$D/wt
git -C $WT checkout -q -- . 
echo "== demo pristine"; (cd $D/$M && sh ./demo.txt) >/tmp/seed_try_demo.log 2>&1; echo "rc=$?"
git -C $WT apply $D/$M/patch.diff || { echo "PATCH DOES NOT APPLY"; exit 2; }
echo "== demo patched"; (cd $D/$M && sh ./demo.txt) >/tmp/seed_try_demo2.log 2>&1; echo "rc=$?"; tail -3 /tmp/seed_try_demo2.log
for id in "$@"; do
  echo "== check $id"; (cd /verif && VERIF_REPO=$WT python3 check.py $id 2>&1 | grep -E "^VIOLATION|^\[" | cut -c1-220 | head -8)
done
git -C $WT checkout -q -- .
