#!/usr/bin/env python3
"""seed_keep.py <seed-dir> <mN> <name> "<what I ran / result>" : copies an independently written
breaking change into seeded/<name>/ (patch.diff, demo files, meta.json extended by my own notes)."""
import json, os, shutil, sys
src, m, name, ran = sys.argv[1], sys.argv[2], sys.argv[3], sys.argv[4]
V = os.path.dirname(os.path.dirname(os.path.abspath(__file__)))
dst = os.path.join(V, "seeded", name)
os.makedirs(dst, exist_ok=True)
for f in os.listdir(os.path.join(src, m)):
    p = os.path.join(src, m, f)
    if os.path.isfile(p) and os.path.getsize(p) < 200000 and not os.access(p, os.X_OK):
        shutil.copy(p, dst)
meta = json.load(open(os.path.join(dst, "meta.json")))
meta["confirmed_by_coordinator"] = ran
json.dump(meta, open(os.path.join(dst, "meta.json"), "w"), indent=1)
print(dst, os.listdir(dst))
