#!/usr/bin/env python3
"""seed_recheck.py <ID> <mN> [check ids...]: re-runs only the checks for an already confirmed seeded change
(after a check was strengthened) on the scratch worktree /tmp/seedrepo4 (= /repo HEAD) and updates
/tmp/seedres/<ID>-<mN>.json."""
import json, os, subprocess, sys
pid, m = sys.argv[1], sys.argv[2]
ids = sys.argv[3:] or [pid]
V = os.path.dirname(os.path.dirname(os.path.abspath(__file__)))
SR = "/tmp/seedrepo4"
def sh(c, **k): return subprocess.run(c, shell=True, capture_output=True, text=True, **k)
f = "/tmp/seedres/%s-%s.json" % (pid, m)
d = json.load(open(f))
patch = os.path.join(V, "seeded", "%s-%s" % (pid, m), "patch.diff")
if not os.path.exists(patch):
    patch = "/tmp/seed_%s/%s/patch.diff" % (pid, m)
sh("git -C %s checkout -q -- . ; git -C %s checkout -q --detach $(git -C /repo rev-parse HEAD)" % (SR, SR))
a = sh("git -C %s apply --3way %s || git -C %s apply %s" % (SR, patch, SR, patch))
try:
    for cid in ids:
        r = sh("cd %s && VERIF_REPO=%s python3 check.py %s 2>&1" % (V, SR, cid), timeout=3600)
        lines = [l[:260] for l in r.stdout.splitlines() if l.startswith(("VIOLATION", "[C"))]
        d.setdefault("checks", {})[cid] = {"rc": r.returncode, "lines": lines[:8], "rechecked_after_strengthening": True}
        print(cid, r.returncode, lines[:3])
finally:
    sh("git -C %s checkout -q -- . ; git -C %s reset -q --hard HEAD" % (SR, SR))
json.dump(d, open(f, "w"), indent=1)
