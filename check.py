#!/usr/bin/env python3
"""check.py <PROPERTY-ID> [--tier quick|thorough] [--replay <file>]

Decides one property of /repo (or $VERIF_REPO): proof audit of the Lean theorems registered for
it, correspondence check model <-> real code on generated + corpus operation sequences, search
for a concrete failing input, known-findings handling. Exit 0 = held on everything explored,
exit 1 + `VIOLATION property=<id> replay=<path>` otherwise. Seed: $VERIF_SEED (default 1)."""
import argparse
import os
import sys

sys.path.insert(0, os.path.dirname(os.path.abspath(__file__)))
from vlib import core


def main():
    ap = argparse.ArgumentParser()
    ap.add_argument("pid")
    ap.add_argument("--tier", default=os.environ.get("VERIF_TIER", "quick"), choices=["quick", "thorough"])
    ap.add_argument("--replay", default=None)
    a = ap.parse_args()
    seed = int(os.environ.get("VERIF_SEED", "1") or 1)
    sys.exit(core.check(a.pid, a.tier, seed, a.replay))


if __name__ == "__main__":
    main()
