"""C36 / C35 — pairing method selection and reported pairing status
(bluetoe/sm/include/bluetoe/io_capabilities.hpp, security_manager.hpp, security_connection_data.hpp)"""
from vlib.core import Result

NAME = "smsel"
LEAN_MODULE = "BluetoeModel.SmSelect"
DRIVER = "drv_smsel"
HARNESS_DESC = ("harness/smsel.cpp (real legacy_/lesc_/security_manager over tests/security_manager/test_sm.hpp, "
                "real AES + P-256 from tests/test_tools)")
HARNESS = dict(
    src="harness/smsel.cpp",
    repo_srcs=["bluetoe/utility/address.cpp"],
    includes=["tests/test_tools", "tests/security_manager"],
    c_srcs=["tests/test_tools/aes.c", "tests/test_tools/uECC.c"],
    c_defines=["uECC_CURVE=uECC_secp256r1"],
    defines=["uECC_CURVE=uECC_secp256r1"],
    # 31 instantiations of the three managers: -O0 keeps the sanitizer build at ~25 s CPU (-O1: 75 s)
    flags=["-O0", "-g", "-fsanitize=address,undefined", "-fno-sanitize-recover=all", "-fno-omit-frame-pointer", "-w"],
)

MGR = ["legacy", "lesc", "combined"]
CFG = ["none", "yes_no", "keyboard", "display", "display+yes_no", "display+keyboard"]
IO = ["display_only", "display_yes_no", "keyboard_only", "no_input_no_output", "keyboard_display"]
LEGACY_ALG = ["just_works", "oob_authentication", "passkey_entry_display", "passkey_entry_input"]
LESC_ALG = LEGACY_ALG + ["numeric_comparison"]

# ------------------------------------------------------------------------------------------------
# The specification, transcribed for the monitor from Core Spec Vol 3 Part H (independently of the
# Lean transcription in Spec.lean and of the code).
# ------------------------------------------------------------------------------------------------
# 2.3.2 Table 2.5: (input, output) -> IO capability.  cfg index = harness configuration
SPEC_IOCAP = {
    0: 3,  # no input,  no output      -> NoInputNoOutput
    1: 3,  # yes/no,    no output      -> NoInputNoOutput
    2: 2,  # keyboard,  no output      -> KeyboardOnly
    3: 0,  # no input,  numeric output -> DisplayOnly
    4: 1,  # yes/no,    numeric output -> DisplayYesNo
    5: 4,  # keyboard,  numeric output -> KeyboardDisplay
}
# 2.3.5.1 Table 2.8, rows = responder, columns = initiator (DisplayOnly, DisplayYesNo, KeyboardOnly,
# NoInputNoOutput, KeyboardDisplay); "a/b" = LE legacy pairing / LE Secure Connections.
#   JW  Just Works                    R>I  Passkey Entry: responder displays, initiator inputs
#   NC  Numeric Comparison            I>R  Passkey Entry: initiator displays, responder inputs
#                                     I+R  Passkey Entry: initiator and responder input
TABLE_2_8 = {
    0: ["JW",  "JW",     "R>I", "JW", "R>I"],
    1: ["JW",  "JW/NC",  "R>I", "JW", "R>I/NC"],
    2: ["I>R", "I>R",    "I+R", "JW", "I>R"],
    3: ["JW",  "JW",     "JW",  "JW", "JW"],
    4: ["I>R", "I>R/NC", "R>I", "JW", "I>R/NC"],
}
RESPONDER_PART = {"JW": 0, "OOB": 1, "R>I": 2, "I>R": 3, "I+R": 3, "NC": 4}


def spec_cell(responder_io, initiator_io, sc):
    e = TABLE_2_8[responder_io][initiator_io].split("/")
    return e[-1] if sc else e[0]


def spec_method(sc, init_oob, resp_oob, init_mitm, resp_mitm, init_io, resp_io):
    """Tables 2.6 (legacy: OOB iff both flags) / 2.7 (SC: OOB iff either flag), then the MITM rule"""
    if (init_oob or resp_oob) if sc else (init_oob and resp_oob):
        return "OOB"
    if not init_mitm and not resp_mitm:
        return "JW"
    return spec_cell(resp_io, init_io, sc)


def instantiated(mgr, cfg, mitm, oobopt):
    exists = mgr == 0 or cfg not in (2, 5)
    return exists and (oobopt == 1 or (cfg == 0 and mitm == 0))


def manager_types():
    return [(m, c, mi, o) for m in range(3) for c in range(6) for mi in (0, 1) for o in (0, 1) if instantiated(m, c, mi, o)]


def chunks(ops, n=64):
    return [ops[i:i + n] for i in range(0, len(ops), n)]


# ------------------------------------------------------------------------------------------------
# C36
# ------------------------------------------------------------------------------------------------
def monitor_mat(op, out):
    w = [int(x) for x in op.split()[1:]]
    cfg, io = w
    o = out.split()
    if len(o) != 3:
        return "C36:mat-bad-output", "unparsable: " + out
    adv, leg, lesc = [int(x) for x in o]
    if adv != SPEC_IOCAP[cfg]:
        return ("C36:advertised-io-capability:%s" % CFG[cfg],
                "configuration %s advertises %d, Table 2.5 says %d" % (CFG[cfg], adv, SPEC_IOCAP[cfg]))
    if io <= 4:
        want_l = RESPONDER_PART[spec_cell(SPEC_IOCAP[cfg], io, False)]
        want_s = RESPONDER_PART[spec_cell(SPEC_IOCAP[cfg], io, True)]
        if leg != want_l:
            return ("C36:table-cell:legacy:%s:%s" % (CFG[cfg], IO[io]),
                    "select_legacy_pairing_algorithm(%s, %s) = %s, Table 2.8 says %s" % (CFG[cfg], IO[io], LEGACY_ALG[leg], LEGACY_ALG[want_l]))
        if lesc != want_s:
            return ("C36:table-cell:lesc:%s:%s" % (CFG[cfg], IO[io]),
                    "select_lesc_pairing_algorithm(%s, %s) = %s, Table 2.8 says %s" % (CFG[cfg], IO[io], LESC_ALG[lesc], LESC_ALG[want_s]))
    return None


def monitor_req(op, out):
    """2.3.5.1 applied to the exchanged Pairing Request / Pairing Response"""
    mgr, cfg, mitm, oobopt, cbhas, io, oob, auth = [int(x) for x in op.split()[1:9]]
    o = out.split()
    valid = io <= 4 and oob <= 1
    init_sc, init_mitm = bool(auth & 8), bool(auth & 4)
    if o[0] == "rej":
        if not valid:
            return None if o[1] == "10" else ("C36:invalid-request-error-code", "invalid request answered with " + out)
        if mgr == 1 and not init_sc:
            return None     # Secure Connections Only
        return "C36:unexpected-reject:%s" % MGR[mgr], "well-formed request refused: %s" % out
    if not valid:
        return "C36:invalid-request-accepted", "io=%d oob=%d accepted: %s" % (io, oob, out)
    path, alg, rio, roob, rauth = o[0], int(o[1]), int(o[2]), int(o[3]), int(o[4])
    if rio != SPEC_IOCAP[cfg]:
        return ("C36:advertised-io-capability:%s" % CFG[cfg],
                "Pairing Response of %s/%s carries IO capability %d, Table 2.5 says %d" % (MGR[mgr], CFG[cfg], rio, SPEC_IOCAP[cfg]))
    both_sc = init_sc and bool(rauth & 8)
    if both_sc != (path == "lesc"):
        return ("C36:wrong-pairing-kind:%s" % MGR[mgr],
                "request SC=%d, response SC=%d but %s pairing started" % (init_sc, bool(rauth & 8), path))
    resp_mitm = bool(rauth & 4)
    want = spec_method(both_sc, oob == 1, roob != 0, init_mitm, resp_mitm, io, SPEC_IOCAP[cfg])
    want_alg = RESPONDER_PART[want]
    if alg == want_alg:
        return None
    names = LESC_ALG if both_sc else LEGACY_ALG
    kind = "lesc" if both_sc else "legacy"
    cell = RESPONDER_PART[spec_cell(SPEC_IOCAP[cfg], io, both_sc)]
    if want == "JW" and not init_mitm and not resp_mitm and alg == cell:
        return ("C36:mitm-ignored:%s:%s:%s" % (kind, IO[SPEC_IOCAP[cfg]], IO[io]),
                "neither side sets MITM (spec: Just Works) but %s is selected from the IO capabilities" % names[alg])
    if alg == 1 and roob == 0:
        return ("C36:oob-selected-not-advertised:%s:%s" % (MGR[mgr], kind),
                "OOB selected on local OOB data while the response's OOB data flag is 0 (spec by the exchanged flags: %s)" % want)
    return ("C36:wrong-method:%s:%s:%s:%s:oob=%d/%d:mitm=%d/%d" % (MGR[mgr], kind, CFG[cfg], IO[io], oob, roob, init_mitm, resp_mitm),
            "selected %s, specification says %s" % (names[alg], names[want_alg]))


def c36_ops(ctx):
    ops = []
    for cfg in range(6):
        for io in range(256):
            ops.append("mat %d %d" % (cfg, io))
    for m in range(3):
        for cfg in range(6):
            ops.append("compiles %d %d" % (m, cfg))
    defined = [b | mi | sc | k for b in (0, 1) for mi in (0, 4) for sc in (0, 8) for k in (0, 16)]
    auths = list(range(256)) if ctx.thorough else defined + [0x20, 0x48, 0x8c, 0xe4, 0xff, 0xf7, 0x02, 0x0a]
    for (m, cfg, mi, o) in manager_types():
        for cb in (0, 1):
            for io in range(5):
                for oob in (0, 1):
                    for a in auths:
                        ops.append("req %d %d %d %d %d %d %d %d" % (m, cfg, mi, o, cb, io, oob, a))
    # malformed stream: reserved IO capability / OOB flag values
    types = manager_types()
    n_bad = 3000 if ctx.thorough else 600
    for _ in range(n_bad):
        m, cfg, mi, o = ctx.rng.choice(types)
        if ctx.rng.random() < 0.5:
            io, oob = ctx.rng.choice([5, 6, 7, 8, 16, 128, 255, ctx.rng.randrange(5, 256)]), ctx.rng.randrange(2)
        else:
            io, oob = ctx.rng.randrange(5), ctx.rng.choice([2, 3, 4, 128, 255, ctx.rng.randrange(2, 256)])
        ops.append("req %d %d %d %d %d %d %d %d" % (m, cfg, mi, o, ctx.rng.randrange(2), io, oob, ctx.rng.randrange(256)))
    return ops


def run_c36(ctx, replay_path=None):
    res = Result()
    res.rule = ("exhaustive: `mat` = io_capabilities_matrix<cfg>::get_io_capabilities / select_legacy_ / select_lesc_pairing_algorithm for the 6 local "
                "IO configurations x all 256 byte values; `req` = one Pairing Request on a fresh real manager for every instantiated "
                "<manager, IO configuration, MITM option, OOB callback option> (31 types) x callback answer x remote IO capability 0..4 x OOB flag x "
                "AuthReq (quick: the 16 combinations of the defined bits + 8 bytes with reserved bits; thorough: all 256), reading the selected "
                "algorithm from the connection data and the advertised IO capability / OOB flag / AuthReq from the Pairing Response; plus a random "
                "malformed stream (reserved IO capability / OOB flag values). Every line is compared with the Lean model and checked by a Python "
                "transcription of Tables 2.5-2.8. non-trivial = request cells whose specified method is not Just Works; distinct = distinct such cells")
    corpus = [ops for _, ops in ctx.corpus()]
    ops = c36_ops(ctx)
    sessions = corpus + chunks(ops, 256)
    impl, model, dis = ctx.run_pair(sessions)
    for d in dis[:20]:
        res.disagreements.append(dict(d, ops=[d["op"]]))
    seen = {}
    for s_ops, r in zip(sessions, impl):
        res.sessions += 1
        res.evaluations += len(r["out"])
        if r["crash"]:
            res.failures.append({"key": "C36:crash:" + r["crash"].split(" @")[0], "what": r["crash"], "ops": s_ops[:len(r["out"]) + 1]})
        for op, out in zip(s_ops, r["out"]):
            kind = op.split()[0]
            res.count("op_" + kind)
            hit = None
            if kind == "mat":
                hit = monitor_mat(op, out)
            elif kind == "req":
                res.count("answer_" + " ".join(out.split()[:2]))
                hit = monitor_req(op, out)
                if out.split()[0] != "rej" and out.split()[1] != "0":
                    res.distinct.add(op)
            elif kind == "compiles":
                m, cfg = [int(x) for x in op.split()[1:]]
                if out != ("1" if (m == 0 or cfg not in (2, 5)) else "0"):
                    hit = ("C36:harness-configuration-set", "compiles %d %d = %s" % (m, cfg, out))
            if hit:
                res.count("deviating_cells")
                seen.setdefault(hit[0], 0)
                seen[hit[0]] += 1
                if seen[hit[0]] <= 2:
                    res.failures.append({"key": hit[0], "what": hit[1], "ops": [op], "observed": out})
    res.exhaustive = True
    res.extra["deviating_cells_by_key"] = seen
    res.samples = ["%s -> %s" % (o, r) for o, r in list(zip(sessions[-1], impl[-1]["out"]))[:3]] + \
                  ["%s -> %s" % (o, r) for o, r in list(zip(sessions[len(corpus) + 8], impl[len(corpus) + 8]["out"]))[:3]]
    return res


# ------------------------------------------------------------------------------------------------
# C35
# ------------------------------------------------------------------------------------------------
STATUS = ["no_key", "unauthenticated_key", "authenticated_key", "authenticated_key_with_secure_connection"]
TK = ["zero", "passkey", "oob-data", "wrong"]
USER = ["silent", "yes-at-once", "no-at-once", "yes-before-dhkey-check", "yes-after-dhkey-check", "no-before-dhkey-check", "no-after-dhkey-check"]


def parse_pair(out):
    o = out.split()
    if o[0] == "rej":
        sel, rest = o[:2], o[2:]
    else:
        sel, rest = o[:5], o[5:]
    kv = dict(x.split("=", 1) for x in rest)
    return sel, kv


def monitor_pair(op, out):
    """the property evaluated on what the harness central observed, without the model:
    which secret (if any) the central needed to complete, whether the user confirmed"""
    mgr, cfg, mitm, oobopt, cbhas, io, oob, auth, tk, user = [int(x) for x in op.split()[1:11]]
    try:
        sel, kv = parse_pair(out)
        done, status = kv["done"] == "1", int(kv["status"])
    except Exception:
        return "C35:bad-output", "unparsable: " + out
    where = "%s/%s" % (MGR[mgr], CFG[cfg])
    if kv["early"] == "1":
        return "C35:key-reported-before-completion:%s" % MGR[mgr], "%s: a pairing status other than no_key was visible during the exchange" % where
    if not done:
        if status != 0:
            return ("C35:key-reported-without-completed-pairing:%s" % MGR[mgr],
                    "%s: exchange ended with %s but status is %s" % (where, kv["fail"], STATUS[status]))
        return None
    if kv["chk"] != "1":
        return "C35:central-check-failed:%s" % MGR[mgr], "%s: the central's own confirm / DHKey / key check failed on a completed pairing" % where
    if sel[0] == "legacy":
        # the peripheral accepted Mconfirm = c1(TK, Mrand): the central knew the TK. A pass key counts
        # when the device showed it or the user typed it, OOB data when the callback supplied it.
        authenticated = (tk == 1 and (kv["shown"] == "1" or kv["kbd"] == "1")) or (tk == 2 and cbhas == 1 and kv["oobq"] != "0")
        alg = LEGACY_ALG[int(sel[1])]
    else:
        # chk=1: Cb = f4(PKb, PKa, Nb, 0) and Eb / Ea with r = 0, i.e. the Just Works / Numeric Comparison
        # exchange was executed; it authenticates iff the user was shown the value, asked and said yes
        authenticated = kv["asked"] == "1" and kv["shown"] == "1" and user in (1, 3, 4)
        alg = LESC_ALG[int(sel[1])]
    if authenticated and status in (2, 3):
        return None
    if not authenticated and status == 1:
        return None
    if sel[0] == "lesc" and mgr == 2 and not authenticated and status == 2:
        return ("C35:combined-sc-%s-selected:just-works-exchange-reported-authenticated" % alg,
                "%s: %s selected, the Just Works exchange (r = 0, no user, no pass key) completed and the link is reported %s" % (where, alg, STATUS[status]))
    if sel[0] == "lesc" and mgr == 1 and authenticated and status == 1:
        return ("C35:lesc-only-numeric-comparison-confirmed-reported-unauthenticated",
                "%s: numeric comparison confirmed by the user (%s), reported %s" % (where, USER[user], STATUS[status]))
    return ("C35:status-mismatch:%s:%s:%s:reported-%s:exchange-%s" % (MGR[mgr], sel[0], alg, STATUS[status], "authenticated" if authenticated else "unauthenticated"),
            "%s: completed %s pairing (%s, central TK %s, user %s) reported %s" % (where, sel[0], alg, TK[tk], USER[user], STATUS[status]))


# --- several pairings on one connection object ------------------------------------------------
# kinds of pairing attempts: (cbhas, io, oobflag, authreq, tk, user)
LEGACY_KINDS = {"jw": (0, 3, 0, 0, 0, 0), "pk": (0, 4, 0, 0, 1, 0), "pk2": (0, 2, 0, 0, 1, 0), "oob": (1, 3, 1, 0, 2, 0)}
LESC_KINDS = {"jw": (0, 3, 0, 8, 0, 0), "nc": (0, 1, 0, 8, 0, 4), "nc1": (0, 1, 0, 8, 0, 1), "nc3": (0, 4, 0, 8, 0, 3)}
LEGACY_FAIL = (0, 3, 0, 0, 3, 0)      # Just Works selected, the central uses a wrong TK: confirm value failed
LESC_FAIL = (0, 1, 0, 8, 0, 2)        # display + yes/no: numeric comparison, the user says no
LESC_REJECT = (0, 3, 0, 0, 0, 0)      # LESC-only manager: a request without the SC bit is rejected (in idle)
SESSION_CFGS = {0: [0, 3, 5], 1: [0, 4], 2: [0, 3, 4]}     # manager -> IO configurations
SEPARATORS = ["R", "RF", "P", "X", "RX"]


def step_op(k):
    return "step %d %d %d %d %d %d" % k


def session_kinds(mgr, cfg, quick):
    ks = []
    if mgr != 1:
        names = ["jw", "pk", "oob"] + ([] if quick else ["pk2"])
        ks += [LEGACY_KINDS[n] for n in names]
    if mgr != 0:
        names = ["jw", "nc"] + (["nc1"] if cfg == 4 else []) + ([] if quick or cfg != 4 else ["nc3"])
        ks += [LESC_KINDS[n] for n in names]
    return ks


def separator_ops(sep, mgr, cfg, nxt):
    """what happens between two pairings: R = the next Pairing Request is rejected (pairing is not idle) and resets
    pairing; RF = the same followed by a failed pairing attempt; P = the peer's Pairing Failed; X = new connection;
    RX = rejected request, then a new connection"""
    fail = LEGACY_FAIL if mgr != 1 else LESC_FAIL if cfg == 4 else LESC_REJECT
    if mgr == 2 and cfg == 4 and nxt[3] & 8 == 0:
        fail = LESC_FAIL
    return {"R": [step_op(nxt)], "RF": [step_op(nxt), step_op(fail)], "P": ["peerfail"], "X": ["reset"],
            "RX": [step_op(nxt), "reset"]}[sep]


def c35_sessions(ctx):
    """2 and 3 pairings on one connection: every ordered pair of kinds (authenticated <-> Just Works, legacy and LESC,
    all three managers) x every separator; triples: all (thorough) / a random sample (quick)"""
    import itertools
    quick = not ctx.thorough
    sessions = []
    for mgr, cfgs in sorted(SESSION_CFGS.items()):
        for cfg in cfgs:
            ks = session_kinds(mgr, cfg, quick)
            head = "open %d %d 0 1" % (mgr, cfg)
            for a, b in itertools.product(ks, repeat=2):
                for sep in SEPARATORS:
                    sessions.append([head, step_op(a)] + separator_ops(sep, mgr, cfg, b) + [step_op(b)])
            triples = [(a, b, c, s1, s2) for a, b, c in itertools.product(ks, repeat=3) for s1 in SEPARATORS for s2 in SEPARATORS]
            if quick:
                triples = ctx.rng.sample(triples, min(len(triples), 40))
            for a, b, c, s1, s2 in triples:
                sessions.append([head, step_op(a)] + separator_ops(s1, mgr, cfg, b) + [step_op(b)] + separator_ops(s2, mgr, cfg, c) + [step_op(c)])
    return sessions


def status_class(status):
    return "authenticated" if status in (2, 3) else "unauthenticated" if status == 1 else "no_key"


def monitor_session(ops, outs):
    """C35 over a history on one connection: the status reported after every operation is compared with what the LAST
    completed exchange authenticated (judged as in monitor_pair from what the central needed / the user did); after
    anything else (rejected request, failed attempt, peer Pairing Failed, new connection) it has to be no_key"""
    hits, head, earlier = [], None, []
    for k, (op, out) in enumerate(zip(ops, outs)):
        w = op.split()
        if w[0] == "open":
            head, earlier = w[1:5], []
            continue
        if head is None or w[0] not in ("step", "peerfail", "reset"):
            continue
        if w[0] in ("peerfail", "reset"):
            try:
                status = int(dict(x.split("=", 1) for x in out.split())["status"])
            except Exception:
                hits.append(("C35:bad-output", "unparsable: " + out, k))
                continue
            if status != 0:
                hits.append(("C35:key-reported-without-completed-pairing:%s" % MGR[int(head[0])],
                             "%s after %s reported although no pairing completed since (earlier on this connection: %s)"
                             % (STATUS[status], w[0], ", ".join(earlier) or "nothing"), k))
            if w[0] == "reset":
                earlier = []
            continue
        pair_op = "pair %s %s" % (" ".join(head), " ".join(w[1:]))
        hit = monitor_pair(pair_op, out)
        try:
            sel, kv = parse_pair(out)
            done, status = kv["done"] == "1", int(kv["status"])
        except Exception:
            hits.append((hit[0], hit[1], k) if hit else ("C35:bad-output", "unparsable: " + out, k))
            continue
        known_class = hit is not None and hit[0].startswith("C35:combined-sc-") and "just_works" not in hit[0]
        if hit and not known_class and earlier and (status_class(status) in earlier or not done):
            hits.append(("C35:status-of-earlier-pairing-reported",
                         "%s/%s: %s reported after %s [%s]; it is the status of an earlier pairing on this connection (%s) -- %s"
                         % (MGR[int(head[0])], CFG[int(head[1])], STATUS[status], "a completed pairing" if done else "an attempt that did not complete",
                            out.split(" done=")[0], ", ".join(earlier), hit[1]), k))
        elif hit:
            hits.append((hit[0], hit[1], k))
        if done and kv.get("chk") == "1":
            # what this exchange authenticated, independent of what is reported
            mgr, cbhas, tk, user = int(head[0]), int(w[1]), int(w[5]), int(w[6])
            if sel[0] == "legacy":
                a = (tk == 1 and (kv["shown"] == "1" or kv["kbd"] == "1")) or (tk == 2 and cbhas == 1 and kv["oobq"] != "0")
            else:
                a = kv["asked"] == "1" and kv["shown"] == "1" and user in (1, 3, 4)
            earlier.append("authenticated" if a else "unauthenticated")
    return hits


def proj_c35(op, line):
    """C35 is about completion and status: the three Pairing Response bytes (C36's subject) are
    not compared, so a mutation of the advertised capabilities does not fail this property"""
    w = line.split()
    if w and w[0] in ("legacy", "lesc") and len(w) > 5:
        return " ".join(w[:2] + w[5:])
    return line


def c35_ops(ctx):
    """complete pairings: legacy half x 4 central TKs, LESC half x 7 user behaviours"""
    full, sample = [], []
    auth_quick = [0, 4, 8, 12]
    auth_all = [0, 1, 4, 5, 8, 9, 12, 13, 16, 28, 29, 0x20, 0xe8]
    for (m, cfg, mi, o) in manager_types():
        for cb in (0, 1):
            for io in range(5):
                for oob in (0, 1):
                    for a in auth_all:
                        lesc = (m != 0) and bool(a & 8)
                        rejected = m == 1 and not (a & 8)
                        core = a in auth_quick and (mi == 0 or a == 8 or a == 0)
                        if rejected:
                            variants = [(0, 0)]
                        elif lesc:
                            variants = [(0, u) for u in range(7)]
                        else:
                            variants = [(t, 0) for t in range(4)] + [(1, 4)]
                        for (t, u) in variants:
                            op = "pair %d %d %d %d %d %d %d %d %d %d" % (m, cfg, mi, o, cb, io, oob, a, t, u)
                            (full if core else sample).append(op)
    return full, sample


def run_c35(ctx, replay_path=None):
    res = Result()
    res.rule = ("complete pairings driven by a central implemented in the harness against the real managers with the real host crypto: for every "
                "instantiated <manager, IO configuration, MITM option, OOB option> x OOB callback answer x remote IO capability x OOB flag x AuthReq, "
                "the legacy exchange (Request, Confirm, Random) with each of 4 central TKs (zero / the pass key / the OOB data / a wrong value) and the "
                "LESC exchange (Request, Public Key, Confirm, Random, DHKey Check with r = 0) with each of 7 user behaviours (never / yes / no, at "
                "once / before / after the DHKey check); the status is sampled after every step. quick: all of these for AuthReq in {0,4,8,12} on the "
                "types without MITM option plus a random third of the rest; thorough: everything incl. 9 more AuthReq bytes. The monitor decides "
                "'authenticated' from what the central needed (a TK the user / OOB channel carried, or a shown + confirmed comparison value), "
                "never from the selected algorithm. Plus sessions of 2-3 pairings on ONE connection object (open / step / peerfail / reset): every "
                "ordered pair of pairing kinds (legacy Just Works / pass key / OOB, LESC Just Works / numeric comparison) for the three managers "
                "x 5 separators (the next request rejected because pairing is not idle, that plus a failed attempt, the peer's Pairing Failed, "
                "a new connection, rejected request + new connection), triples sampled (quick) / all (thorough); the status reported after "
                "every operation is compared with what the LAST completed exchange authenticated. "
                "non-trivial = completed pairings; distinct = distinct completed scenarios")
    corpus = [ops for _, ops in ctx.corpus()]
    full, sample = c35_ops(ctx)
    if not ctx.thorough:
        full = [op for op in full if ctx.rng.random() < 0.6 or op.split()[3] == "0"]
        sample = [op for op in sample if ctx.rng.random() < 0.04]
    ops = full + sample
    ctx.rng.shuffle(ops)
    multi = c35_sessions(ctx)
    sessions = corpus + chunks(ops, 128) + multi
    impl, model, dis = ctx.run_pair(sessions, proj_c35)
    for d in dis[:20]:
        res.disagreements.append(dict(d, ops=[d["op"]]))
    seen = {}
    for s_ops, r in zip(sessions, impl):
        res.sessions += 1
        res.evaluations += len(r["out"])
        if r["crash"]:
            res.failures.append({"key": "C35:crash:" + r["crash"].split(" @")[0], "what": r["crash"], "ops": s_ops[:len(r["out"]) + 1]})
        for key, what, k in monitor_session(s_ops, r["out"]):
            seen.setdefault(key, 0)
            seen[key] += 1
            if seen[key] <= 2:
                res.failures.append({"key": key, "what": what, "ops": s_ops[:k + 1], "observed": r["out"][k]})
        if any(o.startswith("open") for o in s_ops):
            n_done = sum(1 for o in r["out"] if " done=1 " in o)
            res.count("pairings_on_one_connection_completed_%d" % min(n_done, 3))
            if n_done >= 2:
                res.distinct.add(tuple(s_ops))
        for op, out in zip(s_ops, r["out"]):
            if not op.startswith("pair"):
                continue
            hit = monitor_pair(op, out)
            try:
                sel, kv = parse_pair(out)
                res.count("%s_%s" % (sel[0], "completed" if kv["done"] == "1" else "ended_" + kv["fail"]))
                res.count("status_" + STATUS[int(kv["status"])])
                if kv["done"] == "1":
                    res.distinct.add(op)
            except Exception:
                pass
            if hit:
                seen.setdefault(hit[0], 0)
                seen[hit[0]] += 1
                if seen[hit[0]] <= 2:
                    res.failures.append({"key": hit[0], "what": hit[1], "ops": [op], "observed": out})
    res.extra["failing_scenarios_by_key"] = seen
    res.extra["sessions_with_several_pairings_on_one_connection"] = len(multi)
    res.samples = ["%s -> %s" % (o, r) for o, r in list(zip(sessions[-1], impl[-1]["out"]))[:4]]
    return res


PROPS = {
    "C36": dict(
        imports=["BluetoeModel.SmSelect.Props"],
        theorems=["BluetoeModel.SmSelect.io_table_matches_spec", "BluetoeModel.SmSelect.oob_rule_legacy",
                  "BluetoeModel.SmSelect.oob_rule_lesc", "BluetoeModel.SmSelect.auth_req_only_sc_bit",
                  "BluetoeModel.SmSelect.selection_matches_spec_iff", "BluetoeModel.SmSelect.selection_matches_spec_partial",
                  "BluetoeModel.SmSelect.selection_matches_spec_with_local_mitm"],
        witnesses=["BluetoeModel.SmSelect.mitm_ignored_witness", "BluetoeModel.SmSelect.oob_not_advertised_witness",
                   "BluetoeModel.SmSelect.selection_matches_spec_full_witness"],
        run=run_c36,
        level="proof",
        technique="Lean 4: the complete finite selection table decided by kernel evaluation and lifted to the universally quantified statement against an independently transcribed specification table + exhaustive correspondence with the real code",
        level_text="Theorem io_table_matches_spec: for all 6 local IO configurations and all 5 remote IO capabilities select_legacy_/select_lesc_pairing_algorithm return the responder's part of the Core Spec Table 2.8 cell and get_io_capabilities is the Table 2.5 entry. Theorem selection_matches_spec_iff: over the complete domain (3 managers x 6 IO configurations x MITM option x OOB option x callback answer x 5 IO capabilities x OOB flag x 16 AuthReq values) the selection made by the request handlers agrees with Tables 2.6-2.8 applied to the exchanged request/response exactly outside two named deviation classes (MITM bits ignored; combined manager selects OOB on local data it does not advertise); both classes are witnessed and listed as known findings. The model is tied to the code exhaustively: the harness evaluates the real functions and the real request handlers on the whole domain (all 256 AuthReq bytes in the thorough tier).",
        level_note="Trusted: Lean kernel (decide +kernel, no extra axioms); my transcription of Tables 2.5-2.8 (twice, Lean and Python, independently); lesc_security_manager / security_manager do not compile with pairing_keyboard, so for those managers 4 of 6 IO configurations exist; bonding / keypress options are not instantiated (they only add bits to the response AuthReq).",
        design_ref="§5 C36",
        assumptions=["maximum key size 16, key distribution 0 in every request (not read by the selection)",
                     "specification inputs = the fields of the exchanged Pairing Request / Response"],
    ),
    "C35": dict(
        imports=["BluetoeModel.SmSelect.StatusProps"],
        theorems=["BluetoeModel.SmSelect.authenticated_iff_authenticated_exchange_iff",
                  "BluetoeModel.SmSelect.authenticated_iff_authenticated_exchange_partial",
                  "BluetoeModel.SmSelect.no_key_iff_not_completed", "BluetoeModel.SmSelect.legacy_status_correct",
                  "BluetoeModel.SmSelect.lesc_status_correct_iff", "BluetoeModel.SmSelect.legacy_authenticated_sound",
                  "BluetoeModel.SmSelect.lesc_only_status_correct", "BluetoeModel.SmSelect.lesc_only_nc_authenticated",
                  "BluetoeModel.SmSelect.status_reflects_last_pairing", "BluetoeModel.SmSelect.hinv_step"],
        witnesses=["BluetoeModel.SmSelect.oob_flag_witness",
                   "BluetoeModel.SmSelect.authenticated_iff_authenticated_exchange_full_witness"],
        run=run_c35,
        level="proof",
        technique="Lean 4 proof over all scenarios (configuration x request x central TK x user behaviour) about a model of selection + executed exchange + status function, partial with exact extent + differential correspondence on complete pairings against the real managers with real crypto",
        level_text="Theorem authenticated_iff_authenticated_exchange_iff: for every existing configuration and every scenario the reported status is authenticated exactly after an exchange that authenticated the peer, unauthenticated exactly after a completed exchange that did not, no_key exactly when nothing completed — except in exactly one class, witnessed on the real code: combined manager + SC request that selects OOB / pass key entry (a Just Works exchange is executed and reported authenticated_key). lesc_only_status_correct: full strength for lesc_security_manager (with fix smsel-01: authenticated_key after a confirmed numeric comparison; the code without the fix is reported as C35:lesc-only-numeric-comparison-confirmed-reported-unauthenticated). no_key_iff_not_completed holds at full strength. The model is tied to the code by driving complete pairings (legacy with 4 central TKs, LESC with 7 user behaviours) through the real managers.",
        level_note="Trusted: Lean kernel; ideal cryptography in the model (a confirm / DHKey check passes iff both sides used the same inputs) — the harness runs the real AES-128 / P-256 and the central re-checks Sconfirm, Cb, Eb and the resulting key (chk=1 on every completed pairing); test tool box constants (fixed pass key 19655, fixed nonces / key pair of tests/security_manager/test_sm.hpp); key size / key distribution fields fixed.",
        design_ref="§5 C35",
        assumptions=["pass key and OOB data are non-zero (a zero pass key is indistinguishable from Just Works)",
                     "the central follows the message order of a complete pairing (out-of-order input is C32)"],
    ),
}
