"""C04 — attribute handles consistent with the declared database
(bluetoe/attribute_handle.hpp, service.hpp, characteristic.hpp)"""
from vlib.core import Result
from comp import attfamily as F

NAME = "atthandles"
LEAN_MODULE = "BluetoeModel.AttHandles"
DRIVER = "drv_atthandles"
HARNESS_DESC = "harness/atthandles.cpp (real details::handle_index_mapping<> / attribute_at / server<>::l2cap_input of 24 generated server types)"
FLAGS = ["-O0", "-fsanitize=address,undefined", "-fno-sanitize-recover=all", "-fno-omit-frame-pointer", "-w"]
HARNESS = dict(src="harness/atthandles.cpp", flags=FLAGS)

INV = None


def n_attrs(server):
    return sum(1 + len(s["includes"]) + sum(F.char_nattrs(c) for c in s["chars"]) for s in server)


def has_includes(server):
    return any(s["includes"] for s in server)


def parse_rle(txt):
    out = []
    for part in txt.split(","):
        v, n = part.split("*")
        out += [INV if v == "inv" else int(v)] * int(n)
    return out


def layout(server):
    """positions the *declaration* fixes: list of (index, expected handle, what); plus index of every
    service declaration and, per include attribute, (index, included service position)"""
    fixed, svc_idx, incl = [], [], []
    i = 0
    for s in server:
        svc_idx.append(i)
        if s["fixed"] is not None:
            fixed.append((i, s["fixed"], "service attribute_handle<0x%04x>" % s["fixed"]))
        i += 1
        for u in s["includes"]:
            pos = next(k for k, t in enumerate(server) if t["uuid"] == u)
            incl.append((i, pos, u))
            i += 1
        for c in s["chars"]:
            f = c["fixed"]
            n = F.char_nattrs(c)
            if isinstance(f, int):
                fixed += [(i + k, f + k, "characteristic attribute_handle<0x%04x> +%d" % (f, k)) for k in range(n)]
            elif f is not None:
                fixed += [(i, f[0], "attribute_handles<> declaration"), (i + 1, f[1], "attribute_handles<> value")]
                if n > 2:
                    third = f[2] if f[2] else f[1] + 1
                    fixed += [(i + 2 + k, third + k, "attribute_handles<> third attribute +%d" % k) for k in range(n - 2)]
            i += n
    return fixed, svc_idx, incl


def monitor(k, server, hbi, fibh, ibh, attr, lo):
    """independent oracle: the property statement evaluated on what the real templates produced.
    hbi: handles by index; fibh/ibh: lookups for handles lo..lo+len-1; attr: per index
    (handle, uuid16, rc, value bytes) or None when the read crashed. Returns [(key, what)]."""
    fails = []
    inc = has_includes(server)
    tag = "include:" if inc else ""
    n = len(hbi)
    if any(h == 0 or h > 0xffff for h in hbi) or any(a >= b for a, b in zip(hbi, hbi[1:])):
        fails.append(("C04:%shandles-not-unique-nonzero-increasing" % tag,
                      "S%d handle_by_index(0..%d) = %s" % (k, n - 1, hbi)))
    fixed, svc_idx, incl = layout(server)
    for i, h, what in fixed:
        if hbi[i] != h:
            fails.append(("C04:%sfixed-handle-not-honoured" % tag, "S%d %s: attribute %d has handle %d, declared %d" % (k, what, i, hbi[i], h)))
            break
    for off, (f, x) in enumerate(zip(fibh, ibh)):
        h = lo + off
        exp_f = next((i for i, hh in enumerate(hbi) if hh >= h), INV) if h else 0
        exp_i = next((i for i, hh in enumerate(hbi) if hh == h), INV)
        if h and f != exp_f:
            fails.append(("C04:%sfirst-index-by-handle" % tag, "S%d first_index_by_handle(%d) = %s, least index with handle >= it is %s" % (k, h, f, exp_f)))
            break
        if h and x != exp_i:
            fails.append(("C04:%sindex-by-handle" % tag, "S%d index_by_handle(%d) = %s, the attribute with that handle has index %s" % (k, h, x, exp_i)))
            break
    for i, a in enumerate(attr):
        if a is None:
            fails.append(("C04:%sattribute-read-crashes" % tag, "S%d reading attribute %d aborts" % (k, i)))
            continue
        handle, uuid, rc, val = a
        if uuid == 0x2803:
            vh = val[1] | (val[2] << 8) if len(val) >= 3 else -1
            nxt = attr[i + 1] if i + 1 < n else None
            ok = i + 1 < n and vh == hbi[i + 1] and vh != 0
            if ok and nxt is not None:
                ok = (nxt[1] == (val[3] | (val[4] << 8))) if len(val) == 5 else (nxt[1] == 1 and len(val) == 19)
            if not ok:
                fails.append(("C04:%schar-declaration-value-handle" % tag, "S%d characteristic declaration %d names value handle %d, the next attribute has handle %s" % (k, i, vh, hbi[i + 1] if i + 1 < n else None)))
    for i, pos, u in incl:
        a = attr[i]
        if a is None:
            continue
        val = a[3]
        s_i = svc_idx[pos]
        first, last = hbi[s_i], hbi[s_i + n_attrs([server[pos]]) - 1]
        exp = bytes([first & 0xff, first >> 8, last & 0xff, last >> 8]) + (F.uuid_bytes(u) if u[0] == "16" else b"")
        if a[1] != 0x2802 or val != exp:
            fails.append(("C04:include:declaration-names-wrong-range", "S%d include attribute %d reads %s, the included service is %04x..%04x" % (k, i, val.hex(), first, last)))
    return fails


def probe_handles(hbi):
    """dense set for the access-by-handle probe: every table handle -2..+2 (= every hole boundary),
    the middle of every hole, 0, 1, 2, behind the table, 0xFFFE, 0xFFFF"""
    hs = {0, 1, 2, 0xfffe, 0xffff}
    for h in hbi:
        hs.update(range(h - 2, h + 3))
    for a, b in zip(hbi, hbi[1:]):
        if b - a > 4:
            hs.add((a + b) // 2)
    return sorted(h for h in hs if 0 <= h <= 0xffff)


def parse_acc(line):
    w = dict(x.split(":", 1) for x in line.split())
    return w["r"], w["b"], w["w"], w["f"]


def monitor_access(k, hbi, attr, h, line):
    """access BY HANDLE through l2cap_input, judged against the real table only: a handle that no
    attribute has is Invalid Handle (Read, Read Blob, Write) / Attribute Not Found (Find Information
    h..h) and never another attribute; an existing handle reaches exactly the attribute that has it"""
    try:
        r, b, w, f = parse_acc(line)
    except (ValueError, KeyError):
        return [("C04:access-by-handle:unparsable", "S%d acc %d -> %s" % (k, h, line[:120]))]
    hx = "%04x" % h
    le = "%02x%02x" % (h & 0xff, h >> 8)
    idx = [i for i, x in enumerate(hbi) if x == h]
    if not idx or h == 0:
        bad = [n for n, v in (("Read", r), ("Read Blob", b), ("Write", w)) if v != "inv"]
        nf = "0104%s%s" % (le, "01" if h == 0 else "0a")
        if bad:
            nxt = next((x for x in hbi if x > h), None)
            return [("C04:access-by-handle:no-such-handle-is-served", "S%d handle 0x%s has no attribute (next attribute handle %s) but %s answered %s instead of Invalid Handle"
                     % (k, hx, "0x%04x" % nxt if nxt else "none", "/".join(bad), {"Read": r, "Read Blob": b, "Write": w}[bad[0]][:60]))]
        if f != nf:
            return [("C04:access-by-handle:find-information-no-such-handle", "S%d Find Information %s..%s -> %s, expected %s" % (k, hx, hx, f, nf))]
        return []
    i = idx[0]
    a = attr[i]
    fails = []
    if "inv" in (r, b, w):
        fails.append(("C04:access-by-handle:existing-handle-invalid", "S%d handle 0x%s is attribute %d but Read/Read Blob/Write -> %s %s %s" % (k, hx, i, r, b, w)))
    for n, v in (("Read", r), ("Read Blob", b), ("Write", w)):
        if "@" in v and v.split("@")[1] != hx:
            fails.append(("C04:access-by-handle:error-names-other-handle", "S%d %s of handle 0x%s -> %s" % (k, n, hx, v)))
    if a is not None:
        handle, uuid, rc, val = a
        if rc == 0 and r != "ok:" + (val[:22].hex() or "-"):
            fails.append(("C04:access-by-handle:wrong-attribute", "S%d Read of handle 0x%s -> %s, attribute %d (which has that handle) reads %s" % (k, hx, r, i, val.hex())))
        if rc == 0 and b != r:
            fails.append(("C04:access-by-handle:wrong-attribute", "S%d Read Blob(0) of handle 0x%s -> %s, Read -> %s" % (k, hx, b, r)))
        if rc != 0 and (r.startswith("ok") or b.startswith("ok")):
            fails.append(("C04:access-by-handle:wrong-attribute", "S%d handle 0x%s is attribute %d which refuses reads, Read -> %s" % (k, hx, i, r)))
        ok_f = f.startswith("0501" + le + "%02x%02x" % (uuid & 0xff, uuid >> 8)) and len(f) == 12 if uuid != 1 else (f.startswith("0502" + le) and len(f) == 40)
        if not ok_f:
            fails.append(("C04:access-by-handle:find-information-wrong-attribute", "S%d Find Information %s..%s -> %s, attribute %d has type %04x" % (k, hx, hx, f, i, uuid)))
    return fails


def run_c04(ctx, replay_path=None):
    F.check_header_current()
    res = Result()
    fam = F.family()
    res.rule = ("for each of the %d generated server types (declaration value and C++ type come from the same description): "
                "handle_by_index(i) for all i (and two indices behind the table), attribute_at(i) type + read value for all i, and "
                "first_index_by_handle(h)/index_by_handle(h) for EVERY h in 0..0xFFFF (thorough; quick: 0..0x0140 and every handle "
                "-2..+2 around each attribute, 0x7FF0..0x8010, 0xFEF0..0xFFFF) are computed by the real templates and by the Lean model "
                "and compared; access BY HANDLE: for every handle -2..+2 around each real attribute handle, the middle of every hole, 0, 1, 2, "
                "0xFFFE, 0xFFFF (thorough: + 0..0x140 + 300 random) a Read Request, Read Blob (offset 0), Write Request (writes back the value "
                "read) and Find Information h..h go through the real l2cap_input (fresh connection, MTU 23) and are compared with the model "
                "(accessIndex / findInfoIndex); an independent Python monitor evaluates the property on the real outputs. distinct = attributes + "
                "handles looked up + handles accessed" % len(fam))
    corpus = ctx.corpus()
    sessions, meta = [], []
    for name, ops in corpus:
        sessions.append(ops)
        meta.append(("corpus", name))
    for k, (name, server) in enumerate(fam):
        head = "server %d %s" % (k, F.decl_tokens(server))
        n = n_attrs(server)
        sessions.append([head] + ["hbi %d" % i for i in range(n + 2)])
        meta.append(("hbi", k))
        if ctx.thorough:
            ranges = [(0, 0xffff)]
        else:
            ranges = [(0, 0x0140), (0x7ff0, 0x8010), (0xfef0, 0xffff)]
        sessions.append([head] + ["sweep %d %d" % r for r in ranges])
        meta.append(("sweep", k, ranges))
        for i in range(n):
            sessions.append([head, "attr %d" % i])
            meta.append(("attr", k, i))
    # access-by-handle probe: the dense handle set is built from the REAL handles (one extra pass);
    # include_service<> types are left out (their mapping is a known finding and reads assert)
    hb_sessions = [(k, ["server %d %s" % (k, F.decl_tokens(server))] + ["hbi %d" % i for i in range(n_attrs(server))])
                   for k, (name, server) in enumerate(fam) if not has_includes(server)]
    for (k, ops), r in zip(hb_sessions, ctx.run_impl([o for _, o in hb_sessions])):
        if r["crash"] or len(r["out"]) != len(ops) or not r["out"][0].startswith("ok"):
            continue
        real = [int(x) for x in r["out"][1:]]
        hs = probe_handles([h for h in real if h])
        if ctx.thorough:
            hs = sorted(set(hs) | set(range(0, 0x0141)) | set(ctx.rng.randrange(0x10000) for _ in range(300)))
        sessions.append([ops[0]] + ["acc %d" % h for h in hs])
        meta.append(("acc", k, hs))
    impl = ctx.run_impl(sessions)
    model = ctx.run_model(sessions)
    per = {}
    for si, (ops, a, b, m) in enumerate(zip(sessions, impl, model, meta)):
        res.sessions += 1
        res.evaluations += len(a["out"])
        res.count(m[0])
        if b["crash"]:
            res.disagreements.append({"ops": ops, "op_index": len(b["out"]), "op": ops[-1], "impl": None, "model": "MODEL DRIVER FAILED " + b["crash"]})
            continue
        if m[0] == "corpus":
            for j, (x, y) in enumerate(zip(a["out"], b["out"])):
                if x != y:
                    res.disagreements.append({"ops": ops, "op_index": j, "op": ops[j], "impl": x, "model": y})
                    break
            continue
        k = m[1]
        st = per.setdefault(k, {"hbi": None, "fibh": [], "ibh": [], "attr": {}, "lo": 0})
        if a["crash"]:
            # the library's own assert / a sanitizer abort: a monitor result, not a model disagreement
            res.count("impl_aborts")
            if m[0] == "attr":
                st["attr"][m[2]] = None
                st.setdefault("crash", []).append((ops, a["crash"]))
            else:
                res.failures.append({"key": "C04:crash:" + m[0], "what": a["crash"], "ops": ops})
            continue
        for j, (x, y) in enumerate(zip(a["out"], b["out"])):
            if x != y:
                res.disagreements.append({"ops": ops, "op_index": j, "op": ops[j], "impl": x[:300], "model": y[:300]})
                break
        if a["out"][0].startswith("ok") is False:
            res.failures.append({"key": "C04:harness-refused-declaration", "what": a["out"][0], "ops": ops[:1]})
            continue
        if m[0] == "hbi":
            st["hbi"] = [int(x) for x in a["out"][1:]]
        elif m[0] == "sweep":
            st["ranges"] = m[2]
            st["sweeps"] = []
            for (lo, hi), line in zip(m[2], a["out"][1:]):
                w = line.split()
                st["sweeps"].append((lo, parse_rle(w[1]), parse_rle(w[3])))
        elif m[0] == "acc":
            st["acc"] = list(zip(m[2], a["out"][1:]))
        elif m[0] == "attr":
            w = a["out"][1].split()
            st["attr"][m[2]] = (int(w[0]), int(w[1], 16), int(w[2]), bytes.fromhex(w[3]) if w[3] != "-" else b"")
    for k, st in sorted(per.items()):
        server = fam[k][1]
        n = n_attrs(server)
        if st["hbi"] is None or "sweeps" not in st:
            continue
        hbi = st["hbi"][:n]
        behind = st["hbi"][n:]
        attr = [st["attr"].get(i) for i in range(n)]
        fails = []
        if any(behind):
            fails.append(("C04:handle-behind-table", "S%d handle_by_index(n..) = %s" % (k, behind)))
        for lo, f, x in st["sweeps"]:
            fails += monitor(k, server, hbi, f, x, attr, lo) if lo == st["sweeps"][0][0] else \
                [z for z in monitor(k, server, hbi, f, x, attr, lo) if "index-by-handle" in z[0]]
            res.distinct.update((k, "h", lo + j) for j in range(0, len(f), 1 if len(f) < 2000 else 97))
        acc_fails = []
        for h, line in st.get("acc", []):
            res.count("acc_" + ("existing" if h in hbi else "no_attribute"))
            res.distinct.add((k, "acc", h))
            acc_fails += [(key, what, h) for key, what in monitor_access(k, hbi, attr, h, line)]
        res.distinct.update((k, "a", i) for i in range(n))
        res.count("servers_with_includes", has_includes(server))
        seen = set()
        for key, what in fails:
            if key in seen:
                continue
            seen.add(key)
            ops = ["server %d %s" % (k, F.decl_tokens(server))]
            res.failures.append({"key": key, "what": what, "ops": ops, "input": "server type S%d: %s" % (k, fam[k][0])})
        seen = set()
        for key, what, h in acc_fails:
            if key in seen:
                continue
            seen.add(key)
            res.failures.append({"key": key, "what": what, "ops": ["server %d %s" % (k, F.decl_tokens(server)), "acc %d" % h],
                                 "input": "server type S%d (%s), handle 0x%04x: Read 0a, Read Blob 0c (offset 0), Write 12, Find Information 04 h..h, MTU 23" % (k, fam[k][0], h)})
    res.exhaustive = bool(ctx.thorough)
    res.samples = [" ; ".join(x[:90] for x in s[:4]) for s in sessions[:3]]
    res.extra["server_types"] = ["S%d %s" % (k, nm) for k, (nm, _) in enumerate(fam)]
    return res


THEOREMS = ["handles_strict_mono", "handles_nonzero", "handles_length", "handles_getElem", "first_index_count", "first_index_spec",
            "index_handle_inverse", "index_by_handle_sound", "access_by_handle_exact", "access_by_handle_hole",
            "find_info_single_exact", "fixed_honoured_service", "fixed_honoured_characteristic",
            "fixed_honoured_start", "fixed_honoured_triple", "char_decl_names_value_handle"]
WITNESSES = ["handles_consistent_full_witness", "include_handle_is_invalid", "include_char_decl_names_handle_zero",
             "include_range_ignores_fixed_handles"]

PROPS = {
    "C04": dict(
        theorems=["BluetoeModel.AttHandles." + t for t in THEOREMS],
        witnesses=["BluetoeModel.AttHandles." + t for t in WITNESSES],
        run=run_c04,
        level="proof",
        technique="Lean 4 proof over every server declaration value (handle list refinement of the recursive mapping templates) + exhaustive-per-type differential correspondence with the real templates",
        level_text="For every declaration that satisfies the templates' static_asserts, keeps its handles below 0xFFFF and does not use include_service<>: handles are unique, non-zero, strictly increasing in declaration order, fixed handles are honoured, first_index_by_handle/index_by_handle are exact inverses of handle_by_index, a request addressed to handle h (check_handle: Read, Read Blob, Write, Prepare Write; Find Information h..h) is served by attribute i iff i is an attribute whose handle is exactly h - a handle in a hole, 0 or behind the table is Invalid Handle / Attribute Not Found and never aliases another attribute (access_by_handle_exact, find_info_single_exact) -, and every characteristic declaration names the handle under which its own value attribute is found. For include_service<> the property is false of the code (witness theorems + replay on the real templates, known findings).",
        level_note="Trusted: Lean kernel + standard axioms; the model equals the templates as far as the differential check covers it (24 server types, all indices, all 65536 handles per type in the thorough tier); declaration value and C++ type are generated from one description. Not covered: declarations reaching handle 0xFFFF (uint16 end_handle wraps), auto-generated characteristic UUIDs, the GAP service added by default.",
        design_ref="§5 C04",
        assumptions=["declaration satisfies the static_asserts (it compiles) and its last handle is below 0xFFFF",
                     "theorems other than fixed_honoured_* assume no include_service<> (known finding)"],
    ),
}
