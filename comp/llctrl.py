"""C27 / C28 / C29 — link layer control PDU handling, encryption start, connection callbacks
(bluetoe/link_layer/include/bluetoe/link_layer.hpp, connection_callbacks.hpp)"""
from vlib.core import Result

NAME = "llctrl"
LEAN_MODULE = "BluetoeModel.LlControl"
DRIVER = "drv_llctrl"
HARNESS_DESC = "harness/llctrl.cpp (real link_layer<> on tests/test_tools/test_radio, one radio callback per op)"
HARNESS = dict(
    src="harness/llctrl.cpp",
    repo_srcs=["tests/test_tools/test_radio.cpp", "tests/test_tools/hexdump.cpp", "tests/test_tools/buffer_io.cpp",
               "tests/test_tools/address_io.cpp", "bluetoe/link_layer/channel_map.cpp",
               "bluetoe/link_layer/connection_details.cpp", "bluetoe/link_layer/delta_time.cpp",
               "bluetoe/utility/address.cpp"],
    includes=["tests/test_tools"],
    ldflags=["-lboost_unit_test_framework"],
)

# ------------------------------------------------------------------------------------------------
# PDU construction
# ------------------------------------------------------------------------------------------------
def le(v, n):
    return "".join("%02x" % ((v >> (8 * i)) & 0xff) for i in range(n))


def ctrl(opcode, payload=""):
    return "03%02x%s" % (opcode, payload)


def enc_req(ediv, rand, rng=None):
    skdm = rng.randrange(1 << 64) if rng else 0x7060504030201000
    ivm = rng.randrange(1 << 32) if rng else 0x3412bcab
    return ctrl(0x03, le(rand, 8) + le(ediv, 2) + le(skdm, 8) + le(ivm, 4))


START_ENC_RSP = ctrl(0x06)
PAUSE_ENC_REQ = ctrl(0x0a)
PAUSE_ENC_RSP = ctrl(0x0b)
ATT_READ = "02" + "030004000a0300"
ATT_VALUE = "02030004000b1147"
PING = ctrl(0x12)


def version_ind(v=9):
    return ctrl(0x0c, "%02x" % v + "aabb" + "ccdd")


def feature_req(f=0xff):
    return ctrl(0x08, le(f, 8))


def terminate(reason=0x13):
    return ctrl(0x02, "%02x" % reason)


def fields(line):
    """'tx=.. cb=.. st=..' -> dict; 'bad-op' -> {'bad': '1'}"""
    if "=" not in line:
        return {"bad": line}
    return dict(kv.split("=", 1) for kv in line.split())


def tx_list(f):
    t = f.get("tx", "-")
    return [] if t == "-" else t.split(",")


def cb_list(f):
    t = f.get("cb", "-")
    return [] if t == "-" else t.split(",")


def pdus_of(op):
    w = op.split()
    return w[1:] if w and w[0] == "ev" else []


def is_ctrl(p, opcode, size):
    return p[:2] == "03" and len(p) == 2 + 2 * size and int(p[2:4], 16) == opcode


# ------------------------------------------------------------------------------------------------
# C28
# ------------------------------------------------------------------------------------------------
SEC_OPCODES = {0x04, 0x05, 0x06, 0x0b, 0x0d, 0x11}


def proj_c28(op, line):
    f = fields(line)
    if "bad" in f:
        return line
    tx = ["atterr" if p.startswith("0205000400010a0300") else p for p in tx_list(f) if p[:2] == "02" or (p[:2] == "03" and (int(p[2:4], 16) in SEC_OPCODES
                                                                        or p[:4] == "0307" and p[4:6] in ("03", "06", "0a", "0b")))]
    return "tx=%s changed=%d adv=%d enc=%s rxe=%s txe=%s" % (
        ",".join(tx), cb_list(f).count("changed"), f.get("st") == "advertising", f.get("enc"), f.get("rxe"), f.get("txe"))


def gen_c28(rng, length):
    ops = ["reset 0"]
    known = [(rng.randrange(65536), rng.randrange(1 << 64)) for _ in range(rng.choice([1, 1, 2, 3]))]
    unknown = [(rng.randrange(65536), rng.randrange(1 << 64)) for _ in range(2)] + [(known[0][0], known[0][1] ^ 1), (known[0][0] ^ 1, known[0][1])]
    late = []
    for k in known:
        if rng.random() < 0.8:
            ops.append("key %d %d" % k)
        else:
            late.append(k)
    ops.append("connect 24 72")
    quiet = False    # after api disconnect: no further encryption procedure is started (see docs/llctrl.md)

    def pick():
        r = rng.random()
        if r < 0.20:
            return enc_req(*rng.choice(known), rng=rng)
        if r < 0.32:
            return enc_req(*rng.choice(unknown), rng=rng)
        if r < 0.54:
            return START_ENC_RSP
        if r < 0.62:
            return PAUSE_ENC_REQ
        if r < 0.70:
            return PAUSE_ENC_RSP
        if r < 0.85:
            return ATT_READ
        if r < 0.90:   # malformed encryption PDUs
            return rng.choice([START_ENC_RSP + "00", PAUSE_ENC_REQ + "01", PAUSE_ENC_RSP + "ff",
                               enc_req(*known[0])[:-2], enc_req(*known[0]) + "00", ctrl(0x04, "00" * 12), ctrl(0x05)])
        if r < 0.93:
            return terminate(rng.choice([0x13, 0x16, 0x3d]))
        return rng.choice([PING, feature_req(rng.choice([0xff, 0x01, 0x00, 0xfe])), version_ind(rng.choice([6, 9])),
                           ctrl(0x0d, "06"), ctrl(0x11, "0306"), ctrl(0x07, "05"), ctrl(0x16, "0101")])

    for _ in range(length):
        r = rng.random()
        if r < 0.72:
            if quiet:
                pdus = [] if rng.random() < 0.7 else [rng.choice([ATT_READ, PING, START_ENC_RSP, PAUSE_ENC_REQ])]
            else:
                pdus = [pick() for _ in range(rng.choice([0, 1, 1, 1, 1, 2, 2, 3]))]
            ops.append(("ev " + " ".join(pdus)).strip())
            if any(is_ctrl(p, 0x02, 2) for p in pdus) and rng.random() < 0.8:
                ops.append("connect 24 72")
                quiet = False
        elif r < 0.77:
            ops.append("to")
        elif r < 0.82:
            ops.append("api disconnect")
            quiet = True
        elif r < 0.90:
            ops.append("connect %d %d" % rng.choice([(24, 72), (16, 10), (3200, 3200)]))
            quiet = quiet and rng.random() < 0.5
        elif r < 0.94 and late:
            ops.append("key %d %d" % late.pop())
        elif r < 0.97:
            ops.append(rng.choice(["api version", "api phy 2 2", "api param 10 20 0 100", "adv"]))
        else:
            ops.append("ev")
    return ops


def monitor_c28(ops, outs):
    """the property statement evaluated on the implementation's outputs: whenever the link is
    reported encrypted (is_encrypted / protected value readable) there must have been, on this
    connection and since the last pause, an LL_ENC_REQ for an (EDIV, Rand) of the bond data base,
    then LL_START_ENC_REQ from the peripheral, then LL_START_ENC_RSP; pause / disconnect clear."""
    keys = set()
    key_supplied = start_req = started = False
    started_when_read = []      # value of `started` when an ATT read was handed to the link layer
    for k, (op, line) in enumerate(zip(ops, outs)):
        f = fields(line)
        w = op.split()
        if "bad" in f:
            continue
        if w[0] == "reset":
            keys = set()
            key_supplied = start_req = started = False
            started_when_read = []
        elif w[0] == "key":
            keys.add((int(w[1]), int(w[2])))
        elif w[0] == "connect":
            if f.get("r") == "1":
                key_supplied = start_req = started = False
                started_when_read = []
        elif w[0] == "api" and w[1] == "disconnect":
            key_supplied = start_req = started = False
            if f.get("enc") != "0" or f.get("rxe") != "0" or f.get("txe") != "0":
                return k, "C28:disconnect-keeps-encryption", "op %d `%s`: link still encrypted after disconnect(): %s" % (k, op, line)
        elif w[0] in ("ev", "to"):
            tx = tx_list(f)
            # 1. what the peripheral sent in this event (answers to earlier events)
            reads = started_when_read
            if w[0] == "ev":
                started_when_read = []
            for p in tx:
                if p == ctrl(0x05):
                    start_req = key_supplied
                if p == ATT_VALUE:
                    if not reads or not reads.pop(0):
                        return k, "C28:protected-value-readable-without-encryption-start", \
                            "op %d: the requires_encryption characteristic value was sent (%s) although no encryption start procedure with a supplied key had completed" % (k, p)
                elif p[:2] == "02" and reads:
                    reads.pop(0)
            # 2. what the central sent, in order
            closed = f.get("st") == "advertising"
            for p in pdus_of(op):
                if is_ctrl(p, 0x03, 23):
                    rand = int.from_bytes(bytes.fromhex(p[4:20]), "little")
                    ediv = int.from_bytes(bytes.fromhex(p[20:24]), "little")
                    key_supplied = (ediv, rand) in keys
                    start_req = False
                elif is_ctrl(p, 0x06, 1):
                    if key_supplied and start_req:
                        started = True
                elif is_ctrl(p, 0x0a, 1) or is_ctrl(p, 0x0b, 1):
                    started = False
                elif is_ctrl(p, 0x02, 2):
                    break
                elif p == ATT_READ:
                    started_when_read.append(started)
            if closed:
                key_supplied = start_req = started = False
                started_when_read = []
            # 3. the verdict
            if f.get("enc") == "1" and not started:
                last = [p for p in pdus_of(op)]
                kind = "bare-start-enc-rsp" if any(is_ctrl(p, 0x06, 1) for p in last) else "other"
                if f.get("st") == "disconnecting" and key_supplied:
                    # a key was supplied, but LL_START_ENC_REQ was dropped by the stopped PDU buffer
                    return k, "C28:start-enc-req-dropped-while-disconnecting", \
                        "op %d `%s`: after disconnect() + LL_TERMINATE_IND the PDU buffer drops LL_START_ENC_REQ, LL_START_ENC_RSP still reports the link encrypted for its last event (%s)" % (k, op[:60], line)
                return k, "C28:encrypted-without-key-and-start-req:" + kind, \
                    "op %d `%s`: link reported encrypted (%s) but no LL_ENC_REQ with a key of the bond data base followed by LL_START_ENC_REQ and LL_START_ENC_RSP happened on this connection" % (k, op[:60], line)
            if f.get("enc") == "0" and f.get("st") == "advertising" and (f.get("rxe") != "0" or f.get("txe") != "0"):
                return k, "C28:radio-encryption-survives-disconnect", "op %d: radio encryption flags set while advertising: %s" % (k, line)
    return None


def run_c28(ctx, replay_path=None):
    res = Result()
    res.rule = ("sessions = reset; bond data base of 1-3 (EDIV,Rand); CONNECT_IND; 20-70 ops: connection events carrying 0-3 PDUs "
                "(LL_ENC_REQ for known / unknown / near-miss keys, LL_START_ENC_RSP, LL_PAUSE_ENC_REQ/RSP, wrong-length variants, ATT Read of the "
                "requires_encryption characteristic, LL_TERMINATE_IND, other control PDUs), radio timeouts, disconnect(), re-connects, keys added late. "
                "Every session runs on the real link_layer<> (security impl + ATT server + test radio) and on the Lean model; compared: "
                "is_encrypted, radio rx/tx encryption, encryption related PDUs and ATT answers, `changed` callbacks. Independent monitor: "
                "encrypted / protected value readable only after ENC_REQ(known key) -> START_ENC_REQ -> START_ENC_RSP on this connection. "
                "non-trivial = session in which the link became encrypted at least once or an unknown key was rejected")
    sessions = [ops for _, ops in ctx.corpus()]
    n = 1500 if ctx.thorough else 220
    for i in range(n):
        sessions.append(gen_c28(ctx.rng, ctx.rng.randrange(20, 70)))
    evaluate(ctx, res, sessions, proj_c28, monitor_c28, "C28")
    for ops, r in zip(sessions, res.extra.pop("_impl")):
        enc = any(" enc=1" in l for l in r["out"])
        rej = any("03110306" in l or "030d06" in l for l in r["out"])
        res.count("sessions_with_encrypted_link", enc)
        res.count("sessions_with_rejected_unknown_key", rej)
        res.count("sessions_with_unexpected_start_enc_rsp_answered_unknown", any("030706" in l for l in r["out"]))
        if enc or rej:
            res.distinct.add(hash(tuple(ops)))
    return res


# ------------------------------------------------------------------------------------------------
# shared evaluation
# ------------------------------------------------------------------------------------------------
def run_pair_parallel(ctx, sessions, proj):
    """ctx.run_pair with the sessions cut into chunks that run in parallel harness / model
    processes (sessions are independent: each starts with `reset`)"""
    import os
    from concurrent.futures import ThreadPoolExecutor
    from vlib import core
    workers = max(1, min(12, (os.cpu_count() or 4) - 2))
    if len(sessions) < 4 * workers:
        return ctx.run_pair(sessions, proj)
    size = (len(sessions) + workers - 1) // workers
    chunks = [sessions[i:i + size] for i in range(0, len(sessions), size)]
    with ThreadPoolExecutor(max_workers=2 * len(chunks)) as ex:
        fi = [ex.submit(ctx.run_impl, c) for c in chunks]
        fm = [ex.submit(ctx.run_model, c) for c in chunks]
        impl = [r for f in fi for r in f.result()]
        model = [r for f in fm for r in f.result()]
    return impl, model, core.compare_sessions(sessions, impl, model, proj)


def evaluate(ctx, res, sessions, proj, monitor, pid, shrink=True):
    from vlib import core
    known = {f["key"] for f in core.load_known().get("findings", []) if f.get("property") == pid}
    impl, model, dis = run_pair_parallel(ctx, sessions, proj)
    for d in dis:
        ops = sessions[d["session"]]
        if len(res.disagreements) < 2:
            ops = ctx.shrink_disagreement(ops, proj)
        res.disagreements.append(dict(d, ops=ops))
    for ops, r in zip(sessions, impl):
        res.evaluations += len(r["out"])
        res.sessions += 1
        for o in ops[1:]:
            w = o.split()
            res.count("op_" + (w[0] if w[0] != "api" else "api_" + w[1]))
            for p in pdus_of(o):
                res.count("pdu_llid%s_opcode_%s" % (p[1], p[2:4] if p[:2] == "03" else "l2cap"))
        if r["crash"]:
            res.failures.append({"key": "%s:crash:%s" % (pid, r["crash"].split(" @")[0]), "what": r["crash"], "ops": ops})
            continue
        m = monitor(ops, r["out"])
        if m:
            k, key, what = m
            small = ops[:k + 1]
            if shrink and key not in known and len([f for f in res.failures if f["key"] == key]) == 0:
                def fails(cand, key=key):
                    out = ctx.run_impl([cand])[0]
                    mm = None if out["crash"] else monitor(cand, out["out"])
                    return bool(mm) and mm[1] == key
                small = ctx.shrink(small, fails, budget=60)
            res.failures.append({"key": key, "what": what, "ops": small})
    res.samples = [" ; ".join(s[:10]) for s in sessions[-3:]]
    res.extra["_impl"] = impl


# ------------------------------------------------------------------------------------------------
# C27
# ------------------------------------------------------------------------------------------------
RESPONSES = {0x04, 0x07, 0x09, 0x0b, 0x0d, 0x10, 0x11, 0x13, 0x17}     # DESIGN §5 C27
SUPPORTED = {0: 0x117, 1: 0x16}
PATTERNS = ["00", "ff", "a5"]


def proj_c27(op, line):
    f = fields(line)
    if "bad" in f:
        return line
    tx = [p for p in tx_list(f) if p[:2] == "03"]
    closed = [c for c in cb_list(f) if c.startswith(("closed", "attempt"))]
    return "tx=%s closed=%s adv=%d r=%s" % (",".join(tx), ",".join(closed), f.get("st") == "advertising", f.get("r", "-"))


def table_pdu(opcode, size, pat):
    """control PDU `opcode` with `size` payload bytes in total; instants of the three instant
    carrying PDUs are put 100 events into the future (C21 owns the comparisons at the boundary)"""
    if size == 0:
        return None
    body = [opcode] + [int(PATTERNS[pat], 16)] * (size - 1)
    if (opcode, size) == (0x00, 12):
        body[10:12] = [100, 0]
    if (opcode, size) == (0x01, 8):
        body[6:8] = [100, 0]
    if (opcode, size) == (0x18, 5):
        body[3:5] = [100, 0]
    return "03" + "".join("%02x" % b for b in body)


def expected_single(cfg, pdu):
    """independent reading of the property for ONE control PDU on a fresh connection (event 0 was
    empty): (list of answers | None = connection ends, class)"""
    b = bytes.fromhex(pdu[2:])
    op, n = b[0], len(b)
    u16 = lambda i: b[i] | (b[i + 1] << 8)
    sec, phy = cfg == 0, cfg == 0
    if (op, n) == (0x12, 1):
        return ["0313"], "request"
    if (op, n) == (0x08, 9):
        return ["0309%02x%02x000000000000" % (SUPPORTED[cfg] & u16(1) & 0xff, SUPPORTED[cfg] >> 8)], "request"
    if (op, n) == (0x0c, 6):
        return ["030c0969020000"], "request"
    if (op, n) == (0x16, 3) and phy:
        return ["03170303"], "request"
    if (op, n) == (0x0f, 24):
        mn, mx, lat = u16(1), u16(3), u16(5)
        if mx < mn or mn < 5 or mx > 3200 or lat > 499:
            return ["03110f1e"], "request"
        return ["0310" + b[1:].hex()], "request"
    if (op, n) == (0x03, 23) and sec:
        return ["030456aa55781022ac3f12345678", "03110306"], "request"     # empty bond data base
    if (op, n) == (0x0a, 1) and sec:
        return ["030b"], "request"
    if (op, n) == (0x02, 2):
        return None, "terminate"
    if (op, n) in ((0x00, 12), (0x01, 8)):
        return [], "instant"
    if (op, n) == (0x18, 5) and phy and b[1] in (0, 1, 2) and b[2] in (0, 1, 2):
        return [], "instant"
    if op in RESPONSES:
        return [], "response"
    return ["0307%02x" % op], "unknown"


def monitor_c27_single(cfg, ops, outs):
    """ops = reset cfg; connect; ev; ev <pdu>; ev; ev"""
    pdu = ops[3].split()[1]
    exp, cls = expected_single(cfg, pdu)
    f = [fields(l) for l in outs]
    got = [p for x in f[3:] for p in tx_list(x) if p[:2] == "03"]
    closed = [c for x in f[3:] for c in cb_list(x) if c.startswith("closed")]
    op = int(pdu[2:4], 16)
    if exp is None:
        if closed != ["closed:%02x" % int(pdu[4:6], 16)] or got:
            return 3, "C27:terminate-ind-not-honoured", "LL_TERMINATE_IND %s: callbacks %s, answers %s" % (pdu, closed, got)
        return None
    if closed:
        return 3, "C27:connection-ended:%02x" % op, "PDU %s ended the connection (%s)" % (pdu, closed)
    if cls == "response" and got:
        return 3, "C27:response-opcode-answered:%02x" % op, "PDU %s (a response / reject opcode) was answered with %s" % (pdu, got)
    if got != exp:
        return 3, "C27:wrong-answer:%s:%02x" % (cls, op), "PDU %s: expected %s, peripheral sent %s" % (pdu, exp, got)
    return None


def gen_c27_seq(rng, length):
    """procedure states: random well-formed / malformed control PDUs in sequence, API requests"""
    cfg = rng.choice([0, 0, 1])
    ops = ["reset %d" % cfg, "connect %d %d" % rng.choice([(24, 72), (3200, 3200), (800, 3200)]), "ev"]
    n = 1
    for _ in range(length):
        r = rng.random()
        if r < 0.70:
            pdus = []
            for _ in range(rng.choice([1, 1, 1, 2, 3])):
                q = rng.random()
                if q < 0.55:
                    pdus.append(rng.choice([PING, feature_req(rng.choice([0xff, 0x01, 0, 0xfd, 0x1ff])), version_ind(rng.choice([6, 7, 9])),
                                            ctrl(0x16, "0102"), ctrl(0x0f, le(rng.choice([6, 4, 40]), 2) + le(rng.choice([10, 3300, 5]), 2) + le(rng.choice([0, 500]), 2) + le(100, 2) + "00" * 15),
                                            ctrl(0x0d, "3b"), ctrl(0x11, "0f3b"), ctrl(0x11, "163b"), ctrl(0x07, "0f"), ctrl(0x07, "16"), ctrl(0x07, "0c"),
                                            ctrl(0x0a), ctrl(0x0b), ctrl(0x06), ctrl(0x13), ctrl(0x10, "00" * 23), ctrl(0x09, "00" * 8), ctrl(0x17, "0101"),
                                            ctrl(0x18, "0000" + le(0, 2)), ctrl(0x18, "0102" + le(n + 3, 2)), ctrl(0x01, "ffffffff1f" + le(n + 4, 2)),
                                            ctrl(0x00, "01" + le(0, 2) + le(24, 2) + le(0, 2) + le(72, 2) + le(n + 3, 2)),
                                            # instants around the event counter: passed, now, next event, reachable, 32767 / 32768 ahead
                                            ctrl(0x18, "0102" + le((n + rng.choice([-2, -1, 0, 1, 2, 3, 32766, 32767, 32768])) % 65536, 2)),
                                            ctrl(0x01, "ffffffff1f" + le((n + rng.choice([-2, -1, 0, 1, 2, 3, 32766, 32767, 32768])) % 65536, 2)),
                                            ctrl(0x00, "01" + le(0, 2) + le(24, 2) + le(0, 2) + le(72, 2) + le((n + rng.choice([-2, -1, 0, 1, 2, 3, 32766, 32767, 32768])) % 65536, 2))]))
                else:
                    t = table_pdu(rng.randrange(256) if rng.random() < 0.3 else rng.choice([0, 1, 2, 3, 6, 7, 8, 0xa, 0xb, 0xc, 0xd, 0xf, 0x11, 0x12, 0x16, 0x18, 0x19, 0x23]),
                                  rng.randrange(1, 28), rng.randrange(3))
                    pdus.append(t)
            ops.append(("ev " + " ".join(pdus)).strip())
            n += 1
        elif r < 0.80:
            ops.append("ev")
            n += 1
        elif r < 0.84:
            ops.append("to")
            n += 1
        elif r < 0.96:
            ops.append(rng.choice(["api version", "api paramll 10 20 0 100", "api param 10 20 0 100", "api phy 2 2", "api version"]))
        else:
            ops.append("connect 24 72")    # refused while connected: the event counter goes on
    return ops


def timeout_sessions():
    res = []
    for cfg in (0, 1):
        for api in ("api version", "api paramll 10 20 0 100", "api param 10 20 0 100", "api phy 2 2"):
            res.append(["reset %d" % cfg, "connect 3200 3200", "ev", api] + ["ev"] * 14)
            # answered in time: no timeout
            answer = {"api version": version_ind(), "api phy 2 2": ctrl(0x18, "0000" + le(0, 2))}.get(api, ctrl(0x11, "0f3b"))
            res.append(["reset %d" % cfg, "connect 3200 3200", "ev", api, "ev", "ev", "ev " + answer] + ["ev"] * 11)
    return res


REQ_OPCODE = {"version": "030c", "paramll": "030f", "param": "030f", "phy": "0316"}


def monitor_c27_timeout(ops, outs):
    """a peripheral initiated procedure without an answer ends the connection after 40 s (10 events
    of 4 s after the request was queued) with reason 0x22; an answered one does not"""
    api = ops[3].split()[1]
    f = [fields(l) for l in outs]
    sent = [k for k, x in enumerate(f) if any(p.startswith(REQ_OPCODE[api]) for p in tx_list(x))]
    closed = [(k, c) for k, x in enumerate(f) for c in cb_list(x) if c.startswith("closed")]
    answered = any(len(o.split()) > 1 for o in ops[4:])
    nver = sum(1 for x in f for p in tx_list(x) if p.startswith("030c"))
    if nver > 1:
        return len(ops) - 1, "C27:second-version-ind", "%d LL_VERSION_IND sent on one connection: %s" % (nver, " ; ".join(ops[:8]))
    if not sent:
        return len(ops) - 1, "C27:request-not-sent:" + api, "no %s PDU seen" % REQ_OPCODE[api]
    if answered:
        if closed:
            return closed[0][0], "C27:answered-procedure-times-out:" + api, "connection closed %s although the procedure was answered" % (closed,)
        return None
    want = sent[0] - 1 + 10
    if not closed:
        return len(ops) - 1, "C27:no-response-timeout:" + api, "%s without answer: no disconnect within %d events of 4 s" % (REQ_OPCODE[api], len(ops) - 4)
    if closed[0] != (want, "closed:22"):
        return closed[0][0], "C27:wrong-response-timeout:" + api, "expected closed:22 at op %d, got %s" % (want, closed[0])
    return None


def monitor_c27_seq(ops, outs):
    """sequence level reading: a single LL_VERSION_IND per connection; every LL_PING_REQ / valid request answered"""
    nver = 0
    for k, (op, line) in enumerate(zip(ops, outs)):
        f = fields(line)
        if "bad" in f:
            continue
        if op.startswith("connect") and f.get("r") == "1":
            nver = 0
        nver += sum(1 for p in tx_list(f) if p.startswith("030c"))
        if nver > 1:
            return k, "C27:second-version-ind", "op %d: second LL_VERSION_IND on one connection" % k
        if f.get("st") == "advertising":
            nver = 0
    return None


def run_c27(ctx, replay_path=None):
    res = Result()
    res.rule = ("(1) table: for both link layer types, every opcode 0..255 x payload size 1..27 x 3 byte patterns (size 0 is not delivered by the PDU buffer) "
                "is sent as the only PDU of the second event of a fresh connection to the real link_layer<> and to the model, answers compared and checked against an "
                "independent Python table of the property (requests -> specified answer, responses/rejects -> silence, rest -> LL_UNKNOWN_RSP); instants of "
                "opcodes 00/01/18 lie 100 events ahead. quick tier: all opcodes x sizes for pattern chosen by seed, stratified. (2) procedure states: random sequences of well-formed and "
                "malformed control PDUs, bursts, API requests. (3) 40 s response timeout sessions (4 s interval) for each peripheral initiated procedure, answered and unanswered. "
                "non-trivial = table cells + sequences in which a procedure was started")
    sessions, kinds = [], []
    for _, ops in ctx.corpus():
        sessions.append(ops)
        kinds.append(("corpus", None))
    pats = [0, 1, 2] if ctx.thorough else [ctx.seed % 3]
    step = 1 if ctx.thorough else 3
    cells = 0
    shapes = [(0x12, 1), (0x08, 9), (0x0c, 6), (0x16, 3), (0x0f, 24), (0x03, 23), (0x0a, 1), (0x0b, 1), (0x06, 1), (0x02, 2),
              (0x00, 12), (0x01, 8), (0x18, 5), (0x07, 2), (0x0d, 2), (0x11, 3)]
    if not ctx.thorough:      # the recognised shapes get all three payload patterns in the quick tier as well
        for cfg in (0, 1):
            for pat in (0, 1, 2):
                if pat not in pats:
                    for opcode, size in shapes:
                        sessions.append(["reset %d" % cfg, "connect 24 72", "ev", "ev " + table_pdu(opcode, size, pat), "ev", "ev"])
                        kinds.append(("table", cfg))
                        cells += 1
    for cfg in (0, 1):
        for pat in pats:
            for opcode in range(256):
                for size in range(1, 28):
                    if not ctx.thorough and (opcode * 31 + size + ctx.seed) % step and opcode > 0x19 and opcode not in (0x23, 0xff):
                        continue
                    sessions.append(["reset %d" % cfg, "connect 24 72", "ev", "ev " + table_pdu(opcode, size, pat), "ev", "ev"])
                    kinds.append(("table", cfg))
                    cells += 1
    for t in timeout_sessions():
        sessions.append(t)
        kinds.append(("timeout", None))
    for i in range(1200 if ctx.thorough else 150):
        sessions.append(gen_c27_seq(ctx.rng, ctx.rng.randrange(10, 45)))
        kinds.append(("seq", None))
    res.exhaustive = bool(ctx.thorough)
    res.extra["table_cells"] = cells
    res.extra["exhaustive_scope"] = "opcode 0..255 x size 1..27 x patterns %s x 2 link layer types" % [PATTERNS[p] for p in pats] + ("" if ctx.thorough else " (opcodes > 0x19 thinned 1:3 in the quick tier)")

    def mon(ops, outs):
        kind, cfg = kinds[index[id(ops)]]
        if kind == "table":
            return monitor_c27_single(cfg, ops, outs) if len(outs) == len(ops) else None
        if kind == "timeout":
            return monitor_c27_timeout(ops, outs) if len(outs) == len(ops) else None
        return monitor_c27_seq(ops, outs)
    index = {id(o): i for i, o in enumerate(sessions)}
    evaluate(ctx, res, sessions, proj_c27, mon, "C27", shrink=False)
    impl = res.extra.pop("_impl")
    for (kind, cfg), ops, r in zip(kinds, sessions, impl):
        res.count("sessions_" + kind)
        if kind == "table":
            res.count("table_class_" + expected_single(cfg, ops[3].split()[1])[1])
            res.distinct.add((cfg, ops[3]))
        elif any(o.startswith("api") for o in ops):
            res.distinct.add(hash(tuple(ops)))
    return res


# ------------------------------------------------------------------------------------------------
# C29
# ------------------------------------------------------------------------------------------------
def proj_c29(op, line):
    f = fields(line)
    if "bad" in f:
        return line
    return "cb=" + f.get("cb", "-")


OTHER = ("changed", "version", "rejected", "unknown", "features", "phy")


def expected_events(pdu, version_seen):
    """callback a control PDU must produce (independent of the model)"""
    if is_ctrl(pdu, 0x0c, 6):
        return None if version_seen else "version"
    if is_ctrl(pdu, 0x0d, 2) or is_ctrl(pdu, 0x11, 3):
        return "rejected"
    if is_ctrl(pdu, 0x07, 2):
        return "unknown"
    if is_ctrl(pdu, 0x08, 9):
        return "features"
    if is_ctrl(pdu, 0x02, 2):
        return "closed"
    return None


def monitor_c29(ops, outs):
    """trace of callbacks must be a prefix of (requested (attempt_timeout | established other* closed))*,
    agree with the link layer's state, and contain one callback per event-producing PDU"""
    st = "idle"
    version_seen = False
    early_disconnect = False    # disconnect() was called before the first connection event
    local_reason = None
    EARLY = "C29:disconnect-before-established:established-never-reported"
    for k, (op, line) in enumerate(zip(ops, outs)):
        f = fields(line)
        if "bad" in f:
            continue
        cbs = cb_list(f)
        if op.startswith("reset") or (op.startswith("connect") and f.get("r") == "1"):
            local_reason = None
        if op.startswith("api disconnect"):
            w = op.split()
            local_reason = int(w[2]) if len(w) > 2 else 0x16
        # "closed with the reason": the central's LL_TERMINATE_IND reason or the one given to disconnect()
        for c in cbs:
            if c.startswith("closed:"):
                ok = set()
                if local_reason is not None:
                    ok.add(local_reason)
                ok |= {int(p[4:6], 16) for p in pdus_of(op) if is_ctrl(p, 0x02, 2)}
                if ok and int(c[7:], 16) not in ok and c not in ("closed:08", "closed:22"):
                    return k, "C29:closed-reason", "op %d `%s`: reported %s, expected reason in %s" % (k, op[:60], c, sorted(ok))
                if not ok and c not in ("closed:08", "closed:22", "closed:28"):
                    return k, "C29:closed-reason", "op %d `%s`: reported %s without LL_TERMINATE_IND / disconnect()" % (k, op[:60], c)
        if op.startswith("api disconnect") and st == "requested":
            early_disconnect = True
        if st == "idle":
            early_disconnect = False
        # completeness per PDU
        if op.startswith("ev") and st != "idle":
            want = []
            if st == "requested":
                want.append("established")
            for p in pdus_of(op):
                e = expected_events(p, version_seen)
                if e == "version":
                    version_seen = True
                if e:
                    want.append(e)
                if e == "closed":
                    break
            got = [c.split(":")[0] for c in cbs]
            if len(got) < len(want) and got == want[:len(got)]:
                lost = want[len(got)]
                key = "C29:ring-overflow:%s-lost" % lost if len(got) == 4 else "C29:event-lost:" + lost
                if early_disconnect and lost == "established":
                    return k, EARLY, "op %d `%s`: disconnect() before the first connection event: `established` is never reported, later callbacks follow `requested` directly" % (k, op[:60])
                return k, key, "op %d `%s`: %d lifecycle events in one radio callback, reported only %s — `%s` never reported" % (k, op[:70], len(want), got, lost)
        for c in cbs:
            name = c.split(":")[0]
            nxt = None
            if st == "idle" and name == "requested":
                nxt = "requested"
            elif st == "requested" and name == "attempt_timeout":
                nxt = "idle"
            elif st == "requested" and name == "established":
                nxt = "established"
            elif st == "established" and name == "closed":
                nxt = "idle"
            elif st == "established" and name in OTHER:
                nxt = "established"
            if nxt is None and early_disconnect and st == "requested":
                return k, EARLY, "op %d: disconnect() before the first connection event: callback `%s` follows `requested` without `established`" % (k, c)
            if nxt is None:
                return k, "C29:order:%s-in-%s" % (name, st), "op %d: callback `%s` while the trace so far is in state %s" % (k, c, st)
            st = nxt
            if st == "idle":
                version_seen = False
        phase = f.get("st")
        agree = {"advertising": ("idle",), "connecting": ("requested",), "disconnecting": ("requested", "established")}.get(phase, ("established",))
        if st not in agree:
            return k, "C29:state-not-reported:%s-vs-%s" % (phase, st), "op %d: link layer is %s but the callbacks so far say %s" % (k, phase, st)
    return None


def gen_c29(rng, length):
    cfg = rng.choice([0, 1, 1])
    ops = ["reset %d" % cfg, "connect 24 72"]
    simple = [lambda: version_ind(rng.choice([6, 9])), lambda: ctrl(0x0d, "%02x" % rng.randrange(256)), lambda: ctrl(0x11, "0f%02x" % rng.randrange(256)),
              lambda: ctrl(0x07, "%02x" % rng.choice([0x0f, 0x16, 0x0c, 0x14])), lambda: feature_req(rng.randrange(256)), lambda: PING, lambda: ctrl(0x12, "00")]
    for _ in range(length):
        r = rng.random()
        if r < 0.62:
            # bursts of at most 3 event producing PDUs (+ established) stay within the ring
            pdus = [rng.choice(simple)() for _ in range(rng.choice([0, 1, 1, 2, 2, 3]))]
            if rng.random() < 0.15:
                pdus = pdus[:2] + [terminate(rng.choice([0x13, 0x16]))]
            ops.append(("ev " + " ".join(pdus)).strip())
        elif r < 0.68:
            ops.append("to")
        elif r < 0.72:
            ops += ["to"] * 6          # attempt timeout (connecting) / supervision timeout of a (16, 10) connection
        elif r < 0.80:
            ops.append("api disconnect")
        elif r < 0.93:
            ops.append("connect %d %d" % rng.choice([(24, 72), (16, 10)]))
            if rng.random() < 0.25:
                ops += ["to"] * 6      # no connection event at all: ll_connection_attempt_timeout
        elif r < 0.96:
            ops.append("ev " + " ".join(rng.choice(simple)() for _ in range(rng.choice([4, 5, 6]))))   # overflow candidates
        else:
            ops.append(rng.choice(["api version", "adv", "api phy 2 2"]))
    return ops


def gen_c29_procedures(rng):
    """instant procedures and local disconnects in every transient link layer state, followed by
    the loss of the link: LL_CONNECTION_UPDATE_IND / LL_CHANNEL_MAP_IND / LL_PHY_UPDATE_IND with an
    instant a few events ahead, events (received or timed out) up to and including the instant,
    then timeouts until the link is dropped / disconnect() / LL_TERMINATE_IND; also disconnect()
    while connecting and timeouts while disconnecting."""
    cfg = rng.choice([0, 0, 1])
    ops = ["reset %d" % cfg, "connect 24 72"]
    j = 0                                  # connection events (ev / to) of this connection so far
    shape = rng.random()
    if shape < 0.12:                       # state connecting
        ops += rng.choice([["api disconnect"] + ["to"] * 8, ["api disconnect", "ev", "ev", "ev", "ev"],
                           ["to"] * 3 + ["api disconnect"] + ["to"] * 6, ["to"] * 7])
        return ops + ["connect 24 72", "ev"]
    for _ in range(rng.randrange(1, 4)):
        ops.append("ev")
        j += 1
    if shape < 0.24:                       # state disconnecting
        ops.append("api disconnect %d" % rng.choice([0x13, 0x16]) if rng.random() < 0.5 else "api disconnect")
        ops += rng.choice([["to"] * 30, ["ev"] + ["to"] * 30, ["ev", "ev", "ev", "ev"], ["to", "to", "ev", "ev", "ev"],
                           ["ev " + terminate(0x13), "ev", "ev"]])
        return ops + ["connect 24 72", "ev"]
    k = rng.choice([1, 2, 3, 4])
    instant = j + 1 + k                    # the PDU is handled at event counter j, applied when the counter reaches `instant`
    interval, timeout = rng.choice([(16, 10), (24, 72), (16, 10), (40, 20)])
    kind = rng.choice(["update", "update", "update", "chanmap", "phy" if cfg == 0 else "update"])
    if kind == "update":
        pdu = ctrl(0x00, "01" + le(0, 2) + le(interval, 2) + le(0, 2) + le(timeout, 2) + le(instant, 2))
    elif kind == "chanmap":
        pdu = ctrl(0x01, "ffffff0f1f" + le(instant, 2))
    else:
        pdu = ctrl(0x18, "0202" + le(instant, 2))
    extra = [version_ind()] if rng.random() < 0.3 else []
    ops.append("ev " + " ".join(extra + [pdu]))
    j += 1
    while j < instant:                     # events up to and including the instant (received or lost)
        ops.append(rng.choice(["ev", "ev", "to"]))
        j += 1
    tail = rng.random()
    if tail < 0.45:                        # the link is lost right after the instant
        ops += ["to"] * 30
    elif tail < 0.60:
        ops += ["api disconnect"] + rng.choice([["to"] * 30, ["ev", "ev", "ev", "ev"], ["ev"] + ["to"] * 30])
    elif tail < 0.72:
        ops += ["ev " + terminate(rng.choice([0x13, 0x16]))]
    elif tail < 0.86:
        ops += ["ev"] * rng.randrange(1, 3) + ["to"] * 30
    else:
        ops += ["ev " + ctrl(0x0d, "3b"), "to", "ev", "api disconnect", "ev", "ev", "ev"]
    return ops + ["connect 24 72", "ev", "ev " + terminate(0x13)]


def run_c29(ctx, replay_path=None):
    res = Result()
    res.rule = ("sessions on both link layer types: connects, connection events with bursts of 0-3 (sometimes 4-6) event producing control PDUs "
                "(LL_VERSION_IND, LL_REJECT_IND, LL_REJECT_EXT_IND, LL_UNKNOWN_RSP, LL_FEATURE_REQ), LL_TERMINATE_IND, radio timeouts (attempt timeout, supervision timeout), "
"disconnect(), re-connects; plus procedure sessions: LL_CONNECTION_UPDATE_IND / LL_CHANNEL_MAP_IND / LL_PHY_UPDATE_IND with an instant 2-5 events ahead, "
                "events up to the instant, then loss of the link / disconnect() / LL_TERMINATE_IND in the states connection_changed, connected, disconnecting, and disconnect() / loss while connecting; compared: the exact callback sequence incl. arguments per radio callback; monitor: callback trace in "
                "(requested (attempt_timeout | established other* closed))*, agrees with the link layer state after every op, one callback per event producing PDU. "
                "non-trivial = session with at least one closed connection")
    sessions = [ops for _, ops in ctx.corpus()]
    for i in range(2500 if ctx.thorough else 300):
        sessions.append(gen_c29(ctx.rng, ctx.rng.randrange(10, 50)))
    for i in range(1200 if ctx.thorough else 160):
        sessions.append(gen_c29_procedures(ctx.rng))
    evaluate(ctx, res, sessions, proj_c29, monitor_c29, "C29")
    for ops, r in zip(sessions, res.extra.pop("_impl")):
        closed = any("closed" in l for l in r["out"])
        res.count("sessions_with_closed", closed)
        res.count("sessions_with_changed_callback", any("changed" in cb_list(fields(l)) for l in r["out"]))
        res.count("sessions_lost_in_state_connection_changed", any("st=changed" in a and "closed:08" in b for a, b in zip(r["out"], r["out"][1:])))
        res.count("sessions_with_phy_callback", any("phy:" in l for l in r["out"]))
        res.count("sessions_with_attempt_timeout", any("attempt_timeout" in l for l in r["out"]))
        res.count("radio_callbacks_reporting_4_events", sum(1 for l in r["out"] if len(cb_list(fields(l))) == 4))
        if closed:
            res.distinct.add(hash(tuple(ops)))
    return res


PROPS = {
    "C28": dict(
        theorems=["BluetoeModel.LlControl.encrypted_implies_key_and_start_req",
                  "BluetoeModel.LlControl.unknown_key_never_encrypted",
                  "BluetoeModel.LlControl.unknown_key_rejected",
                  "BluetoeModel.LlControl.pause_and_disconnect_clear",
                  "BluetoeModel.LlControl.no_encryption_state_between_connections",
                  "BluetoeModel.LlControl.protected_value_only_when_encrypted",
                  "BluetoeModel.LlControl.ghost_writes", "BluetoeModel.LlControl.ghost_start_req"],
        imports=["BluetoeModel.LlControl.PropsC28"],
        run=run_c28,
        level="proof",
        technique="Lean 4 invariant proof over every sequence of radio callbacks / API calls / PDUs on a model of handle_ll_control_data + link_layer_security_impl (fixed code) + differential correspondence with the real link_layer<> + independent monitor",
        level_text="Theorem encrypted_implies_key_and_start_req: for every history of connection events (each carrying any list of PDUs), radio timeouts, connects, disconnects and API calls, in every reachable state in which link_state::is_encrypted is true, the history variables say that on this connection find_key returned a key for the last LL_ENC_REQ, LL_START_ENC_REQ was handed to the PDU buffer afterwards and LL_START_ENC_RSP arrived after that with no pause/disconnect since. The model is tied to the real link layer (security implementation, ATT server with a requires_encryption characteristic, test radio) by running the same sessions on both and by a Python monitor that re-evaluates the property on the implementation's outputs.",
        level_note="Holds for the code with fixes/llctrl-01 and -02 applied (the unpatched code fails: bare LL_START_ENC_RSP, and encryption state surviving a disconnect). 'sent LL_START_ENC_REQ' is 'handed to ll_data_pdu_buffer'; after LL_TERMINATE_IND was queued that buffer drops PDUs. Trusted: model = code only as far as sampled; find_key is the harness' key vault; test radio as reference radio.",
        design_ref="§5 C28",
        assumptions=["find_key(ediv, rand) is a pure lookup in the bond data base (harness key vault)",
                     "peripheral latency 0; buffers never full; no_signaling_channel"],
    ),
    "C27": dict(
        theorems=["BluetoeModel.LlControl.known_request_response",
                  "BluetoeModel.LlControl.unknown_or_malformed_gets_unknown_rsp",
                  "BluetoeModel.LlControl.rejects_not_answered",
                  "BluetoeModel.LlControl.one_version_ind_per_connection_partial",
                  "BluetoeModel.LlControl.procedure_timeout_40s",
                  "BluetoeModel.LlControl.procedure_timeout_countdown"],
        witnesses=["BluetoeModel.LlControl.one_version_ind_witness",
                   "BluetoeModel.LlControl.responses_never_answered_witness",
                   "BluetoeModel.LlControl.phy_request_no_timeout_witness"],
        imports=["BluetoeModel.LlControl.PropsC27"],
        run=run_c27,
        level="proof",
        technique="Lean 4 theorems about handle_ll_control_data for every state, opcode, length and payload + correspondence exhaustive in opcode x size (x 3 payload patterns x 2 link layer types) on the real link layer + independent Python table",
        level_text="Per-PDU theorems for all states: the known requests get exactly their specified answer (ping, feature set intersected, first version indication, phy, parameter request echo / reject), everything that is not one of the recognised (opcode, length[, state]) shapes and is not LL_UNKNOWN_RSP gets LL_UNKNOWN_RSP(opcode), LL_UNKNOWN_RSP / LL_REJECT_IND / LL_REJECT_EXT_IND / LL_PAUSE_ENC_RSP are never answered, a running procedure timer ends the connection with reason 0x22 exactly when the accumulated event time reaches 40 s. Three parts of the sentence are false of the code and kept as witnesses + known findings (second LL_VERSION_IND after remote_versions_request, response opcodes the peripheral cannot expect are answered with LL_UNKNOWN_RSP, LL_PHY_REQ starts no timer).",
        level_note="Correspondence is exhaustive in opcode x size only in the thorough tier; the table keeps the instants of opcodes 00/01/18 100 events ahead, the sequence stream exercises instants around the event counter (model = instant_passed() of fix d12fb4f).",
        design_ref="§5 C27",
        assumptions=["peripheral latency 0; buffers never full; no_signaling_channel; no_desired_connection_parameters"],
    ),
    "C29": dict(
        theorems=["BluetoeModel.LlControl.callbacks_well_ordered_partial",
                  "BluetoeModel.LlControl.force_disconnect_reports_closed",
                  "BluetoeModel.LlControl.ring_reports_first_four",
                  "BluetoeModel.LlControl.ring_empty_between_callbacks",
                  "BluetoeModel.LlControl.dropped_only_when_ring_full",
                  "BluetoeModel.LlControl.ring_pushes"],
        witnesses=["BluetoeModel.LlControl.overflow_drops_witness",
                   "BluetoeModel.LlControl.callbacks_well_ordered_witness",
                   "BluetoeModel.LlControl.early_disconnect_witness"],
        imports=["BluetoeModel.LlControl.PropsC29"],
        run=run_c29,
        level="proof",
        technique="Lean 4 simulation invariant (link layer state = state of the language automaton over all reported + queued callbacks) over every history, with the two violating situations excluded by name and proved violating by witnesses; differential correspondence of the exact callback sequences + language monitor on the real link layer",
        level_text="Theorem callbacks_well_ordered_partial: for every history of connects, connection events with arbitrary PDU lists, radio timeouts and API calls on both link layer types, if no radio callback produced more than four lifecycle events (try_push never refused) and disconnect() was not called between `requested` and the first connection event, the reported callbacks are a prefix of (requested (attempt_timeout | established other* closed))* and complete (automaton state = link layer state). The full statement is proved false for exactly these two situations (overflow_drops_witness / callbacks_well_ordered_witness: five events in one callback lose `closed`; early_disconnect_witness: requested, closed without established).",
        level_note="known findings C29:ring-overflow:*, C29:disconnect-before-established:*; the model's event counter / latency restrictions apply",
        design_ref="§5 C29",
        assumptions=["peripheral latency 0; buffers never full"],
    ),
}
