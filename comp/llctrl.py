"""C27 / C28 / C29 — link layer control PDU handling, encryption start, connection callbacks
(bluetoe/link_layer/include/bluetoe/link_layer.hpp, connection_callbacks.hpp)"""
from vlib.core import Result

NAME = "llctrl"
LEAN_MODULE = "BluetoeModel.LlControl"
DRIVER = "drv_llctrl"
HARNESS_DESC = "harness/llctrl.cpp (real link_layer<> on tests/test_tools/test_radio, one radio callback per op)"
HARNESS = dict(
    src="harness/llctrl.cpp",
    repo_srcs=["tests/test_tools/test_radio.cpp", "tests/test_tools/hexdump.cpp", "tests/test_tools/buffer_io.cpp",
               "tests/test_tools/address_io.cpp", "bluetoe/link_layer/channel_map.cpp",
               "bluetoe/link_layer/connection_details.cpp", "bluetoe/link_layer/delta_time.cpp",
               "bluetoe/utility/address.cpp"],
    includes=["tests/test_tools"],
    ldflags=["-lboost_unit_test_framework"],
)

# ------------------------------------------------------------------------------------------------
# PDU construction
# ------------------------------------------------------------------------------------------------
def le(v, n):
    return "".join("%02x" % ((v >> (8 * i)) & 0xff) for i in range(n))


def ctrl(opcode, payload=""):
    return "03%02x%s" % (opcode, payload)


def enc_req(ediv, rand, rng=None):
    skdm = rng.randrange(1 << 64) if rng else 0x7060504030201000
    ivm = rng.randrange(1 << 32) if rng else 0x3412bcab
    return ctrl(0x03, le(rand, 8) + le(ediv, 2) + le(skdm, 8) + le(ivm, 4))


START_ENC_RSP = ctrl(0x06)
PAUSE_ENC_REQ = ctrl(0x0a)
PAUSE_ENC_RSP = ctrl(0x0b)
ATT_READ = "02" + "030004000a0300"
ATT_VALUE = "02030004000b1147"
PING = ctrl(0x12)


def version_ind(v=9):
    return ctrl(0x0c, "%02x" % v + "aabb" + "ccdd")


def feature_req(f=0xff):
    return ctrl(0x08, le(f, 8))


def terminate(reason=0x13):
    return ctrl(0x02, "%02x" % reason)


def fields(line):
    """'tx=.. cb=.. st=..' -> dict; 'bad-op' -> {'bad': '1'}"""
    if "=" not in line:
        return {"bad": line}
    return dict(kv.split("=", 1) for kv in line.split())


def tx_list(f):
    t = f.get("tx", "-")
    return [] if t == "-" else t.split(",")


def cb_list(f):
    t = f.get("cb", "-")
    return [] if t == "-" else t.split(",")


def pdus_of(op):
    w = op.split()
    return w[1:] if w and w[0] == "ev" else []


def is_ctrl(p, opcode, size):
    return p[:2] == "03" and len(p) == 2 + 2 * size and int(p[2:4], 16) == opcode


# ------------------------------------------------------------------------------------------------
# C28
# ------------------------------------------------------------------------------------------------
SEC_OPCODES = {0x04, 0x05, 0x06, 0x0b, 0x0d, 0x11}


def proj_c28(op, line):
    f = fields(line)
    if "bad" in f:
        return line
    tx = [p for p in tx_list(f) if p[:2] == "02" or (p[:2] == "03" and (int(p[2:4], 16) in SEC_OPCODES
                                                                        or p[:4] == "0307" and p[4:6] in ("03", "06", "0a", "0b")))]
    return "tx=%s changed=%d adv=%d enc=%s rxe=%s txe=%s" % (
        ",".join(tx), cb_list(f).count("changed"), f.get("st") == "advertising", f.get("enc"), f.get("rxe"), f.get("txe"))


def gen_c28(rng, length):
    ops = ["reset 0"]
    known = [(rng.randrange(65536), rng.randrange(1 << 64)) for _ in range(rng.choice([1, 1, 2, 3]))]
    unknown = [(rng.randrange(65536), rng.randrange(1 << 64)) for _ in range(2)] + [(known[0][0], known[0][1] ^ 1), (known[0][0] ^ 1, known[0][1])]
    late = []
    for k in known:
        if rng.random() < 0.8:
            ops.append("key %d %d" % k)
        else:
            late.append(k)
    ops.append("connect 24 72")
    quiet = False    # after api disconnect: no further encryption procedure is started (see docs/llctrl.md)

    def pick():
        r = rng.random()
        if r < 0.20:
            return enc_req(*rng.choice(known), rng=rng)
        if r < 0.32:
            return enc_req(*rng.choice(unknown), rng=rng)
        if r < 0.54:
            return START_ENC_RSP
        if r < 0.62:
            return PAUSE_ENC_REQ
        if r < 0.70:
            return PAUSE_ENC_RSP
        if r < 0.85:
            return ATT_READ
        if r < 0.90:   # malformed encryption PDUs
            return rng.choice([START_ENC_RSP + "00", PAUSE_ENC_REQ + "01", PAUSE_ENC_RSP + "ff",
                               enc_req(*known[0])[:-2], enc_req(*known[0]) + "00", ctrl(0x04, "00" * 12), ctrl(0x05)])
        if r < 0.93:
            return terminate(rng.choice([0x13, 0x16, 0x3d]))
        return rng.choice([PING, feature_req(rng.choice([0xff, 0x01, 0x00, 0xfe])), version_ind(rng.choice([6, 9])),
                           ctrl(0x0d, "06"), ctrl(0x11, "0306"), ctrl(0x07, "05"), ctrl(0x16, "0101")])

    for _ in range(length):
        r = rng.random()
        if r < 0.72:
            if quiet:
                pdus = [] if rng.random() < 0.7 else [rng.choice([ATT_READ, PING, START_ENC_RSP, PAUSE_ENC_REQ])]
            else:
                pdus = [pick() for _ in range(rng.choice([0, 1, 1, 1, 1, 2, 2, 3]))]
            ops.append(("ev " + " ".join(pdus)).strip())
            if any(is_ctrl(p, 0x02, 2) for p in pdus) and rng.random() < 0.8:
                ops.append("connect 24 72")
                quiet = False
        elif r < 0.77:
            ops.append("to")
        elif r < 0.82:
            ops.append("api disconnect")
            quiet = True
        elif r < 0.90:
            ops.append("connect %d %d" % rng.choice([(24, 72), (6, 10), (3200, 3200)]))
            quiet = quiet and rng.random() < 0.5
        elif r < 0.94 and late:
            ops.append("key %d %d" % late.pop())
        elif r < 0.97:
            ops.append(rng.choice(["api version", "api phy 2 2", "api param 10 20 0 100", "adv"]))
        else:
            ops.append("ev")
    return ops


def monitor_c28(ops, outs):
    """the property statement evaluated on the implementation's outputs: whenever the link is
    reported encrypted (is_encrypted / protected value readable) there must have been, on this
    connection and since the last pause, an LL_ENC_REQ for an (EDIV, Rand) of the bond data base,
    then LL_START_ENC_REQ from the peripheral, then LL_START_ENC_RSP; pause / disconnect clear."""
    keys = set()
    key_supplied = start_req = started = False
    started_when_read = []      # value of `started` when an ATT read was handed to the link layer
    for k, (op, line) in enumerate(zip(ops, outs)):
        f = fields(line)
        w = op.split()
        if "bad" in f:
            continue
        if w[0] == "reset":
            keys = set()
            key_supplied = start_req = started = False
            started_when_read = []
        elif w[0] == "key":
            keys.add((int(w[1]), int(w[2])))
        elif w[0] == "connect":
            if f.get("r") == "1":
                key_supplied = start_req = started = False
                started_when_read = []
        elif w[0] == "api" and w[1] == "disconnect":
            key_supplied = start_req = started = False
            if f.get("enc") != "0" or f.get("rxe") != "0" or f.get("txe") != "0":
                return k, "C28:disconnect-keeps-encryption", "op %d `%s`: link still encrypted after disconnect(): %s" % (k, op, line)
        elif w[0] in ("ev", "to"):
            tx = tx_list(f)
            # 1. what the peripheral sent in this event (answers to earlier events)
            reads = started_when_read
            started_when_read = []
            for p in tx:
                if p == ctrl(0x05):
                    start_req = key_supplied
                if p == ATT_VALUE:
                    if not reads or not reads.pop(0):
                        return k, "C28:protected-value-readable-without-encryption-start", \
                            "op %d: the requires_encryption characteristic value was sent (%s) although no encryption start procedure with a supplied key had completed" % (k, p)
                elif p[:2] == "02" and reads:
                    reads.pop(0)
            # 2. what the central sent, in order
            closed = f.get("st") == "advertising"
            for p in pdus_of(op):
                if is_ctrl(p, 0x03, 23):
                    rand = int.from_bytes(bytes.fromhex(p[4:20]), "little")
                    ediv = int.from_bytes(bytes.fromhex(p[20:24]), "little")
                    key_supplied = (ediv, rand) in keys
                    start_req = False
                elif is_ctrl(p, 0x06, 1):
                    if key_supplied and start_req:
                        started = True
                elif is_ctrl(p, 0x0a, 1) or is_ctrl(p, 0x0b, 1):
                    started = False
                elif is_ctrl(p, 0x02, 2):
                    break
                elif p == ATT_READ:
                    started_when_read.append(started)
            if closed:
                key_supplied = start_req = started = False
                started_when_read = []
            # 3. the verdict
            if f.get("enc") == "1" and not started:
                last = [p for p in pdus_of(op)]
                kind = "bare-start-enc-rsp" if any(is_ctrl(p, 0x06, 1) for p in last) else "other"
                return k, "C28:encrypted-without-key-and-start-req:" + kind, \
                    "op %d `%s`: link reported encrypted (%s) but no LL_ENC_REQ with a key of the bond data base followed by LL_START_ENC_REQ and LL_START_ENC_RSP happened on this connection" % (k, op[:60], line)
            if f.get("enc") == "0" and f.get("st") == "advertising" and (f.get("rxe") != "0" or f.get("txe") != "0"):
                return k, "C28:radio-encryption-survives-disconnect", "op %d: radio encryption flags set while advertising: %s" % (k, line)
    return None


def run_c28(ctx, replay_path=None):
    res = Result()
    res.rule = ("sessions = reset; bond data base of 1-3 (EDIV,Rand); CONNECT_IND; 20-70 ops: connection events carrying 0-3 PDUs "
                "(LL_ENC_REQ for known / unknown / near-miss keys, LL_START_ENC_RSP, LL_PAUSE_ENC_REQ/RSP, wrong-length variants, ATT Read of the "
                "requires_encryption characteristic, LL_TERMINATE_IND, other control PDUs), radio timeouts, disconnect(), re-connects, keys added late. "
                "Every session runs on the real link_layer<> (security impl + ATT server + test radio) and on the Lean model; compared: "
                "is_encrypted, radio rx/tx encryption, encryption related PDUs and ATT answers, `changed` callbacks. Independent monitor: "
                "encrypted / protected value readable only after ENC_REQ(known key) -> START_ENC_REQ -> START_ENC_RSP on this connection. "
                "non-trivial = session in which the link became encrypted at least once or an unknown key was rejected")
    sessions = [ops for _, ops in ctx.corpus()]
    n = 1500 if ctx.thorough else 220
    for i in range(n):
        sessions.append(gen_c28(ctx.rng, ctx.rng.randrange(20, 70)))
    evaluate(ctx, res, sessions, proj_c28, monitor_c28, "C28")
    for ops, r in zip(sessions, res.extra.pop("_impl")):
        enc = any(" enc=1" in l for l in r["out"])
        rej = any("03110306" in l or "030d06" in l for l in r["out"])
        res.count("sessions_with_encrypted_link", enc)
        res.count("sessions_with_rejected_unknown_key", rej)
        res.count("sessions_with_unexpected_start_enc_rsp_answered_unknown", any("030706" in l for l in r["out"]))
        if enc or rej:
            res.distinct.add(hash(tuple(ops)))
    return res


# ------------------------------------------------------------------------------------------------
# shared evaluation
# ------------------------------------------------------------------------------------------------
def evaluate(ctx, res, sessions, proj, monitor, pid):
    impl, model, dis = ctx.run_pair(sessions, proj)
    for d in dis:
        ops = sessions[d["session"]]
        if len(res.disagreements) < 2:
            ops = ctx.shrink_disagreement(ops, proj)
        res.disagreements.append(dict(d, ops=ops))
    for ops, r in zip(sessions, impl):
        res.evaluations += len(r["out"])
        res.sessions += 1
        for o in ops[1:]:
            w = o.split()
            res.count("op_" + (w[0] if w[0] != "api" else "api_" + w[1]))
            for p in pdus_of(o):
                res.count("pdu_llid%s_opcode_%s" % (p[1], p[2:4] if p[:2] == "03" else "l2cap"))
        if r["crash"]:
            res.failures.append({"key": "%s:crash:%s" % (pid, r["crash"].split(" @")[0]), "what": r["crash"], "ops": ops})
            continue
        m = monitor(ops, r["out"])
        if m:
            k, key, what = m
            small = ops[:k + 1]
            if len([f for f in res.failures if f["key"] == key]) == 0:
                def fails(cand, key=key):
                    out = ctx.run_impl([cand])[0]
                    mm = None if out["crash"] else monitor(cand, out["out"])
                    return bool(mm) and mm[1] == key
                small = ctx.shrink(small, fails, budget=120)
            res.failures.append({"key": key, "what": what, "ops": small})
    res.samples = [" ; ".join(s[:10]) for s in sessions[-3:]]
    res.extra["_impl"] = impl


PROPS = {
    "C28": dict(
        theorems=["BluetoeModel.LlControl.encrypted_implies_key_and_start_req",
                  "BluetoeModel.LlControl.unknown_key_never_encrypted",
                  "BluetoeModel.LlControl.unknown_key_rejected",
                  "BluetoeModel.LlControl.pause_and_disconnect_clear"],
        run=run_c28,
        level="proof",
        technique="Lean 4 invariant proof over every sequence of radio callbacks / API calls / PDUs on a model of handle_ll_control_data + link_layer_security_impl (fixed code) + differential correspondence with the real link_layer<> + independent monitor",
        level_text="Theorem encrypted_implies_key_and_start_req: for every history of connection events (each carrying any list of PDUs), radio timeouts, connects, disconnects and API calls, in every reachable state in which link_state::is_encrypted is true, the history variables say that on this connection find_key returned a key for the last LL_ENC_REQ, LL_START_ENC_REQ was handed to the PDU buffer afterwards and LL_START_ENC_RSP arrived after that with no pause/disconnect since. The model is tied to the real link layer (security implementation, ATT server with a requires_encryption characteristic, test radio) by running the same sessions on both and by a Python monitor that re-evaluates the property on the implementation's outputs.",
        level_note="Holds for the code with fixes/llctrl-01 and -02 applied (the unpatched code fails: bare LL_START_ENC_RSP, and encryption state surviving a disconnect). 'sent LL_START_ENC_REQ' is 'handed to ll_data_pdu_buffer'; after LL_TERMINATE_IND was queued that buffer drops PDUs. Trusted: model = code only as far as sampled; find_key is the harness' key vault; test radio as reference radio.",
        design_ref="§5 C28",
        assumptions=["find_key(ediv, rand) is a pure lookup in the bond data base (harness key vault)",
                     "peripheral latency 0; buffers never full; no_signaling_channel"],
    ),
}
