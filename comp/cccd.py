"""C09 — client characteristic configuration is per connection and exact
(client_characteristic_configuration.hpp 2-bit packing, CCCD attribute access of characteristic.hpp,
cccd_indices of find_notification_data.hpp)"""
from vlib.core import Result
from comp.attwq import pat, reset_line, expand_resets, attrs_of, hx, le16, resp_bytes

NAME = "cccd"
LEAN_MODULE = "BluetoeModel.Cccd"
LEAN_DIRS = ["BluetoeModel/Cccd", "Driver/Cccd"]
DRIVER = "drv_cccd"
HARNESS_DESC = "harness/cccd.cpp (real bluetoe::server<> types with 1/4/5/9 CCCDs, with and without priorities, 3 connections)"
# -g0: the debug information of these template heavy servers triples the compile time; the crash
# classification only needs the sanitizer's error kind
HARNESS = dict(src="harness/cccd.cpp",
               flags=["-O0", "-g0", "-fsanitize=address,undefined", "-fno-sanitize-recover=all", "-fno-omit-frame-pointer", "-w"])


def chars(spec):
    """spec: list of (has_cccd, enc) per characteristic, 'S' starts a new service"""
    attrs, mem, k, m = [], [], 0, 0
    for c in spec:
        if c == "S":
            attrs.append("s")
            continue
        has, enc = c
        attrs += ["c", "v%d.2.1.1.%d" % (m, enc)]
        mem.append(pat(m + 1, 2))
        m += 1
        if has:
            attrs.append("d%d.%d" % (k, enc))
            k += 1
    return attrs, mem


def server(spec, prios):
    attrs, mem = chars(spec)
    return dict(q=None, mtu=23, prios=prios, mem=mem, attrs=attrs)


Y, N, E = (1, 0), (0, 0), (1, 1)
NINE = ["S", Y, Y, E, N, Y, "S", Y, Y, Y, Y, Y]
SERVERS = {
    "C1": server(["S", Y], [0]),
    "C4": server(["S", Y, N, Y, Y, Y], [0, 0, 0, 0]),
    "C5": server(["S", Y, Y, Y, Y, Y], [0] * 5),
    "C5P": server(["S", Y, Y, Y, Y, Y], [2, 1, 2, 0, 2]),
    "C9": server(NINE, [0] * 9),
    "C9P": server(NINE, [4, 4, 4, 3, 2, 1, 2, 0, 2]),
}

WRITE_VALUES = [[0], [1], [2], [3], [1, 0], [2, 0], [3, 0], [0, 0], [0xff], [0xff, 0xff], [4], [0xfd, 0x01], [0, 1],
                [], [1, 0, 0], [3, 3, 3, 3]]


def gen_session(rng, name, length, count):
    attrs = attrs_of(name, SERVERS)
    cccds = [i + 1 for i, a in enumerate(attrs) if a.kind == "d"]
    values = [i + 1 for i, a in enumerate(attrs) if a.kind == "v"]
    needs_enc = any(a.enc for a in attrs)
    ops = [reset_line(name, SERVERS)]
    for c in range(3):
        if needs_enc and rng.random() < 0.6:
            ops.append("sec %d 1 %d" % (c, rng.randrange(4)))
    for _ in range(length):
        c = rng.randrange(3)
        r = rng.random()
        if r < 0.55:
            h = rng.choice(cccds)
            data = rng.choice(WRITE_VALUES) if rng.random() < 0.8 else [rng.randrange(256) for _ in range(rng.randrange(0, 4))]
            opc = 0x12 if rng.random() < 0.85 else 0x52
            ops.append("pdu %d %s" % (c, hx([opc] + le16(h) + data)))
            count("gen_cccd_write" if opc == 0x12 else "gen_cccd_write_command")
            ops.append("mem")
        elif r < 0.75:
            ops.append("pdu %d %s" % (c, hx([0x0a] + le16(rng.choice(cccds)))))
            count("gen_cccd_read")
        elif r < 0.80:
            ops.append("pdu %d %s" % (c, hx([0x0c] + le16(rng.choice(cccds)) + le16(rng.choice([0, 1, 2, 3, 4, 0xffff])))))
            count("gen_cccd_read_blob")
        elif r < 0.86:
            h = rng.choice(values)
            ops.append("pdu %d %s" % (c, hx([0x12] + le16(h) + [rng.randrange(256) for _ in range(rng.choice([1, 2, 2, 3]))])))
            count("gen_value_write")
            ops.append("mem")
        elif r < 0.90:
            ops.append("pdu %d %s" % (c, hx([0x0a] + le16(rng.choice(values)))))
            count("gen_value_read")
        elif r < 0.94:
            ops.append("sec %d %d %d" % (c, rng.randrange(2), rng.randrange(4)))
            count("gen_sec")
        elif r < 0.97:
            ops.append("disc %d" % c)
            count("gen_disconnect")
            ops.append("mem")
        else:
            h = rng.choice([0, len(attrs) + 1, 0xffff])
            ops.append("pdu %d %s" % (c, rng.choice([hx([0x12] + le16(h) + [1, 0]), hx([0x0a] + le16(h)), "12", "1204", "0a04", "0a040000"])))
            count("gen_malformed")
    # final sweep: every connection reads every CCCD
    for c in range(3):
        for h in cccds:
            ops.append("pdu %d %s" % (c, hx([0x0a] + le16(h))))
    return ops


def unpack(hexbytes, n, idx):
    """configuration of the k-th CCCD (declaration order) from the raw bytes, using the position
    table the implementation printed at reset"""
    bs = bytes.fromhex(hexbytes) if hexbytes != "-" else b""
    out = []
    for k in range(n):
        p = idx.index(k)
        out.append((bs[p // 4] >> (2 * (p % 4))) & 3 if p // 4 < len(bs) else None)
    return out


def monitor(name, ops, outs):
    """independent oracle of C09: per connection and CCCD the two bits last written"""
    attrs = attrs_of(name, SERVERS)
    n = len(SERVERS[name]["prios"])
    mem = [list(bytes.fromhex(m)) for m in SERVERS[name]["mem"]]
    cfg = [[0] * n for _ in range(3)]
    enc = [False] * 3
    idx = None
    for k, (op, out) in enumerate(zip(ops, outs)):
        w = op.split()
        if w[0] == "reset":
            f = dict(x.split("=", 1) for x in out.split()[1:] if "=" in x)
            idx = [int(x) for x in f.get("idx", "").split(",") if x != ""]
            if sorted(idx) != list(range(n)):
                return k, "C09:positions-not-a-permutation", "cccd_indices %s is not a permutation of 0..%d" % (idx, n - 1)
            continue
        if w[0] == "sec":
            if out == "ok":
                enc[int(w[1])] = w[2] == "1"
            continue
        if w[0] == "disc":
            c = int(w[1])
            cfg[c], enc[c] = [0] * n, False
            continue
        if w[0] == "mem":
            vals, cc = out.split(" | ")
            got_mem = [list(bytes.fromhex(v)) for v in vals.split("/")]
            got = [unpack(x, n, idx) for x in cc.split()]
            if got != cfg:
                return k, "C09:isolation", "stored configurations %s (raw %s), expected %s" % (got, cc, cfg)
            if got_mem != mem:
                return k, "C09:value-changed", "values %s, expected %s" % (vals, mem)
            continue
        if w[0] != "pdu":
            continue
        c = int(w[1])
        pdu = list(bytes.fromhex(w[2]))
        rsp = resp_bytes(out)
        cb = int(out.split("cb=")[1]) if "cb=" in out else 0
        if len(pdu) < 3:
            continue
        h = pdu[1] | pdu[2] << 8
        a = attrs[h - 1] if 1 <= h <= len(attrs) else None
        if pdu[0] in (0x12, 0x52):
            changed = False
            if a is not None and a.kind == "d":
                data = pdu[3:]
                ok = ((not a.enc) or enc[c]) and len(data) <= 2
                if ok and data:
                    changed = cfg[c][a.pos] != (data[0] & 3)
                    cfg[c][a.pos] = data[0] & 3
                if pdu[0] == 0x12 and (rsp == [0x13]) != ok:
                    return k, "C09:write-response", "CCCD write %s answered %s" % (op, out)
            elif a is not None and a.kind == "v":
                data = pdu[3:]
                if ((not a.enc) or enc[c]) and a.write and len(data) <= a.size:
                    mem[a.mem][0:len(data)] = data
            if cb != (1 if changed else 0):
                return k, "C09:callback", "%s: subscription callback called %d times, stored value %s" % (op, cb, "changed" if changed else "did not change")
        elif pdu[0] == 0x0a and len(pdu) == 3 and a is not None and a.kind == "d":
            if (not a.enc) or enc[c]:
                if rsp != [0x0b, cfg[c][a.pos], 0]:
                    return k, "C09:read-back", "conn %d reads %s from CCCD handle %d, last written bits are %d" % (c, out, h, cfg[c][a.pos])
            elif rsp[:1] != [1]:
                return k, "C09:read-unencrypted", "CCCD of an encryption protected characteristic read on an unencrypted link: %s" % out
    return None


def run_c09(ctx, replay_path=None):
    res = Result()
    res.rule = ("session = reset <server type with 1/4/5/9 CCCDs, C5P/C9P with outgoing priorities that permute the CCCD "
                "positions> followed by Write Requests / Write Commands to CCCDs (values 0..3, 16-bit forms, stray bits, "
                "empty and over-long), Read / Read Blob Requests of CCCDs, value writes, link security changes and "
                "disconnects on 3 connections, a dump of all values and raw CCCD bytes after every write and a final read "
                "of every CCCD on every connection. Compared line by line with the Lean model (responses, callback count, "
                "raw bytes, priorities and cccd_indices produced by the real templates) and checked by an independent "
                "Python oracle (last written bits per connection and CCCD). distinct = distinct op sequences that change "
                "at least two different CCCDs or connections")
    names = ["C5", "C9P", "C5P", "C9", "C4", "C1", "C9P", "C5P"]
    sessions, snames = [], []
    for f, ops in ctx.corpus():
        ops = expand_resets(ops, SERVERS)
        sessions.append(ops)
        snames.append(ops[0].split()[1])
    ncorpus = len(sessions)
    n = 2500 if ctx.thorough else 240
    for i in range(n):
        name = names[i % len(names)]
        sessions.append(gen_session(ctx.rng, name, ctx.rng.randrange(10, 60), res.count))
        snames.append(name)
    if ctx.thorough:
        # small scope: C5P, every pair of (CCCD, value) writes on two connections followed by the sweep
        attrs = attrs_of("C5P", SERVERS)
        cccds = [i + 1 for i, a in enumerate(attrs) if a.kind == "d"]
        for h1 in cccds:
            for h2 in cccds:
                for v1 in (1, 2, 3):
                    for v2 in (0, 1, 2, 3):
                        ops = [reset_line("C5P", SERVERS), "pdu 0 %s" % hx([0x12] + le16(h1) + [v1]), "mem",
                               "pdu 1 %s" % hx([0x12] + le16(h2) + [v2]), "mem", "pdu 0 %s" % hx([0x12] + le16(h2) + [v2, 0]), "mem"]
                        for c in range(2):
                            ops += ["pdu %d %s" % (c, hx([0x0a] + le16(h))) for h in cccds]
                        sessions.append(ops)
                        snames.append("C5P")
        res.extra["exhaustive_small_scope"] = "C5P: all pairs of CCCDs x values 1..3 / 0..3 written on two connections, full read-back"
    impl, model, dis = ctx.run_pair(sessions)
    for d in dis:
        ops = sessions[d["session"]]
        if len(res.disagreements) < 2:
            ops = ctx.shrink_disagreement(ops)
        res.disagreements.append(dict(d, ops=ops))
    seen = set()
    for name, ops, r in zip(snames, sessions, impl):
        outs = r["out"]
        res.evaluations += len(outs)
        res.sessions += 1
        res.count("sessions_" + name)
        if r["crash"]:
            res.failures.append({"key": "C09:crash:" + r["crash"].split(" @")[0].replace(" ", "-"),
                                 "what": "implementation crashed: " + r["crash"], "ops": ops[:len(outs) + 1]})
        m = monitor(name, ops, outs)
        if m:
            k, key, what = m
            fops = ops[:k + 1]
            if key not in seen:
                seen.add(key)

                def still(cand, key=key, name=name):
                    rr = ctx.run_impl([cand])[0]
                    mm = monitor(name, cand, rr["out"])
                    return bool(mm) and mm[1] == key
                fops = ctx.shrink(fops, still, budget=80)
            res.failures.append({"key": key, "what": what, "ops": fops, "observed": outs[k] if k < len(outs) else None})
        touched = set()
        for op, out in zip(ops, outs):
            if op.startswith("pdu") and out.startswith("13"):
                touched.add((op.split()[1], op.split()[2][2:6]))
                if "cb=1" in out:
                    res.count("callback_called")
                else:
                    res.count("write_without_change")
        if len(touched) >= 2:
            res.distinct.add(hash(tuple(ops)))
    res.samples = [" ; ".join(o for o in s if o != "mem")[:400] for s in sessions[ncorpus:ncorpus + 3]]
    return res


PROPS = {
    "C09": dict(
        theorems=["BluetoeModel.Cccd.flags_get_set",
                  "BluetoeModel.Cccd.cccd_write_exact",
                  "BluetoeModel.Cccd.cccd_read_after_write",
                  "BluetoeModel.Cccd.cccd_isolation",
                  "BluetoeModel.Cccd.callback_iff_changed",
                  "BluetoeModel.Cccd.cccd_positions_distinct",
                  "BluetoeModel.Cccd.cccd_position_in_array",
                  "BluetoeModel.Cccd.shape_invariant",
                  "BluetoeModel.Cccd.cccd_never_oob",
                  "BluetoeModel.Cccd.step_keeps_shape",
                  "BluetoeModel.Cccd.access_in_bounds",
                  "BluetoeModel.Cccd.attr_clause_exact"],
        imports=["BluetoeModel.Cccd.Props", "BluetoeModel.Cccd.PropsOob"],
        run=run_c09,
        level="proof",
        technique="Lean 4 proof of the 2-bit packing (all indices, any size), of the CCCD access function and of the "
                  "position permutation + differential correspondence with real servers with 1/4/5/9 CCCDs",
        level_text="flags_get_set: the 2-bit packing is exact for every index and array size (UInt8 bit operations); "
                   "cccd_write_exact / cccd_read_after_write / callback_iff_changed: the CCCD access function stores and returns "
                   "exactly the two written bits and reports a change iff the stored value changed; cccd_isolation and "
                   "cccd_positions_distinct: other connections and other CCCDs are untouched for every priority assignment. "
                   "cccd_never_oob / shape_invariant / cccd_position_in_array: for every well-formed table (decidable declWF: bound "
                   "values of the declared size, CCCD positions < number of configurations, max MTU >= 23; evaluated by the model "
                   "driver on every table of the real templates) and every history of all connections no flags( i ) / flags( i, v ) "
                   "leaves configs_ and no value access leaves the bound object (the model's Out.oob is unreachable). "
                   "Tied to the code by differential runs on servers with 1/4/5/9 CCCDs with and without priorities.",
        level_note="Trusted: Lean kernel + standard axioms; the priorities computed by outgoing_priority.hpp are an input of the "
                   "model (printed by the real templates, compared on every session); Read By Type / Read Multiple / notification "
                   "paths to the configuration are not modelled.",
        design_ref="§5 C09",
        assumptions=["servers without fixed handles", "bound characteristic values"],
    ),
}
