"""C18 — PDU ring buffer (bluetoe/link_layer/include/bluetoe/ring_buffer.hpp + PDU layouts)"""
from vlib.core import Result

NAME = "pduring"
LEAN_MODULE = "BluetoeModel.PduRing"
DRIVER = "drv_pduring"
HARNESS_DESC = "harness/pduring.cpp (real pdu_ring_buffer<Size, read_buffer, Layout>, storage in an exactly-sized heap block)"
HARNESS = dict(src="harness/pduring.cpp", includes=["bluetoe/bindings/nordic/include"], abs_includes=["harness/pduring"])

SIZES = [29, 30, 58, 61, 100, 255, 300, 600]
LAYOUTS = {0: 0, 1: 1, 2: 1, 3: 3}    # layout id -> overhead (0 default, 1 overhead<1>, 2 nRF encrypted, 3 overhead<3>)
LAYOUT_NAMES = {0: "default", 1: "overhead1", 2: "nrf-encrypted", 3: "overhead3"}


def hexs(b):
    return bytes(b).hex() if len(b) else "-"


# ------------------------------------------------------------------------------------------------
# generator
# ------------------------------------------------------------------------------------------------
def gen_session(rng, size, layout, length, flavour):
    """flavour: 'rx' (fixed buffer size, variable payload - how ll_data_pdu_buffer receives),
    'exact' (buffer = PDU size), 'mixed', 'big' (PDUs around 255/256 bytes of memory)"""
    ov = LAYOUTS[layout]
    ms = lambda l: 2 + ov + l
    ops = ["reset %d %d %d" % (size, layout, rng.choice([0, 0xAA, 0xFF, rng.randrange(256)]))]
    front = end = 0          # generator's own estimate, only used to aim at the boundaries
    live = []
    p_push = rng.choice([0.35, 0.45, 0.55])
    fixed_n = rng.choice([ms(27), ms(1), ms(rng.randrange(1, 40)), size // 2, size // 2 + 1, size - 1, size])
    serial = rng.randrange(256)

    def aim():
        """buffer sizes at and next to the places where the allocation rule changes"""
        cands = [size - front, size - front + 1, size - front - 1, end, end - 1, end + 1,
                 end - front, end - front - 1, end - front + 1, size, size - 1, size + 1, ms(1), ms(0) + 1]
        cands = [c for c in cands if c >= ms(0) - 1]
        return rng.choice(cands) if cands else ms(1)

    for _ in range(length):
        r = rng.random()
        if r < p_push:
            if flavour == "rx":
                n = fixed_n
            elif flavour == "big":
                n = rng.choice([ms(l) for l in (250, 251, 252, 253, 254, 255)] + [size, size - 1, 256, 255, 257])
            elif rng.random() < 0.35:
                n = aim()
            else:
                n = ms(rng.randrange(1, max(2, min(255, size - 2 - ov) + 1)))
            n = max(n, 0)
            lmax = min(255, n - 2 - ov)
            m = rng.random()
            if lmax < 1 or m < 0.04:
                # malformed: violates a precondition (length 0 / PDU larger than buffer / short data)
                kind = rng.randrange(4)
                if kind == 0:
                    data = [serial, 0] + [1] * max(0, min(n, 6) - 2)
                elif kind == 1:
                    data = [serial, min(255, max(1, lmax + 1 + rng.randrange(3)))]
                elif kind == 2:
                    data = [serial]
                else:
                    data = [serial, 1] + [3] * (n + rng.randrange(1, 3))
            else:
                if flavour == "big":
                    l = rng.choice([lmax, lmax, max(1, lmax - 1), max(1, lmax - 2), rng.randrange(1, lmax + 1)])
                elif flavour == "exact" or rng.random() < 0.3:
                    l = lmax
                else:
                    l = rng.randrange(1, lmax + 1)
                serial = (serial + 1) % 256
                body = [(serial + i) % 256 for i in range(ov + l)]
                if rng.random() < 0.1 and body:
                    body[0] = 0                      # zero bytes inside the PDU must not look like a wrap mark
                data = [serial, l] + body
                w = rng.random()
                if w < 0.15:
                    data = data[:rng.randrange(2, len(data) + 1)]      # caller writes only part of the PDU
                elif w < 0.35:
                    data = data + [0xEE] * (n - len(data))              # caller scribbles over the whole buffer
                # estimate of the ring state (exact when the push succeeds as the model says)
                o = None
                if front < end and front + n < end:
                    o = front
                elif end <= front:
                    if front + n <= size:
                        o = front
                    elif n < end:
                        o = 0
                if o is not None:
                    if not live:
                        end = o
                    front = o + ms(l)
                    live.append(ms(l))
            ops.append("push %d %s" % (n, hexs(data)))
        elif r < p_push + 0.25:
            ops.append("pop")
            if live:
                end += live.pop(0)
                if live and end != front and end + 1 >= size:
                    end = 0      # (a wrap at a mark is not tracked: the estimate only aims the sizes)
        elif r < p_push + 0.37:
            ops.append("peek")
        elif r < p_push + 0.47:
            ops.append("alloc %d" % (aim() if rng.random() < 0.7 else rng.randrange(0, size + 3)))
        elif r < p_push + 0.53:
            ops.append("more")
        else:
            ops.append("mem")
    ops += ["mem", "peek", "more"]
    return ops


# ------------------------------------------------------------------------------------------------
# monitor: the property statement evaluated on the implementation's answers, with its own
# bookkeeping (a Python list of committed PDUs and a shadow copy of the storage)
# ------------------------------------------------------------------------------------------------
def monitor(ops, outs):
    size = ov = 0
    live = []        # (offset, bytes) in commit order
    shadow = []
    front = 0        # end of the most recently committed PDU
    end = 0          # position of the oldest live PDU; == front when empty
    big = False

    def key(k):
        return "C18:%s%s" % (k, ":pdu-memory-size-ge-256" if big else "")

    def overlaps(o, n):
        return [(a, len(p)) for a, p in live if a < o + n and o < a + len(p)]

    def same(p, got):
        """p (None = not yet observed byte) against observed bytes; fills in the unknown bytes"""
        if got is None or len(got) != len(p) or any(a is not None and a != b for a, b in zip(p, got)):
            return False
        p[:] = got
        return True

    def expected_alloc(n):
        if live and front < end:
            return front if front + n < end else None
        if front + n <= size:
            return front
        if n < end:
            return 0
        return None

    for k, (op, out) in enumerate(zip(ops, outs)):
        w = op.split()
        if out in ("pre", "bad-op"):
            continue
        if w[0] == "reset":
            size, ov = int(w[1]), LAYOUTS[int(w[2])]
            shadow = [int(w[3])] * size
            live, front, end, big = [], 0, 0, False
        elif w[0] == "alloc":
            n = int(w[1])
            exp = expected_alloc(n)
            got = None if out == "none" else int(out)
            if got is not None and (got + n > size or overlaps(got, n)):
                return k, key("alloc-overlaps-or-outside"), "op %d `%s`: buffer [%d,%d) handed out, storage size %d, live PDUs %s" % (
                    k, op, got, got + n, size, [(a, len(p)) for a, p in live])
            if got != exp:
                return k, key("alloc-rule"), "op %d `%s`: alloc_front answered %s, the ring's rules (front %d, oldest PDU at %d, %d live) give %s" % (
                    k, op, out, front, end, len(live), exp)
        elif w[0] == "push":
            n = int(w[1])
            data = list(bytes.fromhex(w[2])) if w[2] != "-" else []
            exp = expected_alloc(n)
            if out == "none":
                if exp is not None:
                    return k, key("alloc-rule"), "op %d `%s`: allocation refused although [%d,%d) is free under the ring's rules" % (k, op[:40], exp, exp + n)
                continue
            o = int(out.split()[0])
            if o + n > size or overlaps(o, n):
                return k, key("alloc-overlaps-or-outside"), "op %d `%s`: buffer [%d,%d) handed out, storage size %d, live PDUs %s" % (
                    k, op[:40], o, o + n, size, [(a, len(p)) for a, p in live])
            if exp != o:
                return k, key("alloc-rule"), "op %d `%s`: allocated at %s, the ring's rules give %s" % (k, op[:40], o, exp)
            shadow[o:o + len(data)] = data
            ms = 2 + ov + data[1]
            if ms >= 256:
                big = True
            if not live:
                end = o
            # bytes of the PDU the caller did not write are whatever the storage held (possibly an
            # old wrap mark): unknown until first observed, unchanged from then on
            live.append((o, (data[:ms] + [None] * (ms - len(data)))))
            front = o + ms
        elif w[0] == "peek":
            if not live:
                if out != "none":
                    return k, key("fifo:peek-on-empty"), "op %d peek: ring answered %s, no PDU is committed" % (k, out[:60])
            else:
                o, p = live[0]
                f = out.split()
                got = list(bytes.fromhex(f[2])) if len(f) == 3 and f[2] != "-" else None
                if len(f) != 3 or f[0] != str(o) or f[1] != str(len(p)) or not same(p, got):
                    return k, key("fifo:peek"), "op %d peek: ring answered `%s`, oldest committed PDU is `%d %d %s`" % (
                        k, out[:70], o, len(p), hexs([x or 0 for x in p])[:50])
        elif w[0] == "pop":
            if not live:
                return k, key("fifo:pop-on-empty"), "op %d pop: ring claims to hold a PDU, none is committed" % k
            live.pop(0)
            end = live[0][0] if live else front
        elif w[0] == "more":
            exp = "1" if len(live) >= 2 else "0"
            if out != exp:
                return k, key("more-than-one"), "op %d more_than_one: ring answered %s with %d PDUs committed" % (k, out, len(live))
        elif w[0] == "mem":
            dump = list(bytes.fromhex(out)) if out != "-" else []
            if len(dump) != size:
                return k, key("mem-size"), "op %d mem: %d bytes" % (k, len(dump))
            for o, p in live:
                if not same(p, dump[o:o + len(p)]):
                    return k, key("live-pdu-overwritten"), "op %d mem: PDU committed at %d (%d bytes) changed in storage" % (k, o, len(p))
            for i in range(size):
                if dump[i] != shadow[i] and dump[i] != 0:
                    return k, key("stray-write"), "op %d mem: byte %d changed from %d to %d, not written by the caller and not a wrap mark" % (
                        k, i, shadow[i], dump[i])
            shadow = dump
        # live PDUs never overlap and lie inside the storage
        ext = sorted((a, a + len(p)) for a, p in live)
        for (a0, b0), (a1, b1) in zip(ext, ext[1:]):
            if a1 < b0:
                return k, key("live-overlap"), "op %d: live PDUs [%d,%d) and [%d,%d) overlap" % (k, a0, b0, a1, b1)
        if ext and ext[-1][1] > size:
            return k, key("live-outside"), "op %d: live PDU [%d,%d) outside storage of %d" % (k, ext[-1][0], ext[-1][1], size)
    return None


def enumerate_small(size, layout, alphabet, depth):
    seqs = [[]]
    for _ in range(depth):
        seqs = [s + [x] for s in seqs for x in alphabet]
    return [["reset %d %d 170" % (size, layout)] + s + ["peek", "more", "mem"] for s in seqs]


def pdu(l, ov, tag):
    return hexs([tag, l] + [(tag + i) % 256 for i in range(ov + l)])


def run_c18(ctx, replay_path=None):
    res = Result()
    res.rule = ("sessions = `reset <size> <layout> <fill>` (sizes 29,30,58,61,100,255,300,600 x default / layout_with_overhead<1> / "
                "nRF encrypted_pdu_layout / layout_with_overhead<3>) followed by random alloc / push (= alloc_front + fill + push_front) / "
                "peek / pop / more_than_one / memory-dump ops; buffer sizes are aimed at the places where the allocation rule changes "
                "(remaining bytes to the end of the storage, distance to end_, +-1), PDU memory sizes up to 258; pushes whose aimed buffer is too small for any PDU and a further 4% deliberately violate a "
                "documented precondition (about a quarter of all pushes; answered `pre` by harness and model without calling the ring). Every session runs on the real "
                "pdu_ring_buffer (storage = exactly-sized heap block under ASan) and on the Lean model; all answers (offsets, front_/end_ "
                "offsets, PDU bytes, full storage dumps) are compared verbatim, and an independent Python monitor (list of committed PDUs + "
                "shadow storage) checks FIFO order, unchanged bytes, non-overlap, in-bounds, stray writes and the allocation rule. "
                "non-trivial = session in which an allocation wrapped to the start of the storage or was refused")
    if replay_path:
        import json
        j = json.load(open(replay_path))
        sessions = [j.get("ops") or j["first_disagreement"]["ops"]]
    else:
        sessions = [ops for _, ops in ctx.corpus()]
        n = 6000 if ctx.thorough else 700
        flavours = ["rx", "exact", "mixed", "mixed", "big"]
        for i in range(n):
            size = SIZES[i % len(SIZES)]
            layout = ctx.rng.randrange(4)
            fl = flavours[(i // len(SIZES)) % len(flavours)]
            if fl == "big" and size < 255:
                fl = "mixed"
            sessions.append(gen_session(ctx.rng, size, layout, ctx.rng.randrange(8, 80), fl))
        if ctx.thorough:
            # every op sequence of length 6 over a small alphabet on the smallest rings (wraps after 2 pushes)
            for size, layout in ((29, 0), (30, 2)):
                ov = LAYOUTS[layout]
                alpha = ["push 12 " + pdu(10 - ov, ov, 1), "push 9 " + pdu(5 - ov, ov, 2), "push 17 " + pdu(3, ov, 3),
                         "pop", "alloc 13", "more"]
                sessions += enumerate_small(size, layout, alpha, 6)
            res.extra["exhaustive_small_scope"] = "all 6^6 op sequences over {push 12, push 9, push 17(short PDU), pop, alloc 13, more} on size 29/default and size 30/nRF-encrypted"
    impl, model, dis = ctx.run_pair(sessions)
    for d in dis:
        ops = ctx.shrink_disagreement(sessions[d["session"]]) if len(res.disagreements) < 1 else sessions[d["session"]]
        res.disagreements.append(dict(d, ops=ops))
    seen_keys = set()
    for ops, r in zip(sessions, impl):
        outs = r["out"]
        res.evaluations += len(outs)
        res.sessions += 1
        w0 = ops[0].split()
        res.count("size_%s" % w0[1])
        res.count("layout_%s" % LAYOUT_NAMES.get(int(w0[2]), "?"))
        wrapped = refused = False
        for o, x in zip(ops, outs):
            kind = o.split()[0]
            res.count("op_" + kind)
            if x == "pre":
                res.count("precondition_violations")
            elif kind in ("alloc", "push"):
                if x == "none":
                    refused = True
                    res.count(kind + "_refused")
                else:
                    f = x.split()
                    if kind == "push":
                        res.count("push_split_shape" if int(f[1]) < int(f[2]) else "push_contiguous_shape")
                        if int(o.split()[1]) >= 256 or 2 + LAYOUTS[int(w0[2])] + int(o.split()[2][2:4], 16) >= 256:
                            res.count("push_pdu_memory_size_ge_256" if 2 + LAYOUTS[int(w0[2])] + int(o.split()[2][2:4], 16) >= 256 else "push_buffer_ge_256")
            elif kind == "pop":
                f = x.split()
                if len(f) == 2:
                    res.count("pop_to_empty" if f[0] == f[1] else ("pop_end_wrapped_or_at_0" if f[1] == "0" else "pop_plain"))
        prev_front = 0
        for o, x in zip(ops, outs):
            if o.startswith("push") and x not in ("none", "pre"):
                f = x.split()
                if f[0] == "0" and prev_front != 0:
                    wrapped = True
                    res.count("push_wrapped_to_start")
                prev_front = int(f[1])
            elif o.startswith("reset"):
                prev_front = 0
        res.count("sessions_with_wrap", wrapped)
        res.count("sessions_with_refused_allocation", refused)
        if wrapped or refused:
            res.distinct.add(hash(tuple(ops)))
        if r["crash"]:
            res.failures.append({"key": "C18:crash:" + r["crash"].split(" @")[0], "what": r["crash"], "ops": ops[:len(outs) + 1]})
            continue
        m = monitor(ops, outs)
        if m:
            k, key, what = m
            fops = ops[:k + 1]
            if key not in seen_keys and len(seen_keys) < 3:
                seen_keys.add(key)

                def fails(cand, key=key):
                    rr = ctx.run_impl([cand])[0]
                    mm = monitor(cand, rr["out"])
                    return bool(mm and mm[1] == key)
                fops = ctx.shrink(fops, fails, budget=60)
                rr = ctx.run_impl([fops])[0]
                mm = monitor(fops, rr["out"])
                if mm:
                    what = mm[2]
            res.failures.append({"key": key, "what": what, "ops": fops})
    res.samples = [" ; ".join(x[:60] for x in s[:10]) for s in sessions[len(ctx.corpus()):len(ctx.corpus()) + 3]]
    return res


PROPS = {
    "C18": dict(
        theorems=["BluetoeModel.PduRing.run_refines_fifo",
                  "BluetoeModel.PduRing.step_refines_fifo",
                  "BluetoeModel.PduRing.push_refines", "BluetoeModel.PduRing.pop_refines", "BluetoeModel.PduRing.peek_refines",
                  "BluetoeModel.PduRing.more_refines",
                  "BluetoeModel.PduRing.live_disjoint", "BluetoeModel.PduRing.live_in_bounds",
                  "BluetoeModel.PduRing.writes_in_bounds", "BluetoeModel.PduRing.frame_outside_buffer_and_mark",
                  "BluetoeModel.PduRing.alloc_fails_iff", "BluetoeModel.PduRing.alloc_position",
                  "BluetoeModel.PduRing.alloc_region_free", "BluetoeModel.PduRing.pop_pre_iff",
                  "BluetoeModel.PduRing.rep_reset"],
        witnesses=["BluetoeModel.PduRing.unfixed_push_loses_pdu_witness", "BluetoeModel.PduRing.fixed_push_keeps_pdu",
                   "BluetoeModel.PduRing.empty_ring_midbuffer_refuses"],
        imports=["BluetoeModel.PduRing.Props", "BluetoeModel.PduRing.Witness"],
        run=run_c18,
        level="proof",
        technique="Lean 4 refinement proof (offset model of pdu_ring_buffer refines a FIFO list of committed PDUs for every history, ring size and layout overhead; representation invariant with the three shapes empty / contiguous / split-with-wrap-mark) + differential correspondence with the real pdu_ring_buffer<> under ASan",
        level_text="Theorem run_refines_fifo: for every ring size >= 2, every layout overhead, every initial storage content and every history of alloc/push/peek/pop/more operations the model of the C++ ring (after fix pduring-01) never accesses storage out of bounds and answers exactly like a FIFO list of the committed PDUs (same bytes, same order); live PDUs are pairwise disjoint, inside the storage and keep their offset and bytes until popped; alloc_front fails exactly under the stated rule and a handed-out buffer never intersects a live PDU or the pending wrap mark. The model is tied to the code by identical random histories on 8 sizes x 4 layouts (incl. the real nRF encrypted_pdu_layout) with verbatim comparison of offsets, PDU bytes and full storage dumps, plus an independent Python FIFO/shadow-memory monitor.",
        level_note="Trusted: Lean kernel + propext/Quot.sound/Classical.choice; model = code only as far as the differential check samples it; callers respect the documented preconditions of push_front (length field != 0, PDU fits the allocated buffer, writes stay inside the buffer) - violations are answered `pre` by harness and model alike and are outside the theorems; layouts with a different header encoding (tests' changed_pdu_layout with inverted header bits) are not covered.",
        design_ref="§5 C18, Appendix A.2",
        assumptions=["callers keep the documented preconditions of alloc_front/push_front/pop_end",
                     "layout = 16-bit little-endian header at offset 0 + constant overhead (default, nRF encrypted, layout_with_overhead<N>)",
                     "single-threaded use (the ring itself has no concurrency control; interleavings are C15/C30's business)"],
    ),
}
