"""C24 / C25 — advertiser of the link layer (bluetoe/link_layer/include/bluetoe/advertising.hpp)"""
import itertools

from vlib.core import Result

NAME = "adv"
LEAN_MODULE = "BluetoeModel.Adv"
DRIVER = "drv_adv"
HARNESS_DESC = ("harness/adv.cpp (real details::advertiser<> + channel maps + start/stop + white_list<4> in a mock link layer); "
                "C25 also harness/adv/adv_ll.cpp (real link_layer<> with white_list<4> on tests/test_tools/test_radio) and "
                "harness/adv/nrf_scan.cpp (real nrf52.hpp is_valid_scan_request on emulated RADIO registers)")
HARNESS = {
    "default": dict(src="harness/adv.cpp", repo_srcs=["bluetoe/utility/address.cpp", "bluetoe/link_layer/delta_time.cpp"]),
    "ll": dict(src="harness/adv/adv_ll.cpp",
               repo_srcs=["tests/test_tools/test_radio.cpp", "tests/test_tools/hexdump.cpp", "tests/test_tools/buffer_io.cpp",
                          "tests/test_tools/address_io.cpp", "bluetoe/link_layer/channel_map.cpp",
                          "bluetoe/link_layer/connection_details.cpp", "bluetoe/link_layer/delta_time.cpp",
                          "bluetoe/utility/address.cpp"],
               includes=["tests/test_tools"],
               ldflags=["-lboost_unit_test_framework"]),
    "nrf": dict(src="harness/adv/nrf_scan.cpp", repo_srcs=["bluetoe/utility/address.cpp", "bluetoe/link_layer/delta_time.cpp"],
                includes=["bluetoe/bindings/nordic/include", "bluetoe/bindings/nordic/nrf52/include"],
                abs_includes=["harness/adv/nrf_stub"], std="c++14"),
}

# configuration -> (variable map, variable interval, fixed interval ms, auto start, types)
CFG = {
    0: (False, False, 100, True, [0]),
    1: (True, True, 100, False, [0]),
    2: (True, False, 30, True, [0]),
    3: (False, True, 100, False, [0]),
    4: (True, True, 100, False, [0, 1, 2, 3]),
    5: (False, False, 100, True, [1]),
    6: (False, False, 100, True, [2]),
    7: (False, False, 100, True, [3]),
}
START_OPS = ("llstart", "start", "startn", "direct")


def sched_of(line):
    """the scheduling part of an output line: None | (channel, delay_us)"""
    w = line.split()
    if w and w[0] == "acc":
        w = w[2:]
    elif w and w[0] == "rej":
        w = w[1:]
    if len(w) in (3, 4) and w[0] == "s":
        return int(w[1]), int(w[2])
    return None


def air_type_of(line):
    """type of the advertising PDU handed to the radio by this op (lower 4 bits of its header, printed by
    the harnesses as t<n>): None if nothing was scheduled"""
    w = line.split()
    if w and w[-1].startswith("t") and w[-1][1:].isdigit() and "s" in w:
        return int(w[-1][1:])
    return None


def proj_sched(op, line):
    """C24 talks about what is scheduled only (not about accepting connect requests)"""
    w = line.split()
    if w and w[0] == "acc":
        w = w[2:]
    elif w and w[0] == "rej":
        w = w[1:]
    if len(w) == 4 and w[0] == "s":
        w = w[:3]            # the type of the advertising PDU is C25's business
    return " ".join(w)


def proj_accept(op, line):
    """C25 talks about accepting / rejecting and about the type of the advertising PDU that is answered
    (not about channels and delays)"""
    w = line.split()
    t = air_type_of(line)
    tt = "" if t is None else " t%d" % t
    if w and w[0] in ("acc", "rej"):
        return " ".join(w[:2]) if w[0] == "acc" else "rej" + tt
    if w and w[0] == "s":
        return "s" + tt
    if w and w[0].startswith("v="):
        return w[1]          # the model also evaluates the (uncompilable) generic predicate: v=…
    return line


# ------------------------------------------------------------------------------------------------
# C24
# ------------------------------------------------------------------------------------------------
def map_ops_to(rng, current, target):
    """add/remove ops (in random order, possibly through the empty map) turning `current` into `target`"""
    ops = []
    cur = set(current)
    todo = [("remove", c) for c in sorted(cur - target)] + [("add", c) for c in sorted(target - cur)]
    rng.shuffle(todo)
    if rng.random() < 0.3:   # redundant changes
        todo.insert(rng.randrange(len(todo) + 1), ("add", rng.choice(sorted(target))))
    for o, c in todo:
        ops.append("%s %d" % (o, c))
    return ops


def gen_c24_session(rng, cfg, unsupported=False):
    var_map, var_int, fixed_ms, auto, types = CFG[cfg]
    ops = ["reset %d" % cfg]
    cur = {37, 38, 39}
    advertising = False

    def choose_map():
        nonlocal cur
        if not var_map:
            return
        target = set(rng.choice([[37], [38], [39], [37, 38], [37, 39], [38, 39], [37, 38, 39], [37, 39], [37, 39]]))
        ops.extend(map_ops_to(rng, cur, target))
        cur = target

    def start():
        nonlocal advertising
        if not auto:
            r = rng.random()
            ops.append("start" if r < 0.55 else "startn %d" % rng.choice([1, 2, 3, 4, 5, 7, 20]))
            if r > 0.9:
                ops.append("start")
        advertising = True

    choose_map()
    if unsupported and rng.random() < 0.5:
        # radio callbacks the real link layer never makes (nothing is scheduled yet): correspondence only
        if not auto and rng.random() < 0.7:
            ops.append(rng.choice(["start", "startn 3"]))
        ops.extend(["timeout"] * rng.randrange(1, 4))
    if rng.random() < 0.5 and not auto:
        start()
        ops.append("llstart")
    else:
        ops.append("llstart")
        if not auto:
            start()
    advertising = True
    for _ in range(rng.randrange(3, 9)):
        ops.extend(["timeout"] * rng.randrange(1, 11))
        r = rng.random()
        if var_int and r < 0.25:
            ops.append("interval %d" % rng.choice([19, 20, 21, 30, 100, 1000, 10240, 10241, rng.randrange(0, 12000)]))
        elif r < 0.45:
            # connection established, later lost (link layer calls handle_stop / handle_start)
            ops.append("llstop")
            advertising = False
            if unsupported and rng.random() < 0.5:
                ops.extend(["timeout"] * rng.randrange(1, 3))     # (never happens with the real link layer)
            if rng.random() < 0.6:
                choose_map()
            ops.append("llstart")
            if not auto:
                start()
            advertising = True
        elif not auto and r < 0.75:
            ops.append("stop")
            ops.extend(["timeout"] * rng.randrange(1, 3))
            if rng.random() < 0.6:
                choose_map()
            start()
        elif r < 0.8:
            ops.append("dirty")
        elif unsupported and var_map and r < 0.95:
            # "It is not supported to change the channel map during advertising." -> correspondence only
            target = set(rng.choice([[37], [38], [39], [37, 38], [37, 39], [38, 39], [37, 38, 39]]))
            ops.extend(map_ops_to(rng, cur, target))
            cur = target
    ops.extend(["timeout"] * rng.randrange(1, 8))
    return ops


def enum_map_sessions(depth, steps):
    """every add/remove sequence of length <= depth on the variable map, then `steps` advertising
    PDUs (skipped when the sequence ends with the empty map, which the documentation excludes)"""
    alphabet = ["%s %d" % (o, c) for o in ("add", "remove") for c in (37, 38, 39)]
    sessions = []
    for n in range(depth + 1):
        for seq in itertools.product(alphabet, repeat=n):
            cur = {37, 38, 39}
            for o in seq:
                k, c = o.split()
                (cur.add if k == "add" else cur.discard)(int(c))
            if cur:
                sessions.append(["reset 2"] + list(seq) + ["llstart"] + ["timeout"] * steps)
    return sessions


def setup_map(m):
    """ops that turn the initial map {37, 38, 39} into `m`"""
    return ["remove %d" % c for c in (37, 38, 39) if c not in m]


ALL_MAPS = [{37}, {38}, {39}, {37, 38}, {37, 39}, {38, 39}, {37, 38, 39}]
EDITS = ["%s %d" % (o, c) for o in ("add", "remove") for c in (37, 38, 39)]


def edit_sequences(depth, orders=None, second_add=False):
    """every add/remove sequence up to `depth` + emptying the map (in every order) followed by every re-add"""
    seqs = [list(q) for n in range(1, depth + 1) for q in itertools.product(EDITS, repeat=n)]
    for order in (orders or list(itertools.permutations((37, 38, 39)))):
        for c in (37, 38, 39):
            seqs.append(["remove %d" % x for x in order] + ["add %d" % c])
            if second_add:
                seqs.append(["remove %d" % x for x in order] + ["add %d" % c, "add %d" % (37 + (c - 36) % 3)])
    return seqs


def map_after(m, seq):
    m = set(m)
    for o in seq:
        k, c = o.split()
        (m.add if k == "add" else m.discard)(int(c))
    return m


def enum_cursor_sessions(depth, steps, thorough=False):
    """map edits at every cursor position.
    (1) while advertising runs (variable map, auto start): every start map x after 1..3 PDUs (cursor on every
        position of the event, incl. the wrap) x every edit sequence, then `steps` PDUs.  The cursor the edits
        leave behind is observable only here since fix adv-02 (a restart selects the first channel);
    (2) no_auto_start: the same edits after stop_advertising (PDU still pending / timed out), after
        start_advertising( n ) ran out of PDUs in the middle of an event, and before the restart."""
    sessions = []
    seqs = edit_sequences(depth, second_add=thorough)
    for m in ALL_MAPS:
        for k in (1, 2, 3):
            for seq in seqs:
                if map_after(m, seq):
                    sessions.append(["reset 2"] + setup_map(m) + ["llstart"] + ["timeout"] * (k - 1) + seq + ["timeout"] * steps)
    short = edit_sequences(1, orders=None if thorough else [(39, 38, 37), (37, 38, 39)])
    for m in ALL_MAPS:
        for seq in short:
            if not map_after(m, seq):
                continue
            pre = ["reset 1"] + setup_map(m) + ["llstart"]
            for n in ((1, 2, 3, 4) if thorough else (1, 2, 3)):
                # count exhausted after n PDUs (inside an event unless n is a multiple of the map size)
                sessions.append(pre + ["startn %d" % n] + ["timeout"] * n + seq + ["start"] + ["timeout"] * steps)
                if thorough or n == 2:
                    sessions.append(pre + ["startn %d" % n] + ["timeout"] * n + seq + ["startn 2", "timeout", "timeout"] + seq[-1:] + ["start"] + ["timeout"] * 4)
            for k in ((1, 2, 3) if thorough else (1, 2)):
                # stop while the k-th PDU is pending; edit before / after that PDU timed out
                sessions.append(pre + ["start"] + ["timeout"] * (k - 1) + ["stop", "timeout"] + seq + ["start"] + ["timeout"] * steps)
                sessions.append(pre + ["start"] + ["timeout"] * (k - 1) + ["stop"] + seq + ["timeout", "start"] + ["timeout"] * steps)
            # connection made and lost, map edited in between
            sessions.append(pre + ["start", "timeout", "llstop"] + seq + ["llstart", "start"] + ["timeout"] * steps)
    return sessions


def monitor_c24(ops, outs):
    """independent oracle: the property statement evaluated on what the advertiser scheduled.
    Returns a list of (key, what, op_index)."""
    hits = []
    cfg = int(ops[0].split()[1])
    var_map, var_int, fixed_ms, auto, types = CFG[cfg]
    enabled = {37, 38, 39}
    interval = 100000 if var_int else fixed_ms * 1000
    budget = None if auto else 0      # PDUs the start/stop/count controls still permit (None = unbounded)
    prev = None                       # channel of the previous PDU of the running sequence of events
    after_edit = False                # the channel map was edited while that sequence was running

    def name(m):
        return "-".join(str(c) for c in sorted(m))

    for k, (op, out) in enumerate(zip(ops, outs)):
        w = op.split()
        kind = w[0]
        if out in ("bad-op",):
            continue
        if kind in ("add", "remove"):
            (enabled.add if kind == "add" else enabled.discard)(int(w[1]))
            # an edit while a sequence of events is running ("not supported" by the documentation, but the
            # property says "including maps changed at run time"): the PDU that follows only has to go to a
            # channel that is enabled when it is scheduled; order is checked again from that PDU on
            after_edit = after_edit or prev is not None
            prev = None
        elif kind == "interval":
            if 20 <= int(w[1]) <= 10240:
                interval = int(w[1]) * 1000
        elif kind == "stop":
            budget = 0
        elif kind == "llstop" and not auto:
            budget = 0
        if kind == "start":
            budget = None
        elif kind == "startn":
            budget = int(w[1])
        s = sched_of(out)
        if s is None:
            continue
        ch, delay = s
        if budget is not None:
            if budget == 0:
                hits.append(("C24:pdu-not-permitted-by-start-stop-count", "op %d `%s`: PDU on channel %d although stop/count/not-started forbids it" % (k, op, ch), k))
            else:
                budget -= 1
        if ch not in enabled:
            hits.append(("C24:map-%s-visits-%d" % (name(enabled), ch),
                         "op %d `%s`: advertising PDU scheduled on disabled channel %d (enabled: %s)" % (k, op, ch, name(enabled)), k))
            prev = ch
            continue
        if after_edit and kind not in START_OPS:
            after_edit = False
            if delay != 0 and not (interval <= delay <= interval + 10000):
                hits.append(("C24:delay-out-of-range", "op %d `%s`: events separated by %d us, interval %d us" % (k, op, delay, interval), k))
            prev = ch
            continue
        after_edit = False
        if kind in START_OPS:
            if delay != 0:
                hits.append(("C24:start-delayed", "op %d `%s`: first PDU delayed by %d us" % (k, op, delay), k))
            if ch != min(enabled):
                hits.append(("C24:restart-not-on-first-channel",
                             "op %d `%s`: advertising (re)started on channel %d, the event misses the lower enabled channel(s) of %s" % (k, op, ch, name(enabled)), k))
        elif prev is None:
            hits.append(("C24:pdu-without-start", "op %d `%s`: PDU on %d without start" % (k, op, ch), k))
        elif delay == 0:
            higher = [c for c in enabled if c > prev]
            if not higher or ch != min(higher):
                hits.append(("C24:event-order:map-%s" % name(enabled),
                             "op %d `%s`: channel %d follows %d within one event (enabled: %s)" % (k, op, ch, prev, name(enabled)), k))
        else:
            if prev != max(enabled):
                hits.append(("C24:event-incomplete:map-%s" % name(enabled),
                             "op %d `%s`: new event although the last one ended on channel %d (enabled: %s)" % (k, op, prev, name(enabled)), k))
            if ch != min(enabled):
                hits.append(("C24:event-not-from-first:map-%s" % name(enabled),
                             "op %d `%s`: event starts on channel %d (enabled: %s)" % (k, op, ch, name(enabled)), k))
            if not (interval <= delay <= interval + 10000):
                hits.append(("C24:delay-out-of-range", "op %d `%s`: events separated by %d us, interval %d us" % (k, op, delay, interval), k))
        prev = ch
    return hits


def run_c24(ctx, replay_path=None):
    res = Result()
    res.rule = ("sessions = reset <cfg> (5 option sets of the real advertiser: all/variable channel map x fixed/variable interval x "
                "auto/no_auto start x single/multiple advertising type) + map changes while stopped, start/startn/stop, "
                "llstart/llstop (connection made and lost), interval changes, timeouts; every scheduled (channel, delay) is compared "
                "with the Lean model and checked by an independent Python monitor (events ascending over exactly the enabled "
                "channels, delay in [interval, interval + 10 ms], PDUs permitted by start/stop/count); plus every add/remove "
                "sequence up to length 3 (quick) / 4 (thorough) on the variable map followed by 12 / 40 PDUs (exhaustive); "
                "a session is non-trivial if >= 4 PDUs were scheduled; distinct = distinct op sequences")
    corpus = [ops for _, ops in ctx.corpus()]
    sessions = list(corpus)
    monitored = [True] * len(sessions)
    n = 3000 if ctx.thorough else 300
    for i in range(n):
        cfg = [1, 2, 4, 1, 2, 0, 3, 4][i % 8]
        unsupported = (i % 5 == 4)
        sessions.append(gen_c24_session(ctx.rng, cfg, unsupported))
        monitored.append(not unsupported)
    enum = enum_map_sessions(4, 40) if ctx.thorough else enum_map_sessions(3, 12)
    enum += enum_cursor_sessions(3, 8, True) if ctx.thorough else enum_cursor_sessions(2, 5)
    sessions += enum
    monitored += [True] * len(enum)
    res.exhaustive = True
    res.extra["exhaustive_small_scope"] = ("variable_advertising_channel_map: every add/remove sequence of length <= %d "
                                           "ending in a non-empty map, then %d PDUs; map edits at every cursor position: 7 start maps x "
                                           "after 1..3 PDUs of a running event x every edit sequence of length <= %d (+ emptying the map in "
                                           "every order and re-adding) and, with no_auto_start, after stop / count exhaustion inside an "
                                           "event / connection lost, before the restart"
                                           % ((4, 40, 3) if ctx.thorough else (3, 12, 2)))
    impl, model, dis = ctx.run_pair(sessions, proj_sched)
    for d in dis:
        ops = ctx.shrink_disagreement(sessions[d["session"]], proj_sched) if len(res.disagreements) < 2 else sessions[d["session"]]
        res.disagreements.append(dict(d, ops=ops))
    seen_keys = set()
    for ops, r, mon in zip(sessions, impl, monitored):
        outs = r["out"]
        res.evaluations += len(outs)
        res.sessions += 1
        for o in ops:
            res.count("op:" + o.split()[0])
        res.count("cfg:%s" % ops[0].split()[1])
        pdus = [sched_of(o) for o in outs]
        npdu = sum(1 for p in pdus if p)
        res.count("pdus", npdu)
        for p in pdus:
            if p:
                res.count("delay:" + ("now" if p[1] == 0 else "interval"))
        if npdu >= 4:
            res.distinct.add(hash(tuple(ops)))
        if r["crash"]:
            res.failures.append({"key": "C24:crash:" + r["crash"].split(" @")[0], "what": r["crash"], "ops": ops[:len(outs) + 1]})
            continue
        if not mon:
            res.count("sessions_outside_documented_use_correspondence_only")
            continue
        for key, what, k in monitor_c24(ops, outs):
            if key in seen_keys:
                res.count("failure:" + key)
                continue
            seen_keys.add(key)
            res.count("failure:" + key)
            small = ops[:k + 1]
            if len(small) > 4:
                def fails(cand, key=key):
                    o = ctx.run_impl([cand])[0]
                    return any(h[0] == key for h in monitor_c24(cand, o["out"]))
                small = ctx.shrink(small, fails, budget=60)
            res.failures.append({"key": key, "what": what, "ops": small})
    res.samples = [" ; ".join(s[:16]) for s in sessions[len(corpus):len(corpus) + 3]]
    return res


# ------------------------------------------------------------------------------------------------
# C25
# ------------------------------------------------------------------------------------------------
DEFAULT_LOCAL = 2 * 0xc0ffee112233 + 1


def addr_bytes(a):
    return (a >> 1).to_bytes(6, "little")


# LLData the real link layer accepts: AA, CRCInit, WinSize 3, WinOffset 11, interval 30 ms, latency 0,
# timeout 720 ms, all data channels, hop 10 / SCA 5
VALID_LLDATA = bytes.fromhex("5ab39aaf0881f6030b00180000004800ffffffff1faa")


def connect_ind(local, init, length=34, pdu_type=5, body_len=34, tx=None, rx=None, rfu=0):
    h0 = pdu_type | rfu | (0x40 if (init & 1 if tx is None else tx) else 0) | (0x80 if (local & 1 if rx is None else rx) else 0)
    body = addr_bytes(init) + addr_bytes(local) + VALID_LLDATA
    body = (body + bytes(64))[:body_len]
    return bytes([h0, length & 0xff]) + body


def scan_req(local, scanner, length=12, pdu_type=3, body_len=12, tx=None, rx=None):
    h0 = pdu_type | (0x40 if (scanner & 1 if tx is None else tx) else 0) | (0x80 if (local & 1 if rx is None else rx) else 0)
    body = (addr_bytes(scanner) + addr_bytes(local) + bytes(64))[:body_len]
    return bytes([h0, length & 0xff]) + body


def gen_c25_session(rng, cfg):
    """one advertiser configuration, random local / directed address, white list and filters, then
    requests: valid ones and single field mutations of valid ones (+ a few random PDUs)"""
    types = CFG[cfg][4]
    ops = ["reset %d" % cfg]
    universe = [rng.randrange(2, 1 << 49) for _ in range(4)]
    universe.append(universe[0] ^ 1)            # same 48 bits, other address type
    universe.append(universe[1] ^ 2)            # differs in one address bit
    local = rng.choice([DEFAULT_LOCAL, rng.randrange(2, 1 << 49), rng.randrange(2, 1 << 49) | 1])
    if local != DEFAULT_LOCAL:
        ops.append("local %d" % local)
    target = None
    if 1 in types:
        target = rng.choice(universe + [1, 0])
        ops.append("direct %d" % target)
    if len(types) > 1:
        ops.append("change %d" % rng.choice(types))
    if not CFG[cfg][3]:
        ops.append("start")
    ops.append("llstart")
    for a in rng.sample(universe, rng.randrange(0, 5)):
        ops.append("wladd %d" % a)
    ops.append("filter %d" % rng.randrange(2))
    ops.append("scanfilter %d" % rng.randrange(2))
    for _ in range(rng.randrange(6, 16)):
        init = rng.choice(universe + ([target] if target is not None else []))
        r = rng.random()
        kw = {}
        loc = local
        if r < 0.35:
            pass                                         # valid request
        elif r < 0.42:
            kw["length"] = rng.choice([0, 12, 33, 35, 34 + 64, 34 + 128, 255])
        elif r < 0.49:
            kw["pdu_type"] = rng.choice([0, 1, 2, 3, 4, 6, 7, 13, 15])
        elif r < 0.56:
            kw["body_len"] = rng.choice([0, 6, 12, 33, 35, 37])
        elif r < 0.63:
            loc = local ^ (2 << rng.randrange(48))       # one AdvA bit wrong
        elif r < 0.70:
            kw["rx"] = 1 - (local & 1)                   # wrong RxAdd
        elif r < 0.77:
            kw["tx"] = 1 - (init & 1)                    # TxAdd flipped: initiator of the other type
        elif r < 0.84:
            init = init ^ (2 << rng.randrange(48))       # one InitA bit changed
        elif r < 0.88:
            kw["rfu"] = rng.choice([0x10, 0x20, 0x30])
        kind = rng.random()
        if r >= 0.93:
            pdu = bytes(rng.randrange(256) for _ in range(rng.choice([2, 3, 14, 36, 36, 40])))
            ops.append("%s %s" % (rng.choice(["recv", "recvfull", "scanreq"]), pdu.hex()))
        elif kind < 0.7:
            pdu = connect_ind(loc, init, **kw)
            ops.append("%s %s" % ("recv" if rng.random() < 0.7 else "recvfull", pdu.hex()))
        else:
            kw.pop("rfu", None)
            if "length" in kw:
                kw["length"] = rng.choice([0, 11, 13, 34, 12 + 64])
            if "body_len" in kw:
                kw["body_len"] = rng.choice([0, 6, 11, 13, 34])
            if "pdu_type" in kw:
                kw["pdu_type"] = rng.choice([0, 1, 2, 4, 5, 6])
            ops.append("scanreq %s" % scan_req(loc, init, **kw).hex())
        if rng.random() < 0.15:
            ops.append(rng.choice(["filter %d" % rng.randrange(2), "scanfilter %d" % rng.randrange(2),
                                   "wlremove %d" % rng.choice(universe), "wladd %d" % rng.choice(universe)]))
        if len(types) > 1 and rng.random() < 0.2:
            ops.append("change %d" % rng.choice(types))
            if rng.random() < 0.5:
                ops.append("timeout")      # else: the next request answers the PDU of the old type
    return ops


def proj_ll(op, line):
    """real link layer: `idle` (no advertising PDU scheduled, nothing can be received) is `rej`"""
    if line == "idle":
        return "rej"
    return proj_accept(op, line)


def expect_accept(types_selected, local, target, conn_filter, wl, pdu):
    """the oracle of monitor_c25 for one CONNECT_IND (used by the generator to re-start advertising
    after an accepted request; a wrong prediction shows as a disagreement, never hides one)"""
    h0, ln, body = pdu[0], pdu[1], pdu[2:]
    if not (len(body) == 34 and (h0 & 0x0f) == 5 and (ln & 0x3f) == 34):
        return False
    init = int.from_bytes(body[0:6], "little") * 2 + (1 if h0 & 0x40 else 0)
    adva = int.from_bytes(body[6:12], "little") * 2 + (1 if h0 & 0x80 else 0)
    if adva != local:
        return False
    if types_selected == 1:
        if target is None or init != target:
            return False
    elif types_selected != 0:
        return False
    return (not conn_filter) or init in wl


LL_MUTATIONS = ([("valid", {})]
                + [("length-%d" % v, {"length": v}) for v in (0, 12, 33, 35, 34 + 64, 34 + 128, 255)]
                + [("type-%d" % v, {"pdu_type": v}) for v in (0, 1, 2, 3, 4, 6, 7, 13, 15)]
                + [("body-%d" % v, {"body_len": v}) for v in (0, 6, 12, 33)]
                + [("adva-bit-%d" % b, {"adva_bit": b}) for b in (0, 23, 47)]
                + [("rxadd", {"rxadd": 1}), ("txadd", {"txadd": 1})]
                + [("inita-bit-%d" % b, {"inita_bit": b}) for b in (0, 24, 47)]
                + [("rfu-%x" % v, {"rfu": v}) for v in (0x10, 0x20, 0x30)])


def mutated_connect_ind(local, init, mut):
    kw = {k: v for k, v in mut.items() if k in ("length", "pdu_type", "body_len", "rfu")}
    loc = local
    if "adva_bit" in mut:
        loc = local ^ (2 << mut["adva_bit"])
    if "inita_bit" in mut:
        init = init ^ (2 << mut["inita_bit"])
    if "rxadd" in mut:
        kw["rx"] = 1 - (local & 1)
    if "txadd" in mut:
        kw["tx"] = 1 - (init & 1)
    return connect_ind(loc, init, **kw)


def ll_session(cfg, sel, local, target, conn_filter, wl, requests, rng=None):
    """one session for the real link layer: set up, then `requests` = [(initiator, mutation)];
    after every request the oracle expects to be accepted: connection lost, advertising restarted"""
    auto = CFG[cfg][3]
    types = CFG[cfg][4]
    ops = ["reset %d" % cfg]
    if local != DEFAULT_LOCAL:
        ops.append("local %d" % local)
    if 1 in types and target is not None:
        ops.append("direct %d" % target)
    if len(types) > 1:
        ops.append("change %d" % sel)
    for a in wl:
        ops.append("wladd %d" % a)
    ops.append("filter %d" % (1 if conn_filter else 0))
    ops.append("llstart")
    if not auto:
        ops.append("start")
    tgt = target if (target is not None and target != 1) else None
    for init, mut in requests:
        pdu = mutated_connect_ind(local, init, mut)
        ops.append("recv " + pdu.hex())
        if expect_accept(sel, local, tgt, conn_filter, set(wl), pdu):
            ops += ["llstop", "llstart"]
            if not auto:
                ops.append("start")
    return ops


LL_TYPES = [(0, 0), (5, 1), (6, 2), (7, 3), (4, 0), (4, 1), (4, 2), (4, 3), (1, 0)]


def enum_ll_sessions():
    """the four advertising types (single type link layers and the multiple type advertiser) x connection
    filter {off, on + initiator listed, on + initiator not listed, on + initiator listed with the other
    address type} x own address type x every single field mutation of a valid CONNECT_IND"""
    sessions = []
    init = 2 * 0x112233445566
    other = 2 * 0x0badc0ffee42 + 1
    for cfg, sel in LL_TYPES:
        for local in (DEFAULT_LOCAL, 2 * 0x665544332211):
            for fname, conn_filter, wl in (("off", False, []), ("listed", True, [init, other]), ("not-listed", True, [other]),
                                           ("other-type", True, [init ^ 1])):
                if cfg == 1 and (local != DEFAULT_LOCAL or fname in ("not-listed", "other-type")):
                    continue
                target = init if sel == 1 else None
                reqs = [(init, m) for _, m in LL_MUTATIONS]
                sessions.append(ll_session(cfg, sel, local, target, conn_filter, wl, reqs))
        # directed advertising: wrong / missing target
        if sel == 1:
            sessions.append(ll_session(cfg, sel, DEFAULT_LOCAL, other, False, [], [(init, {}), (other, {}), (other ^ 1, {}), (other, {"txadd": 1})]))
            sessions.append(ll_session(cfg, sel, DEFAULT_LOCAL, None, False, [], [(init, {}), (0, {})]))
    return sessions


def gen_ll_session(rng, cfg, sel):
    universe = [rng.randrange(2, 1 << 49) for _ in range(3)]
    universe.append(universe[0] ^ 1)
    universe.append(universe[1] ^ 2)
    local = rng.choice([DEFAULT_LOCAL, rng.randrange(2, 1 << 49), rng.randrange(2, 1 << 49) | 1])
    target = rng.choice(universe + [None]) if sel == 1 else None
    wl = rng.sample(universe, rng.randrange(0, 5))
    reqs = []
    for _ in range(rng.randrange(5, 14)):
        init = rng.choice(universe + ([target] if target is not None else []))
        if rng.random() < 0.4:
            reqs.append((init, {}))
        else:
            name, mut = rng.choice(LL_MUTATIONS)
            mut = dict(mut)
            for k in ("adva_bit", "inita_bit"):
                if k in mut:
                    mut[k] = rng.randrange(48)
            reqs.append((init, mut))
    return ll_session(cfg, sel, local, target, rng.random() < 0.6, wl, reqs)


# ---- scan requests on the real nRF52 radio ISR (harness/adv/nrf_scan.cpp) ---------------------------------
def proj_nrf(op, line):
    """only the ISR's verdict and the white list results are compared"""
    return line if op.split()[0] in ("nrfscan", "wladd", "wlremove", "reset") else ""


SCAN_MUTATIONS = ([("valid", {})]
                  + [("length-%d" % v, {"length": v}) for v in (0, 11, 13, 34, 12 + 64, 12 + 128)]
                  + [("type-%d" % v, {"pdu_type": v}) for v in (0, 1, 2, 4, 5, 6, 13)]
                  + [("body-%d" % v, {"body_len": v}) for v in (0, 6, 11)]
                  + [("adva-bit-%d" % b, {"adva_bit": b}) for b in (0, 23, 47)]
                  + [("rxadd", {"rxadd": 1}), ("txadd", {"txadd": 1})]
                  + [("scana-bit-%d" % b, {"scana_bit": b}) for b in (0, 24, 47)])


def mutated_scan_req(local, scanner, mut):
    kw = {k: v for k, v in mut.items() if k in ("length", "pdu_type", "body_len")}
    loc = local
    if "adva_bit" in mut:
        loc = local ^ (2 << mut["adva_bit"])
    if "scana_bit" in mut:
        scanner = scanner ^ (2 << mut["scana_bit"])
    if "rxadd" in mut:
        kw["rx"] = 1 - (local & 1)
    if "txadd" in mut:
        kw["tx"] = 1 - (scanner & 1)
    return scan_req(loc, scanner, **kw)


def nrf_session(cfg, local, scan_filter, wl, requests):
    ops = ["reset %d" % cfg]
    if local != DEFAULT_LOCAL:
        ops.append("local %d" % local)
    if cfg == 5:
        ops.append("direct %d" % (2 * 0x0102030405))
    for a in wl:
        ops.append("wladd %d" % a)
    ops.append("scanfilter %d" % (1 if scan_filter else 0))
    ops.append("llstart")
    for scanner, mut in requests:
        ops.append("nrfscan " + mutated_scan_req(local, scanner, mut).hex())
    return ops


def enum_nrf_sessions():
    """advertising types x own address type x scanner address type x scan filter {off, scanner listed, not
    listed, listed with the other address type} x every single field mutation of a valid SCAN_REQ"""
    sessions = []
    other = 2 * 0x0badc0ffee42 + 1
    for cfg in (0, 6, 7, 5):
        for local in (DEFAULT_LOCAL, 2 * 0x665544332211):
            for scanner in (2 * 0xaaaaaaaaaaaa, 2 * 0x1122aabbccdd + 1):
                for scan_filter, wl in ((False, []), (True, [scanner, other]), (True, [other]), (True, [scanner ^ 1])):
                    if cfg in (7, 5) and (scan_filter or local != DEFAULT_LOCAL):
                        continue
                    sessions.append(nrf_session(cfg, local, scan_filter, wl, [(scanner, m) for _, m in SCAN_MUTATIONS]))
    return sessions


def gen_nrf_session(rng, cfg):
    universe = [rng.randrange(2, 1 << 49) for _ in range(3)]
    universe.append(universe[0] ^ 1)
    universe.append(universe[1] ^ 2)
    local = rng.choice([DEFAULT_LOCAL, rng.randrange(2, 1 << 49), rng.randrange(2, 1 << 49) | 1])
    reqs = []
    for _ in range(rng.randrange(5, 14)):
        if rng.random() < 0.5:
            reqs.append((rng.choice(universe), {}))
        else:
            mut = dict(rng.choice(SCAN_MUTATIONS)[1])
            for k in ("adva_bit", "scana_bit"):
                if k in mut:
                    mut[k] = rng.randrange(48)
            reqs.append((rng.choice(universe), mut))
    return nrf_session(cfg, local, rng.random() < 0.7, rng.sample(universe, rng.randrange(0, 5)), reqs)


def monitor_nrf(ops, outs):
    """independent oracle for the radio's answer, on octets and Python sets"""
    hits = []
    cfg = int(ops[0].split()[1])
    local, wl, scan_filter = DEFAULT_LOCAL, set(), False
    for k, (op, out) in enumerate(zip(ops, outs)):
        w = op.split()
        if w[0] == "local":
            local = int(w[1]) % (1 << 49)
        elif w[0] == "wladd" and out == "1":
            wl.add(int(w[1]) % (1 << 49))
        elif w[0] == "wlremove":
            wl.discard(int(w[1]) % (1 << 49))
        elif w[0] == "scanfilter":
            scan_filter = w[1] == "1"
        elif w[0] == "nrfscan":
            pdu = (bytes.fromhex(w[1]) + bytes(36))[:36]
            h0, ln, body = pdu[0], pdu[1], pdu[2:]
            scanner = int.from_bytes(body[0:6], "little") * 2 + (1 if h0 & 0x40 else 0)
            adva = int.from_bytes(body[6:12], "little") * 2 + (1 if h0 & 0x80 else 0)
            proper = (h0 & 0x0f) == 3 and ln == 12 and adva == local
            exp = cfg in (0, 6) and proper and ((not scan_filter) or scanner in wl)
            if out not in ("n=0", "n=1"):
                hits.append(("C25:nrf:unexpected-output", "op %d `%s`: %s" % (k, op, out), k))
            elif out == "n=1" and not exp:
                why = "not addressed to the device" if not proper else ("scanner not in the scan filter" if cfg in (0, 6) else "advertising type without scan response")
                hits.append(("C25:nrf:scan-request-answered-wrongly", "op %d `%s`: answered although %s" % (k, op, why), k))
            elif out == "n=0" and exp:
                hits.append(("C25:nrf:scan-request-not-answered", "op %d `%s`: properly addressed request of a permitted scanner not answered" % (k, op), k))
    return hits


# ---- change_advertising<>() at every point of the advertising cycle -----------------------------------------
def switch_session(a, b, k, local, target, conn_filter, wl, requests, then=None):
    """four-type advertiser (cfg 4): advertise with type `a`, `k` further PDUs, change_advertising< b >()
    (then possibly < then >) and immediately the requests: the first one answers the PDU of type `a` that is
    still on air; a rejected request makes the link layer send the next PDU, which is of the new type"""
    ops = ["reset 4"]
    if local != DEFAULT_LOCAL:
        ops.append("local %d" % local)
    if target is not None:
        ops.append("direct %d" % target)
    ops.append("change %d" % a)
    for x in wl:
        ops.append("wladd %d" % x)
    ops += ["filter %d" % (1 if conn_filter else 0), "llstart", "start"]
    ops += ["timeout"] * k
    ops.append("change %d" % b)
    sel, prop = a, b
    if then is not None:
        ops.append("change %d" % then)
        prop = then
    for init, mut in requests:
        pdu = mutated_connect_ind(local, init, mut)
        ops.append("recv " + pdu.hex())
        on_air = sel in (0, 2, 3) or target is not None       # directed advertising without address sends nothing
        if on_air and expect_accept(sel, local, target, conn_filter, set(wl), pdu):
            ops += ["llstop", "llstart", "start"]
        sel = prop
    return ops


def enum_switch_sessions():
    """all 12 ordered pairs of advertising types x the switch after the PDU on 37 / 38 / 39 x {request from the
    directed target, from a stranger} (+ connection filter on with the initiator listed / not listed for the
    switches towards connectable undirected), each followed by a valid CONNECT_IND answering the old-type PDU,
    the same request answering the new-type PDU, and single field mutations"""
    sessions = []
    init = 2 * 0x112233445566
    stranger = 2 * 0x0badc0ffee42 + 1
    muts = [{}, {}, {"rxadd": 1}, {"txadd": 1}, {"length": 33}, {"pdu_type": 3}, {}]
    for a in range(4):
        for b in range(4):
            if a == b:
                continue
            for k in range(3):
                for target, who in ((init, init), (stranger, init), (init, stranger)):
                    if 1 not in (a, b) and target != init:
                        continue
                    sessions.append(switch_session(a, b, k, DEFAULT_LOCAL, target, False, [], [(who, m) for m in muts]))
            if b == 0:
                sessions.append(switch_session(a, b, 1, 2 * 0x665544332211, init, True, [init], [(init, m) for m in muts]))
                sessions.append(switch_session(a, b, 2, DEFAULT_LOCAL, init, True, [stranger], [(init, m) for m in muts]))
            for c in range(4):       # two switches before the PDU on air is answered
                if c != b:
                    sessions.append(switch_session(a, b, 0, DEFAULT_LOCAL, init, False, [], [(init, {}), (init, {})], then=c))
    return sessions


def gen_switch_session(rng):
    universe = [rng.randrange(2, 1 << 49) for _ in range(3)]
    universe.append(universe[0] ^ 1)
    local = rng.choice([DEFAULT_LOCAL, rng.randrange(2, 1 << 49)])
    target = rng.choice(universe + [None])
    a, b = rng.sample(range(4), 2)
    if target is None and a == 1:
        a, b = b, a          # directed advertising without address sends nothing: nothing could be answered
    reqs = []
    for _ in range(rng.randrange(2, 8)):
        who = rng.choice(universe + ([target] if target is not None else []))
        reqs.append((who, {} if rng.random() < 0.6 else dict(rng.choice(LL_MUTATIONS)[1])))
    return switch_session(a, b, rng.randrange(0, 7), local, target, rng.random() < 0.4, rng.sample(universe, rng.randrange(0, 4)), reqs,
                          then=rng.choice([None, None, rng.randrange(4)]))


def monitor_c25(ops, outs):
    """independent oracle: the property statement on octets, with Python sets; returns (key, what, k)"""
    hits = []
    cfg = int(ops[0].split()[1])
    types = CFG[cfg][4]
    local = DEFAULT_LOCAL
    wl, conn_filter, scan_filter = set(), False, False
    target = None            # directed advertising address (None = not valid)
    selected, proposal = types[0], types[0]
    air, air_target = None, None     # type of the advertising PDU handed to the radio (as printed by the harness) and whom it was directed at
    AIR_NAME = {0: "ADV_IND", 1: "ADV_DIRECT_IND", 2: "ADV_NONCONN_IND", 6: "ADV_SCAN_IND"}
    for k, (op, out) in enumerate(zip(ops, outs)):
        w = op.split()
        if out == "bad-op":
            continue
        if w[0] in ("recv", "recvfull") and out.split()[0] == "acc":
            # independent of the bookkeeping of selected / proposal below: the PDU that is answered is the
            # one the harness saw being handed to the radio
            pdu = bytes.fromhex(w[1])
            ini = int.from_bytes((pdu[2:8] + bytes(6))[:6], "little") * 2 + (1 if pdu[0] & 0x40 else 0)
            if air is None:
                # only possible on the mock link layer: handle_adv_receive called although nothing is scheduled,
                # a callback the real link layer / radio never make (on the real link layer the op answers `idle`)
                pass
            elif air in (2, 6) or air not in AIR_NAME:
                hits.append(("C25:connect-entered-on-%s" % AIR_NAME.get(air, "type-%d" % air),
                             "op %d `%s`: connection entered in response to a %s PDU" % (k, op, AIR_NAME.get(air, air)), k))
            elif air == 1 and ini != air_target:
                hits.append(("C25:connect-entered-on-ADV_DIRECT_IND-for-other-device",
                             "op %d `%s`: connection with %d entered in response to an ADV_DIRECT_IND directed at %s" % (k, op, ini, air_target), k))
        t = air_type_of(out)
        if t is not None:
            air, air_target = t, target
        elif w[0] == "llstop" or (w[0] in ("llstart", "timeout") and out == "-") or (w[0] in ("recv", "recvfull") and out in ("rej -", "idle")):
            air = None
        if w[0] == "local":
            local = int(w[1]) % (1 << 49)
        elif w[0] == "direct":
            a = int(w[1]) % (1 << 49)
            target = a if a != 1 else None
            if out.startswith("s "):
                selected = proposal
                air_target = target
        elif w[0] == "change":
            proposal = int(w[1])
        elif w[0] in ("llstart", "timeout", "start", "startn"):
            if w[0] in ("llstart", "timeout") or out.startswith("s "):
                selected = proposal
        elif w[0] == "wladd" and out == "1":
            wl.add(int(w[1]) % (1 << 49))
        elif w[0] == "wlremove":
            wl.discard(int(w[1]) % (1 << 49))
        elif w[0] == "filter":
            conn_filter = w[1] == "1"
        elif w[0] == "scanfilter":
            scan_filter = w[1] == "1"
        elif w[0] in ("recv", "recvfull"):
            pdu = bytes.fromhex(w[1])
            if w[0] == "recvfull":
                pdu = (pdu + bytes(36))[:36]
            h0, ln, body = pdu[0], pdu[1], pdu[2:]
            init = None
            ok = len(body) == 34 and (h0 & 0x0f) == 5 and (ln & 0x3f) == 34
            if ok:
                init = int.from_bytes(body[0:6], "little") * 2 + (1 if h0 & 0x40 else 0)
                adva = int.from_bytes(body[6:12], "little") * 2 + (1 if h0 & 0x80 else 0)
                ok = adva == local
            if ok:
                if selected == 0:
                    pass
                elif selected == 1:
                    ok = target is not None and init == target
                else:
                    ok = False
            if ok:
                ok = (not conn_filter) or init in wl
            got = out.split()[0] == "acc"
            if got and not ok:
                hits.append(("C25:connect-accepted-wrongly:type-%d" % selected, "op %d `%s`: connection entered (%s)" % (k, op, out), k))
            elif ok and not got:
                hits.append(("C25:connect-rejected-wrongly:type-%d" % selected, "op %d `%s`: proper request not accepted" % (k, op), k))
            elif got and int(out.split()[1]) != init:
                hits.append(("C25:connect-wrong-remote-address", "op %d `%s`: reported initiator %s" % (k, op, out), k))
            if not got:
                selected = proposal      # handle_adv_timeout
        elif w[0] == "scanreq":
            pdu = bytes.fromhex(w[1])
            h0, ln, body = pdu[0], pdu[1], pdu[2:]
            valid = len(body) == 12 and (h0 & 0x0f) == 3 and (ln & 0x3f) == 12 and \
                int.from_bytes(body[6:12], "little") * 2 + (1 if h0 & 0x80 else 0) == local
            scanner = int.from_bytes((body + bytes(6))[0:6], "little") * 2 + (1 if h0 & 0x40 else 0)
            infilter = (not scan_filter) or scanner in wl
            exp = "f=%d" % infilter
            if out != exp:
                hits.append(("C25:scan-filter", "op %d `%s`: got %s, expected %s" % (k, op, out, exp), k))
    return hits


def run_c25(ctx, replay_path=None):
    res = Result()
    res.rule = ("sessions = reset <cfg> (advertiser with connectable undirected / directed / scannable / non-connectable type and the multiple "
                "type advertiser, white_list<4>) + random local address, directed address, white list, connection/scan filter, then CONNECT_IND "
                "and SCAN_REQ PDUs: valid ones and single field mutations (length field, PDU type, body size, one AdvA bit, RxAdd, TxAdd, one "
                "InitA bit, RFU bits) + random PDUs, delivered in an exactly sized buffer (recv) or in the 36 octet receive buffer (recvfull); "
                "accept/reject (+ reported initiator) of the real handle_adv_receive and the verdict of the real is_valid_scan_request + "
                "is_scan_request_in_filter are compared with the Lean model and with an independent Python oracle working on octets and sets; "
                "non-trivial = sessions with at least one accepted and one rejected request")
    sessions = [ops for _, ops in ctx.corpus()]
    nc = len(sessions)
    n = 4000 if ctx.thorough else 400
    for i in range(n):
        sessions.append(gen_c25_session(ctx.rng, [0, 5, 4, 0, 5, 4, 6, 7, 1, 4][i % 10]))
    # change_advertising<>() at every point of the advertising cycle, requests answering the old-type PDU
    switch_sessions = enum_switch_sessions() + [gen_switch_session(ctx.rng) for _ in range(400 if ctx.thorough else 40)]
    sessions += switch_sessions
    res.count("switch-sessions", len(switch_sessions))
    impl, model, dis = ctx.run_pair(sessions, proj_accept)
    for d in dis:
        ops = ctx.shrink_disagreement(sessions[d["session"]], proj_accept) if len(res.disagreements) < 2 else sessions[d["session"]]
        res.disagreements.append(dict(d, ops=ops))
    seen = set()
    for ops, r in zip(sessions, impl):
        outs = r["out"]
        res.sessions += 1
        res.evaluations += len(outs)
        res.count("cfg:%s" % ops[0].split()[1])
        acc = sum(1 for o in outs if o.startswith("acc"))
        rej = sum(1 for o in outs if o.startswith("rej"))
        res.count("connect:accepted", acc)
        res.count("connect:rejected", rej)
        for o in outs:
            if o.startswith("f="):
                res.count("scan-filter:" + o)
        if acc and rej:
            res.distinct.add(hash(tuple(ops)))
        if r["crash"]:
            res.failures.append({"key": "C25:crash:" + r["crash"].split(" @")[0], "what": r["crash"], "ops": ops[:len(outs) + 1]})
            continue
        for key, what, k in monitor_c25(ops, outs):
            res.count("failure:" + key)
            if key in seen:
                continue
            seen.add(key)

            def fails(cand, key=key):
                o = ctx.run_impl([cand])[0]
                return any(h[0] == key for h in monitor_c25(cand, o["out"]))
            res.failures.append({"key": key, "what": what, "ops": ctx.shrink(ops[:k + 1], fails, budget=60)})
    # ---- the same decision on the REAL link_layer<> driven on tests/test_tools/test_radio --------------
    ll_sessions = enum_ll_sessions() + switch_sessions
    for i in range(600 if ctx.thorough else 60):
        cfg, sel = LL_TYPES[i % len(LL_TYPES)]
        ll_sessions.append(gen_ll_session(ctx.rng, cfg, sel))
    impl_ll, model_ll, dis_ll = ctx.run_pair(ll_sessions, proj_ll, key="ll")
    for d in dis_ll:
        ops = ll_sessions[d["session"]]
        if len(res.disagreements) < 2:
            ops = ctx.shrink_disagreement(ops, proj_ll, key="ll")
        res.disagreements.append(dict(d, ops=ops, harness="ll"))
    res.exhaustive = True
    res.extra["exhaustive_small_scope"] = ("real link_layer<> on test_radio: 4 advertising types (single type link layers + multiple type "
                                           "advertiser) x connection filter {off, listed, not listed, listed with other address type} x "
                                           "own address type x %d single field mutations of a valid CONNECT_IND" % len(LL_MUTATIONS))
    for ops, r in zip(ll_sessions, impl_ll):
        outs = ["rej -" if o == "idle" else o for o in r["out"]]
        res.sessions += 1
        res.evaluations += len(outs)
        res.count("ll:cfg:%s" % ops[0].split()[1])
        acc = sum(1 for o in outs if o.startswith("acc"))
        rej = sum(1 for o in outs if o.startswith("rej"))
        res.count("ll:connect:accepted", acc)
        res.count("ll:connect:rejected", rej)
        res.count("ll:idle", sum(1 for o in r["out"] if o == "idle"))
        if acc and rej:
            res.distinct.add(hash(tuple(ops)))
        if r["crash"]:
            res.failures.append({"key": "C25:ll:crash:" + r["crash"].split(" @")[0], "what": r["crash"], "ops": ops[:len(outs) + 1]})
            continue
        for key, what, k in monitor_c25(ops, outs):
            res.count("failure:" + key)
            if key in seen:
                continue
            seen.add(key)
            res.failures.append({"key": key, "what": "real link_layer<>: " + what, "ops": ops[:k + 1], "harness": "ll"})
    # ---- scan requests: the REAL nRF52 radio ISR (is_valid_scan_request) on the host -------------------
    nrf_sessions = enum_nrf_sessions()
    for i in range(400 if ctx.thorough else 60):
        nrf_sessions.append(gen_nrf_session(ctx.rng, [0, 6, 6, 0, 7, 5][i % 6]))
    impl_nrf, model_nrf, dis_nrf = ctx.run_pair(nrf_sessions, proj_nrf, key="nrf")
    for d in dis_nrf:
        ops = nrf_sessions[d["session"]]
        if len(res.disagreements) < 2:
            ops = ctx.shrink_disagreement(ops, proj_nrf, key="nrf")
        res.disagreements.append(dict(d, ops=ops, harness="nrf"))
    for ops, r in zip(nrf_sessions, impl_nrf):
        outs = r["out"]
        res.sessions += 1
        res.evaluations += len(outs)
        res.count("nrf:cfg:%s" % ops[0].split()[1])
        a1 = sum(1 for o in outs if o == "n=1")
        a0 = sum(1 for o in outs if o == "n=0")
        res.count("nrf:scan:answered", a1)
        res.count("nrf:scan:not-answered", a0)
        if a1 and a0:
            res.distinct.add(hash(tuple(ops)))
        if r["crash"]:
            res.failures.append({"key": "C25:nrf:crash:" + r["crash"].split(" @")[0], "what": r["crash"], "ops": ops[:len(outs) + 1]})
            continue
        for key, what, k in monitor_nrf(ops, outs):
            res.count("failure:" + key)
            if key in seen:
                continue
            seen.add(key)

            def fails_nrf(cand, key=key):
                o = ctx.run_impl([cand], key="nrf")[0]
                return any(h[0] == key for h in monitor_nrf(cand, o["out"]))
            res.failures.append({"key": key, "what": "nRF52 radio ISR: " + what, "ops": ctx.shrink(ops[:k + 1], fails_nrf, budget=40), "harness": "nrf"})
    res.samples = [" ; ".join(s[:10])[:400] for s in sessions[nc:nc + 2]] + [" ; ".join(ll_sessions[0][:8])[:400], " ; ".join(nrf_sessions[1][:8])[:400]]
    res.extra["scan_request_half"] = ("the radio answers scan requests: the real nRF52 ISR (nrf52.hpp schedule_advertisment / radio_interrupt_handler / "
                                      "is_valid_scan_request, Hardware template parameter replaced by a recording stub) is driven with the PDUs built by "
                                      "the real advertiser and the real white_list<4>; advertising_type_base::is_valid_scan_request of advertising.hpp is "
                                      "dead code that does not compile when instantiated (modelled only: validScanBase)")
    return res


PROPS = {
    "C24": dict(
        theorems=["BluetoeModel.Adv.inv_reachable", "BluetoeModel.Adv.timeout_channel_successor",
                  "BluetoeModel.Adv.cycle_visits_enabled_ascending_once", "BluetoeModel.Adv.enabledIdxs_spec",
                  "BluetoeModel.Adv.map_change_selects_lowest", "BluetoeModel.Adv.start_on_lowest",
                  "BluetoeModel.Adv.scheduled_channel_enabled",
                  "BluetoeModel.Adv.count_bounds_pdus", "BluetoeModel.Adv.startn_budget", "BluetoeModel.Adv.stop_silences"],
        witnesses=[],
        run=run_c24,
        harness_keys=["default"],
        level="proof",
        technique="Lean 4 invariant + refinement-to-successor proof over all histories (complete decide tables for the 8x3 bit-level domain) + exhaustive/differential correspondence with the real advertiser classes",
        level_text="inv_reachable + timeout_channel_successor: in every reachable state of every configuration the PDU scheduled by handle_adv_timeout goes to the cyclic successor among the enabled channels, delay 0 inside an event and interval + 0..10 ms between events; cycle_visits_enabled_ascending_once: that successor visits each enabled channel exactly once in ascending order; start_on_lowest: every (re)start (handle_start_advertising, start_advertising, directed_advertising_address) transmits without delay on the lowest enabled channel, so the first event after a restart is complete as well; count_bounds_pdus / startn_budget / stop_silences: start/stop/count bound the PDUs. Model = code with fixes adv-01 and adv-02.",
        level_note="Map changes while advertising are documented as unsupported and are compared model<->code only.",
        design_ref="§5 C24",
        assumptions=["the link layer calls handle_adv_timeout / handle_adv_receive only for a scheduled advertisement",
                     "channel map not empty when advertising (documented requirement)"],
    ),
    "C25": dict(
        theorems=["BluetoeModel.Adv.connect_accepted_iff", "BluetoeModel.Adv.validConnectBase_iff",
                  "BluetoeModel.Adv.connect_accepted_on_air", "BluetoeModel.Adv.selected_moves_only_when_scheduling",
                  "BluetoeModel.Adv.change_frame",
                  "BluetoeModel.Adv.nonconnectable_never_accepts", "BluetoeModel.Adv.scan_valid_iff",
                  "BluetoeModel.Adv.nrf_scan_answered_iff", "BluetoeModel.Adv.nrf_answers_only_if",
                  "BluetoeModel.Adv.nrf_scan_partial"],
        witnesses=[],
        imports=["BluetoeModel.Adv.PropsC25"],
        run=run_c25,
        harness_keys=["default", "ll", "nrf"],
        level="proof",
        technique="Lean 4 exact characterisations (iff) of handle_adv_receive and of the nRF52 radio's is_valid_scan_request for all PDUs/states + differential correspondence on three harnesses: real advertiser + white list in a mock link layer, the real link_layer<> on test_radio, the real nRF52 radio ISR on the host",
        level_text="connect_accepted_iff: a connection is entered iff the PDU is a 2+34 octet CONNECT_IND with AdvA/RxAdd = own address/type, the advertising type is connectable (directed: InitA/TxAdd = target, target set) and the initiator passes the connection filter. nrf_scan_answered_iff / nrf_answers_only_if: the radio answers iff SCAN_REQ with length octet 12, AdvA/RxAdd = own address/type, advertising type with scan response, and the scanner (ScanA, TxAdd) passes the scan filter. Model = code with fix adv-03.",
        level_note="scan half: the radio answers scan requests; tied to the nRF52 binding (nrf52.hpp; nrf51.cpp has the same text and the same fix but is not executed). advertising.hpp's own is_valid_scan_request is dead code that does not compile when instantiated. The link layer's checks of the connection parameters behind the accept decision belong to C22 (valid parameters are used here).",
        design_ref="§5 C25",
        assumptions=["nRF52 ISR: hardware access (template parameter Hardware) replaced by a recording stub: CRC ok, no address resolving, "
                     "PDU delivered in the zeroed 36 octet receive buffer",
                     "test_radio (copy_air_to_memory) delivers CONNECT_INDs to the real link_layer<>"],
    ),
}
