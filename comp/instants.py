"""C21 — instant based procedures (link_layer.hpp: handle_ll_control_data / handle_pending_ll_control /
handle_received_data, peripheral_latency.hpp: plan_next_connection_event)"""
from vlib.core import Result
import re

NAME = "instants"
LEAN_MODULE = "BluetoeModel.Instants"
DRIVER = "drv_instants"
HARNESS_DESC = "harness/instants.cpp (real link_layer<> on tests/test_tools/test_radio, one connection event per op)"
HARNESS = dict(
    src="harness/instants.cpp",
    repo_srcs=["tests/test_tools/test_radio.cpp", "tests/test_tools/hexdump.cpp", "tests/test_tools/buffer_io.cpp",
               "tests/test_tools/address_io.cpp", "bluetoe/link_layer/channel_map.cpp",
               "bluetoe/link_layer/connection_details.cpp", "bluetoe/link_layer/delta_time.cpp",
               "bluetoe/utility/address.cpp"],
    # -O0: the single link_layer<> instantiation dominates the build time
    flags=["-O0", "-g", "-fsanitize=address,undefined", "-fno-sanitize-recover=all", "-fno-omit-frame-pointer", "-w"],
    ldflags=["-lboost_unit_test_framework"],
)

W = 65536
PING = "030112"
UNKNOWN = "0301ff"
ATT_MTU = "020703000400021700"
ATT_WRITE_CMD = "021b" + "17000400" + "520300" + "aa" * 20   # 27 byte payload, never answered


def le16(v):
    return "%02x%02x" % (v & 0xff, (v >> 8) & 0xff)


def pdu_conn_update(ws, wo, iv, lat, to, inst):
    return "030c00%02x%s%s%s%s%s" % (ws & 0xff, le16(wo), le16(iv), le16(lat), le16(to), le16(inst))


def pdu_chan_map(m, inst):
    return "030801" + "".join("%02x" % ((m >> (8 * i)) & 0xff) for i in range(5)) + le16(inst)


def pdu_phy(c, p, inst):
    return "030518%02x%02x%s" % (c, p, le16(inst))


# ------------------------------------------------------------------------------------------------
# the property's own reading of a PDU (written from the Core specification, not from the code)
# ------------------------------------------------------------------------------------------------
def classify(hexpdu):
    b = bytes.fromhex(hexpdu)
    llid, body = b[0] & 3, b[2:]
    if llid != 3 or not body:
        return ("data",)
    op = body[0]
    r16 = lambda i: body[i] | (body[i + 1] << 8)
    if op == 0x00 and len(body) == 12:
        return ("conn", dict(ws=body[1], wo=r16(2), iv=r16(4), lat=r16(6), to=r16(8)), r16(10))
    if op == 0x01 and len(body) == 8:
        return ("map", int.from_bytes(body[1:6], "little"), r16(6))
    if op == 0x18 and len(body) == 5 and body[1] in (0, 1, 2) and body[2] in (0, 1, 2) and (body[1], body[2]) != (0, 0):
        return ("phy", (body[1], body[2]), r16(3))
    if op == 0x02 and len(body) == 2:
        return ("term", body[1])
    return ("other",)


def conn_valid(p):
    """LL_CONNECTION_UPDATE_IND parameters the link layer runs with (Core Spec ranges + what
    check_timing_paremeters accepts since fix timing-01)"""
    ws, wo, iv, to = p["ws"] * 1250, p["wo"] * 1250, p["iv"] * 1250, p["to"] * 10000
    return (6 <= p["iv"] <= 3200 and 1 <= p["ws"] and ws <= 10000 and ws <= iv and wo <= iv
            and 100000 <= to <= 32000000 and p["lat"] <= 499 and to > (p["lat"] + 1) * 2 * iv)


STATE_RE = re.compile(r"(\w+)=(\S+)")


def parse_state(line):
    if line.startswith("adv"):
        m = re.search(r"reason=(\d+)", line)
        return {"adv": True, "reason": int(m.group(1)) if m else -1}
    d = dict(STATE_RE.findall(line))
    try:
        return {"adv": False, "E": int(d["E"]), "pend": int(d["pend"]), "inst": int(d.get("inst", -1)),
                "rxw": int(d["rxw"]), "map": int(d["map"], 16), "int": int(d["int"]), "lat": int(d["lat"]),
                "sto": int(d["sto"]), "phy": d["phy"], "chg": int(d["chg"])}
    except (KeyError, ValueError):
        return None


def params_of(st):
    return (st["map"], st["int"], st["lat"], st["sto"], st["phy"])


def expected_after(prev, kind, par):
    """parameters in force after the procedure took effect; None = the link may end (invalid parameters)"""
    m, iv, lat, sto, phy = params_of(prev)
    if kind == "map":
        used = bin(par & (2 ** 37 - 1)).count("1")
        return (par & (2 ** 37 - 1), iv, lat, sto, phy) if used >= 2 else "any"
    if kind == "conn":
        return (m, par["iv"], par["lat"], par["to"], phy) if conn_valid(par) else None
    rx, tx = phy.split("/")
    return (m, iv, lat, sto, "%s/%s" % (par[0] or rx, par[1] or tx))


def distance_class(d):
    if d == 0:
        return "current"
    if d == W - 1:
        return "previous"
    if d == 32767:
        return "32767"
    return "past"


def monitor(ops, outs):
    """C21 evaluated on the implementation's outputs. Returns None or (op index, key, text)."""
    prev = parse_state(outs[0]) if outs else None
    if prev is None or prev["adv"]:
        return None
    queue, pend, applied_at = [], None, None
    listen_always = ops[0].split()[1] == "1"
    for k in range(1, min(len(ops), len(outs))):
        op, cur = ops[k].split(), parse_state(outs[k])
        if cur is None:
            return k, "C21:unreadable-state", "op %d `%s`: unreadable state `%s`" % (k, ops[k], outs[k])
        if prev["adv"]:
            # advertising: only a new CONNECT_IND changes anything; the new connection knows nothing of the old one
            if op[0] == "connect" and not cur["adv"]:
                if cur["pend"] == 1:
                    return (k, "C21:procedure-pending-across-connections",
                            "op %d `%s`: the new connection starts with a procedure of the previous connection pending "
                            "(instant %d): `%s`" % (k, ops[k], cur["inst"], outs[k]))
                queue, pend, applied_at = [], None, None
            prev = cur
            continue
        if op[0] == "disconnect":
            if not cur["adv"]:
                return k, "C21:local-disconnect-not-completed", "op %d: still connected after a local disconnect: `%s`" % (k, outs[k])
            queue, pend, applied_at = [], None, None
            prev = cur
            continue
        expect_term, accepted_now = None, False
        if op[0] == "ev":
            queue += [p for p in op[1:] if bytes.fromhex(p)[1] != 0]
            if pend is not None:
                pend["events"] += 1
            else:
                E = prev["E"]          # the PDUs are handled after the event in which they were received
                while queue:
                    c = classify(queue.pop(0))
                    if c[0] in ("conn", "map", "phy"):
                        kind, par, inst = c
                        d = (inst - E) % W
                        if d == 0 or d >= 32767:
                            expect_term = (40, "C21:%s-instant-%s-accepted" % (kind, distance_class(d)),
                                           "%s with instant %d received in event %d (distance %d: can not be met)" % (kind, inst, E, d))
                        elif kind == "conn" and d == 1 and cur["adv"] and cur["reason"] == 40:
                            return (k, "C21:conn-instant-next-event-terminated",
                                    "op %d: Connection Update with instant %d = next event after event %d could be met but the link "
                                    "was terminated with Instant Passed" % (k, inst, E))
                        else:
                            pend = dict(kind=kind, par=par, inst=inst, d=d, events=0, start=params_of(prev))
                            accepted_now = True
                        break
                    if c[0] == "term":
                        expect_term = (c[1], "C21:terminate-ind-ignored", "LL_TERMINATE_IND reason %d" % c[1])
                        break
        elif op[0] == "to" and pend is not None:
            pend["events"] += 1

        if expect_term is not None:
            reason, key, text = expect_term
            if not cur["adv"] or cur["reason"] != reason:
                return k, key, "op %d `%s`: %s, expected the link to end with reason %d, observed `%s`" % (k, ops[k][:60], text, reason, outs[k])
            queue, pend, applied_at = [], None, None      # this connection is over
            prev = cur
            continue
        if pend is not None:
            kind, inst = pend["kind"], pend["inst"]
            exp = expected_after(dict(zip(("map", "int", "lat", "sto", "phy"), pend["start"])), kind, pend["par"])
            if cur["adv"]:
                if op[0] == "to" and cur["reason"] == 8:
                    queue, pend, applied_at = [], None, None          # supervision timeout
                    prev = cur
                    continue
                if exp is None:
                    # refused parameters end the link, but only in the callback that plans the event at the instant
                    ahead = 1 if (op[0] == "to" or listen_always) else prev["lat"] + 1
                    if op[0] in ("ev", "to") and (inst - prev["E"]) % W <= ahead:
                        queue, pend, applied_at = [], None, None
                        prev = cur
                        continue
                    return (k, "C21:conn-link-ended-before-instant",
                            "op %d `%s`: link ended (`%s`) before the instant %d of the pending Connection Update (event %d planned)"
                            % (k, ops[k][:40], outs[k], inst, prev["E"]))
                return k, "C21:%s-link-ended-while-pending" % kind, "op %d `%s`: link ended (`%s`) while %s with instant %d was pending" % (k, ops[k][:40], outs[k], kind, inst)
            if cur["E"] == inst:
                if cur["pend"] == 1 and cur["inst"] == inst:
                    return k, "C21:%s-not-applied-at-instant" % kind, "op %d: event %d planned, %s with that instant still pending" % (k, inst, kind)
                if exp not in ("any", None) and params_of(cur) != exp:
                    return (k, "C21:%s-applied-with-other-parameters" % kind,
                            "op %d: %s applied at its instant %d with (map,int,lat,sto,phy)=%s, the PDU carried %s" % (k, kind, inst, params_of(cur), exp))
                if exp is None:
                    return k, "C21:conn-invalid-parameters-applied", "op %d: invalid connection parameters applied" % k
                if pend["events"] > pend["d"] - 1 + (1 if accepted_now else 0):
                    return k, "C21:blocked-beyond-instant", "op %d: %d events while pending, distance was %d" % (k, pend["events"], pend["d"])
                pend, applied_at = None, inst
            else:
                dd = (inst - cur["E"]) % W
                if dd >= 32768:
                    return k, "C21:%s-instant-skipped" % kind, "op %d `%s`: event %d planned, instant %d of the pending %s was skipped" % (k, ops[k][:40], cur["E"], inst, kind)
                if params_of(cur) != pend["start"]:
                    return (k, "C21:%s-applied-before-instant" % kind,
                            "op %d `%s`: parameters changed to %s for event %d, instant is %d" % (k, ops[k][:40], params_of(cur), cur["E"], inst))
                if cur["pend"] != 1 or cur["inst"] != inst:
                    return k, "C21:%s-pending-lost" % kind, "op %d: %s with instant %d no longer pending at event %d" % (k, kind, inst, cur["E"])
                if pend["events"] > pend["d"]:
                    return k, "C21:blocked-beyond-instant", "op %d: %d events while pending, distance was %d" % (k, pend["events"], pend["d"])
        elif not cur["adv"]:
            if op[0] == "cancel" and applied_at is not None and prev["E"] == applied_at and cur["E"] != applied_at:
                return (k, "C21:applied-event-moved-before-instant",
                        "op %d: the procedure was applied for event %d (its instant); the event was then rescheduled to event %d "
                        "with the new parameters" % (k, applied_at, cur["E"]))
            if op[0] in ("ev", "to"):
                applied_at = None
            if params_of(cur) != params_of(prev):
                return (k, "C21:parameters-changed-without-procedure",
                        "op %d `%s`: (map,int,lat,sto,phy) changed from %s to %s although no procedure of this connection reached its instant"
                        % (k, ops[k][:40], params_of(prev), params_of(cur)))
            if op[0] == "ev" and cur["rxw"] == 1 and not queue:
                return k, "C21:data-not-processed", "op %d: no procedure pending, received data still unprocessed" % k
            if op[0] == "ev" and cur["pend"] == 1:
                return k, "C21:unexpected-pending", "op %d: a procedure is pending that the monitor did not expect: `%s`" % (k, outs[k])
        elif cur["adv"] and op[0] == "ev":
            return k, "C21:unexpected-termination", "op %d `%s`: link ended without reason: `%s`" % (k, ops[k][:60], outs[k])
        prev = cur
    return None


def monitor_plan(op, out):
    w = [int(x) for x in op.split()[1:]]
    cfg, counter, chidx, lat, flags, pend, inst = w
    try:
        c2, i2 = [int(x) for x in out.split()]
    except ValueError:
        return "C21:plan-unreadable", "`%s` -> `%s`" % (op, out)
    adv = (c2 - counter) % W
    if (i2 - chidx) % 37 != adv % 37:
        return "C21:plan-channel-index", "`%s` -> `%s`: channel index and event counter advance differently" % (op, out)
    d = (inst - counter) % W
    if pend and d > 0 and adv > d:
        return "C21:latency-skips-instant", "`%s` -> `%s`: advanced %d events, the instant is %d events ahead" % (op, out, adv, d)
    if adv < 1 or adv > lat + 1:
        return "C21:plan-advance-out-of-range", "`%s` -> `%s`: advance %d not in 1..latency+1" % (op, out, adv)
    return None


# ------------------------------------------------------------------------------------------------
# generators
# ------------------------------------------------------------------------------------------------
def gen_proc(rng, inst, valid=True, no_conn=False):
    r = rng.random()
    if no_conn:
        r = 0.4 + 0.6 * r
    if r < 0.4:
        iv = rng.choice([6, 8, 24, 40, 100, 400, rng.randrange(6, 800)])
        lat = rng.choice([0, 0, 1, 2, 5, rng.randrange(0, 8)])
        lo = (lat + 1) * 2 * iv * 1250 // 10000 + 1          # smallest timeout strictly above (1+latency)*interval*2
        to = min(3200, max(10, lo) + rng.choice([0, 0, 1, 10, 100]))
        ws, wo = rng.randrange(1, min(8, iv) + 1), rng.randrange(0, iv + 1)
        if not valid:
            which = rng.randrange(8)
            if which == 0: to = max(1, lo - 1) if lo > 11 else 9        # equality / just below
            elif which == 1: lat, iv = 500 + rng.randrange(50), min(iv, 100)
            elif which == 2: wo = iv + 1 + rng.randrange(5)
            elif which == 3: ws = min(255, iv + 1) if iv < 8 else 9
            elif which == 4: to = 3201 + rng.randrange(100)
            elif which == 5: iv, ws, wo = rng.choice([0, 1, 5]), 1, 0
            elif which == 6: iv = 3201 + rng.randrange(100); to = 3200
            else: ws = 0
        return pdu_conn_update(ws, wo, iv, lat, to, inst)
    if r < 0.75:
        m = rng.getrandbits(40) if valid else rng.choice([0, 1 << rng.randrange(37), (1 << 37) | (1 << 38) | 1])
        if valid and bin(m & (2 ** 37 - 1)).count("1") < 2:
            m |= 3
        return pdu_chan_map(m, inst)
    c, p = (rng.choice([(1, 1), (2, 2), (1, 2), (2, 1), (0, 2), (2, 0), (0, 1), (1, 0)]) if valid
            else rng.choice([(0, 0), (3, 1), (1, 4), (8, 8)]))
    return pdu_phy(c, p, inst)


BOUNDARY = [0, 1, 2, 3, 4, 6, 10, W - 1, W - 2, W - 3, 32766, 32767, 32768, 32769, 40000]


def gen_traffic(rng):
    r = rng.random()
    if r < 0.35: return PING
    if r < 0.6: return ATT_MTU
    if r < 0.75: return UNKNOWN
    if r < 0.85: return ATT_WRITE_CMD
    if r < 0.93: return rng.choice(["030b00" + "00" * 10, "030701" + "ff" * 6, "03041802020a", "03021800", "030100"])   # wrong sizes
    return "0302" + "02%02x" % rng.choice([0x13, 0x16, 0x08, 40]) if rng.random() < 0.15 else PING


def gen_session(rng, length):
    cfg = rng.choice([0, 0, 1])
    lat = rng.choice([0, 0, 1, 2, 3, 5, rng.randrange(0, 12)])
    e0 = rng.choice([rng.randrange(W), 0, 1, W - 1, W - 2, W - 4, 32767, 32768, rng.randrange(W)])
    ops = ["reset %d %d %d %d" % (cfg, lat, e0, rng.randrange(5, 17))]
    queued = 0
    first = rng.random() < 0.5
    if first:
        d = rng.choice(BOUNDARY) if rng.random() < 0.7 else rng.randrange(1, 40)
        tr = [gen_traffic(rng) for _ in range(rng.choice([0, 0, 1, 2]))]
        ops.append("ev " + " ".join(tr + [gen_proc(rng, (e0 + d) % W, rng.random() < 0.9)] + [gen_traffic(rng) for _ in range(rng.choice([0, 0, 1]))]))
        queued += 2
    n_procs = 1 if first else 0
    for _ in range(length):
        r = rng.random()
        if r < 0.14:
            ops.append("to")
        elif r < 0.24:
            ops.append("cancel")
        elif r < 0.55:
            ops.append("ev")
        elif r < 0.85 or n_procs >= 3:
            k = rng.choice([1, 1, 1, 2, 3])
            if queued + k > 40:
                ops.append("ev")
            else:
                queued += k
                ops.append("ev " + " ".join(gen_traffic(rng) for _ in range(k)))
        else:
            n_procs += 1
            queued += 1
            d = rng.randrange(-3, 30) + len(ops) * (lat + 1) // 2
            ops.append("ev " + gen_proc(rng, (e0 + d) % W, rng.random() < 0.9))
    return ops


def gen_reconnect_session(rng):
    """a procedure is (mostly) still pending when the connection is lost (supervision timeout or local
    disconnect); the link layer is connected again and the new connection runs past the old instant"""
    cfg = rng.choice([0, 1])
    ops, first = [], True
    for _round in range(rng.choice([1, 1, 2])):
        lat = rng.choice([0, 0, 1, 2])
        timeout = 6 * (lat + 1) + 1 + rng.randrange(4, 24)
        e0 = rng.choice([rng.randrange(W), W - 3, 0, 32760])
        if first:
            ops.append("reset %d %d %d %d %d" % (cfg, lat, e0, rng.randrange(5, 17), timeout))
        else:
            ops.append("connect %d %d %d %d" % (lat, e0, rng.randrange(5, 17), timeout))
        first = False
        inst = None
        if rng.random() < 0.85:
            inst = (e0 + rng.randrange(40, 300)) % W       # a Connection Update must not reach its instant while disconnecting
            tr = [gen_traffic(rng) for _ in range(rng.choice([0, 0, 1]))]
            ops.append("ev " + " ".join(tr + [gen_proc(rng, inst, True)]))
        for _ in range(rng.randrange(0, 4)):
            ops.append(rng.choice(["ev", "ev " + PING, "ev " + ATT_MTU, "to", "cancel"]))
        if rng.random() < 0.6:
            ops += ["to"] * (timeout * 10000 // 30000 + 2)
        else:
            ops.append("disconnect")
        # the new connection: its counter passes the old instant after a few events
        lat2 = rng.choice([0, 0, 1])
        c2 = (inst - rng.randrange(1, 9)) % W if inst is not None and rng.random() < 0.8 else rng.randrange(W)
        ops.append("connect %d %d %d %d" % (lat2, c2, rng.randrange(5, 17), rng.choice([3200, 100, 40])))
        if rng.random() < 0.4:
            ops.append("ev " + gen_proc(rng, (c2 + rng.randrange(2, 9)) % W, rng.random() < 0.9, no_conn=True) + " " + PING)
        else:
            ops.append("ev " + rng.choice([PING, ATT_MTU, PING + " " + ATT_MTU]))
        for _ in range(rng.randrange(6, 14)):
            ops.append(rng.choice(["ev", "ev", "ev " + PING, "ev " + ATT_MTU, "ev " + UNKNOWN, "to", "cancel"]))
        # end this connection, too, if another round follows
        if rng.random() < 0.5:
            ops.append("ev 03020213")
        ops.append("disconnect")
    return ops


def gen_plan_session(rng, n):
    ops = []
    for _ in range(n):
        cfg = rng.choice([rng.randrange(32), 32, 31, 0])
        counter = rng.choice([rng.randrange(W), W - 1, W - 2, 0, 1])
        lat = rng.choice([0, 1, 2, 5, 30, 499, rng.randrange(500)])
        pend = rng.randrange(2)
        inst = (counter + rng.choice([0, 1, 2, 3, lat, lat + 1, lat + 2, 32767, W - 1, rng.randrange(W)])) % W
        ops.append("plan %d %d %d %d %d %d %d" % (cfg, counter, rng.randrange(37), lat, rng.randrange(64), pend, inst))
    return ops


def plan_exhaustive():
    ops = []
    for cfg in range(33):
        for flags in range(64):
            for lat in (0, 1, 4):
                for pend, dist in ((0, 0), (1, 0), (1, 1), (1, 2), (1, 5), (1, W - 1)):
                    ops.append("plan %d %d %d %d %d %d %d" % (cfg, W - 2, 35, lat, flags, pend, (W - 2 + dist) % W))
    return [ops[i:i + 2000] for i in range(0, len(ops), 2000)]


def wrap_session():
    """the connEventCounter really counts through 0xffff (no harness poke of the counter)"""
    return (["reset 1 0 0 10"] + ["ev"] * 65533 + ["ev " + pdu_chan_map(0x1000000001, 3)] + ["ev", "to", "ev", "ev " + PING, "ev", "ev", "ev"])


def proj(op, line):
    # the data channel of the planned event is C20's business (channel_map.cpp)
    return re.sub(r" ch=\S+", "", line)


def run_c21(ctx, replay_path=None):
    res = Result()
    res.rule = ("link layer sessions = reset (peripheral latency configuration, latency 0..11, connEventCounter anywhere incl. "
                "0xfffc..1 and 0x7fff/0x8000, hop) followed by connection events carrying LL_CONNECTION_UPDATE_IND / "
                "LL_CHANNEL_MAP_IND / LL_PHY_UPDATE_IND with instants at distance 0,1,2,3,-1,-2,32766..32769 and random, valid "
                "and invalid parameters, other traffic while pending, lost events and try_event_cancelation(); reconnect sessions lose the connection (supervision timeout by lost events, local disconnect()) with a procedure still pending and connect again on the same link layer object, the new connection's counter running past the old instant; each session runs "
                "on the real link_layer<> (test_radio, one event per op) and on the Lean model, state lines compared; an "
                "independent monitor evaluates C21 on the implementation's lines; `plan` ops call plan_next_connection_event "
                "of every peripheral_latency_configuration directly; non-trivial = a procedure became pending")
    sessions = [ops for _, ops in ctx.corpus()]
    n = 2500 if ctx.thorough else 260
    for _ in range(n):
        sessions.append(gen_session(ctx.rng, ctx.rng.randrange(4, 45)))
    for _ in range(500 if ctx.thorough else 60):
        sessions.append(gen_reconnect_session(ctx.rng))
    for _ in range(40 if ctx.thorough else 6):
        sessions.append(gen_plan_session(ctx.rng, 200))
    if ctx.thorough:
        sessions += plan_exhaustive()
        sessions.append(wrap_session())
        res.extra["exhaustive_small_scope"] = ("plan_next_connection_event: all 33 configurations x 64 event flag sets x latency 0,1,4 "
                                               "x instant distance none,0,1,2,5,65535 at counter 0xfffe; one session counting "
                                               "through 65536 real events")
    impl, model, dis = ctx.run_pair(sessions, proj)
    for d in dis:
        ops = sessions[d["session"]]
        if len(res.disagreements) < 2 and len(ops) < 200:
            ops = ctx.shrink_disagreement(ops, proj)
        res.disagreements.append(dict(d, ops=ops[:120]))
    for ops, r in zip(sessions, impl):
        outs = r["out"]
        res.evaluations += len(outs)
        res.sessions += 1
        if ops[0].startswith("plan"):
            res.count("plan_ops", len(ops))
            for o, x in zip(ops, outs):
                m = monitor_plan(o, x)
                if m:
                    res.failures.append({"key": m[0], "what": m[1], "ops": [o]})
                    break
            continue
        for o in ops[1:]:
            w = o.split()
            res.count("op_" + (w[0] if len(w) == 1 or w[0] != "ev" else "ev_with_pdus"))
        for o in ops:
            for p in o.split()[1:] if o.startswith("ev ") else []:
                c = classify(p)
                res.count("pdu_" + c[0])
        if r["crash"]:
            res.failures.append({"key": "C21:crash:" + r["crash"].split(" @")[0], "what": r["crash"], "ops": ops[:len(outs) + 1]})
            continue
        m = monitor(ops, outs)
        if m:
            k, key, what = m
            f_ops = ops[:k + 1]
            if len(f_ops) < 120:
                def still(cand, key=key):
                    rr = ctx.run_impl([cand])[0]
                    if rr["crash"]:
                        return False
                    mm = monitor(cand, rr["out"])
                    return bool(mm) and mm[1] == key
                if sum(1 for f in res.failures if f["key"] == key) == 0:
                    f_ops = ctx.shrink(f_ops, still, budget=60)
            res.failures.append({"key": key, "what": what, "ops": f_ops})
        pend = any(" pend=1" in x for x in outs)
        term = any(x.startswith("adv reason=40") for x in outs)
        res.count("sessions_with_pending_procedure", pend)
        res.count("sessions_terminated_instant_passed", term)
        res.count("sessions_applied", any(" pend=1" in a and " pend=0" in b for a, b in zip(outs, outs[1:])))
        res.count("sessions_with_reconnect", any(o.startswith("connect") for o in ops))
        res.count("sessions_connection_lost_while_pending",
                  any(" pend=1" in a and b.startswith("adv") for a, b in zip(outs, outs[1:])))
        res.count("sessions_blocked_data_while_pending", any(" pend=1" in x and " rxw=1" in x for x in outs))
        if pend or term:
            res.distinct.add(hash(tuple(ops)))
    res.samples = [" ; ".join(s[:6])[:300] for s in sessions[:3]]
    return res


PROPS = {
    "C21": dict(
        theorems=["BluetoeModel.Instants.applied_at_instant_or_terminated",
                  "BluetoeModel.Instants.indication_accepted_or_terminated",
                  "BluetoeModel.Instants.pending_blocks_at_most_until_instant",
                  "BluetoeModel.Instants.data_processed_when_nothing_pending",
                  "BluetoeModel.Instants.latency_never_skips_instant",
                  "BluetoeModel.Instants.applied_event_not_rescheduled",
                  "BluetoeModel.Instants.pending_procedure_dies_with_connection",
                  "BluetoeModel.Instants.connection_end_drops_pending",
                  "BluetoeModel.Instants.new_connection_starts_clean",
                  "BluetoeModel.Instants.terminated_only_when_instant_passed_partial"],
        witnesses=["BluetoeModel.Instants.terminated_only_when_instant_passed_witness"],
        run=run_c21,
        level="proof",
        technique="Lean 4 invariant proof over all histories of connection events / lost events / event cancelations with 16-bit wrap-around arithmetic + differential correspondence with the real link_layer<> on test_radio",
        level_text="Theorems over every connEventCounter, instant (mod 65536), peripheral latency, listen decision, lost event and cancelation history: an indication is either refused with Instant Passed or becomes pending with 0 < distance < 32767; while pending the parameters in force do not change, every planned event lies before the instant, the distance strictly decreases with every event, and the step that plans the event whose counter equals the instant applies exactly the carried parameters, or - for a Connection Update whose parameters check_timing_paremeters refuses - ends the link in exactly that step (or the link ends earlier by supervision timeout); the model is the patched code (fixes instants-01..03, parameter check of timing-01 imported from BluetoeModel.Timing).",
        level_note="Trusted: Lean kernel + standard axioms; model = code as far as the differential check samples it (state lines after every connection event); radio timing (transmit windows) is not part of the model; the counter is poked to reach the wrap-around (one unpoked 65536-event session in the thorough tier). The termination of a Connection Update whose instant is the next event (pinned by the repository test connection_update_request_invalid_instance) stays a known finding.",
        design_ref="§5 C21",
        assumptions=["test_radio as the scheduled radio (disarm_connection_event always succeeds with 0 remaining time)",
                     "connection parameters are checked by check_timing_paremeters with fix timing-01 (range checks first, so the delta_time product can not overflow); validity is BluetoeModel.Timing.parseUpdate",
                     "no LLID 1 (continuation) PDUs: with the default MTU they are never consumed by handle_received_data (reported to C15/C19)"],
    ),
}
