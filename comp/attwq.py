"""C07 — prepared writes are deferred, per client and applied in order
(bluetoe/write_queue.hpp + Prepare Write / Execute Write / client_disconnected of bluetoe/server.hpp)"""
from vlib.core import Result

NAME = "attwq"
LEAN_MODULE = "BluetoeModel.AttWriteQueue"
LEAN_DIRS = ["BluetoeModel/AttWriteQueue", "BluetoeModel/Cccd", "Driver/AttWriteQueue"]
DRIVER = "drv_attwq"
HARNESS_DESC = "harness/attwq.cpp (real bluetoe::server<shared_write_queue<S>, ...>, 3 connections)"
# -g0: the debug information of these template heavy servers triples the compile time; the crash
# classification only needs the sanitizer's error kind
HARNESS = dict(src="harness/attwq.cpp",
               flags=["-O0", "-g0", "-fsanitize=address,undefined", "-fno-sanitize-recover=all", "-fno-omit-frame-pointer", "-w"])


# ------------------------------------------------------------------------------------------------
# the server types of harness/attwq.cpp as data (the harness prints what the real templates
# produced for the same type; the first op of every session compares the two)
# attribute tokens: s / c (declarations), u<strlen>, v<mem>.<size>.<read>.<write>.<enc>, d<k>.<enc>
# ------------------------------------------------------------------------------------------------
def pat(tag, n):
    return "".join("%02x" % ((tag * 16 + i) & 0xff) for i in range(n))


SERVERS = {
    "W0": dict(q=None, mtu=23, prios=[], mem=[pat(1, 4)],
               attrs=["s", "c", "v0.4.1.1.0"]),
    "W1": dict(q=16, mtu=23, prios=[], mem=[pat(1, 4), pat(2, 20)],
               attrs=["s", "c", "v0.4.1.1.0", "c", "v1.20.1.1.0"]),
    "W2": dict(q=64, mtu=23, prios=[0], mem=[pat(1, 40), "c0c1c2c3", pat(3, 4), pat(4, 2)],
               attrs=["s", "c", "v0.40.1.1.0", "c", "v1.4.1.0.0", "c", "v2.4.1.1.0", "d0.0", "u3", "c", "v3.2.1.0.0"]),
    "W3": dict(q=64, mtu=65, prios=[0], mem=[pat(1, 8), pat(2, 4), pat(3, 20), pat(4, 4)],
               attrs=["s", "c", "v0.8.1.1.1", "c", "v1.4.1.1.0", "s", "c", "v2.20.1.1.1", "d0.1", "c", "v3.4.1.1.0"]),
    "W4": dict(q=142, mtu=23, prios=[0, 0, 0, 0, 0], mem=[pat(1, 40), pat(2, 4), pat(3, 4), pat(4, 2), pat(5, 1)],
               attrs=["s", "c", "v0.40.1.1.1", "d0.1", "c", "v1.4.1.1.1", "d1.1", "c", "v2.4.1.1.0", "d2.0",
                      "c", "v3.2.1.1.1", "d3.1", "c", "v4.1.1.1.1", "d4.1"]),
    "W5": dict(q=7, mtu=23, prios=[], mem=[pat(1, 2)],
               attrs=["s", "c", "v0.2.1.1.0"]),
}


def reset_line(name, servers=SERVERS):
    s = servers[name]
    return "reset %s q=%s mtu=%d prios=%s mem=%s attrs=%s" % (
        name, "-" if s["q"] is None else s["q"], s["mtu"],
        ",".join(str(p) for p in s["prios"]) if s["prios"] else "-",
        "/".join(s["mem"]), ",".join(s["attrs"]))


def expand_resets(ops, servers=SERVERS):
    return [reset_line(o.split()[1], servers) if o.startswith("reset ") and len(o.split()) == 2 else o for o in ops]


class Attr:
    def __init__(self, tok):
        self.kind = tok[0]
        f = [int(x) for x in tok[1:].split(".")] if len(tok) > 1 else []
        self.mem = self.size = self.pos = None
        self.read = self.write = self.enc = False
        if self.kind == "v":
            self.mem, self.size, self.read, self.write, self.enc = f[0], f[1], bool(f[2]), bool(f[3]), bool(f[4])
        elif self.kind == "d":
            self.pos, self.enc, self.size, self.write, self.read = f[0], bool(f[1]), 2, True, True


def attrs_of(name, servers=SERVERS):
    return [Attr(t) for t in servers[name]["attrs"]]


def hx(bs):
    return "".join("%02x" % b for b in bs) if bs else "-"


def le16(n):
    return [n & 0xff, (n >> 8) & 0xff]


# ------------------------------------------------------------------------------------------------
# generator
# ------------------------------------------------------------------------------------------------
def pick_handle(rng, attrs):
    r = rng.random()
    n = len(attrs)
    writable = [i + 1 for i, a in enumerate(attrs) if a.kind == "v" and a.write]
    cccds = [i + 1 for i, a in enumerate(attrs) if a.kind == "d"]
    if r < 0.62 and writable:
        return rng.choice(writable)
    if r < 0.80 and cccds:
        return rng.choice(cccds)
    if r < 0.93:
        return rng.randrange(1, n + 1)
    return rng.choice([0, n + 1, 0xffff, rng.randrange(n + 1, 0x10000)])


def gen_long_write(rng, c, attrs, mtu, count):
    """a GATT long / reliable write: prepares at increasing offsets, then execute / cancel / nothing"""
    ops = []
    h = pick_handle(rng, attrs)
    a = attrs[h - 1] if 1 <= h <= len(attrs) else None
    size = a.size if a is not None and a.size is not None else 4
    r = rng.random()
    total = size if r < 0.6 else rng.randrange(0, size + 1) if r < 0.85 else size + rng.randrange(1, 4)
    start = 0 if rng.random() < 0.8 else rng.randrange(0, size + 3)
    max_chunk = max(1, mtu - 5)
    off = start
    remaining = total
    first = True
    while first or remaining > 0:
        first = False
        chunk = min(remaining, rng.choice([max_chunk, max_chunk, rng.randrange(1, max_chunk + 1), 1, 2]))
        if rng.random() < 0.03:
            chunk = 0
        data = [rng.randrange(256) for _ in range(chunk)]
        if rng.random() < 0.02:
            data += [rng.randrange(256) for _ in range(rng.randrange(1, 8))]  # PDU longer than the MTU allows
        ops.append("pdu %d %s" % (c, hx([0x16] + le16(h) + le16(off) + data)))
        count("gen_prepare")
        off += chunk
        remaining -= max(chunk, 1) if chunk == 0 else chunk
        if rng.random() < 0.05:
            break
    r = rng.random()
    if r < 0.70:
        ops.append("pdu %d 1801" % c)
        count("gen_execute")
    elif r < 0.85:
        ops.append("pdu %d 1800" % c)
        count("gen_cancel")
    elif r < 0.93:
        ops.append("disc %d" % c)
        count("gen_disconnect_holding")
    else:
        count("gen_abandon")
    return ops


def gen_single(rng, c, attrs, mtu, count, allow_mtu):
    r = rng.random()
    h = pick_handle(rng, attrs)
    a = attrs[h - 1] if 1 <= h <= len(attrs) else None
    size = a.size if a is not None and a.size is not None else 4
    if r < 0.30:
        n = rng.choice([size, size, rng.randrange(0, size + 1), size + 1, 0, 1, 2])
        n = min(n, mtu - 3)
        count("gen_write_request")
        return ["pdu %d %s" % (c, hx([0x12] + le16(h) + [rng.randrange(256) for _ in range(n)]))]
    if r < 0.36:
        count("gen_write_command")
        return ["pdu %d %s" % (c, hx([0x52] + le16(h) + [rng.randrange(256) for _ in range(min(size, mtu - 3))]))]
    if r < 0.50:
        off = rng.choice([0, 0, 1, 2, 3, size, size + 1, rng.randrange(0, size + 2)])
        n = rng.choice([0, 1, 2, max(0, size - off), size])
        n = min(n, mtu - 5)
        count("gen_prepare")
        return ["pdu %d %s" % (c, hx([0x16] + le16(h) + le16(off) + [rng.randrange(256) for _ in range(n)]))]
    if r < 0.62:
        count("gen_execute")
        return ["pdu %d 1801" % c]
    if r < 0.68:
        count("gen_cancel")
        return ["pdu %d 1800" % c]
    if r < 0.76:
        count("gen_sec")
        return ["sec %d %d %d" % (c, rng.randrange(2), rng.randrange(4))]
    if r < 0.82:
        count("gen_disconnect")
        return ["disc %d" % c]
    if r < 0.88:
        rd = [i + 1 for i, x in enumerate(attrs) if x.kind in "vd"]
        count("gen_read")
        return ["pdu %d %s" % (c, hx([0x0a] + le16(rng.choice(rd))))]
    if r < 0.92 and allow_mtu:
        count("gen_mtu")
        return ["mtu %d %d" % (c, rng.choice([23, 24, 30, 64, 65, 100]))]
    # malformed prepare / execute
    count("gen_malformed")
    return ["pdu %d %s" % (c, rng.choice(["16", "1603", "160300", "16030000", "18", "1802", "180100", "18ff", "1801ff",
                                            hx([0x16] + le16(h)), hx([0x18, rng.randrange(256)])]))]


def gen_session(rng, name, length, count):
    srv = SERVERS[name]
    attrs = attrs_of(name)
    ops = [reset_line(name)]
    mtus = [23, 23, 23]
    nconn = rng.choice([2, 3, 3])
    needs_enc = any(a.enc for a in attrs)
    for c in range(nconn):
        if needs_enc and rng.random() < 0.75:
            ops.append("sec %d %d %d" % (c, 1 if rng.random() < 0.7 else 0, rng.randrange(4)))
        if srv["mtu"] > 23 and rng.random() < 0.6:
            mtus[c] = rng.choice([23, 40, 65, 100])
            ops.append("mtu %d %d" % (c, mtus[c]))
    # one pending script per connection, interleaved round-robin with random skips
    scripts = [[] for _ in range(nconn)]
    produced = 0
    c = 0
    while produced < length:
        c = (c + 1) % nconn
        if rng.random() < 0.35:
            continue
        if not scripts[c]:
            mtu = min(srv["mtu"], mtus[c])
            if rng.random() < 0.45:
                scripts[c] = gen_long_write(rng, c, attrs, mtu, count)
            else:
                scripts[c] = gen_single(rng, c, attrs, mtu, count, srv["mtu"] > 23)
        op = scripts[c].pop(0)
        if op.startswith("mtu"):
            mtus[c] = int(op.split()[2])
        if op.startswith("disc"):
            mtus[c] = 23
        ops.append(op)
        produced += 1
        if not op.startswith(("sec", "mtu")):
            ops.append("q")
            ops.append("mem")
    return ops


def with_observations(ops):
    """corpus files list only the stimulating ops: add the observations the monitor needs"""
    out = []
    for o in ops:
        out.append(o)
        if o.startswith(("pdu", "disc")):
            out += ["q", "mem"]
    return out


# ------------------------------------------------------------------------------------------------
# independent oracle for C07 (written from the property statement, not from the code):
# abstract memory, per connection CCCD flags, link security, queue owner and the list of queued
# writes; every implementation answer and every memory observation is checked against it
# ------------------------------------------------------------------------------------------------
class Oracle:
    def __init__(self, name, servers=SERVERS):
        s = servers[name]
        self.attrs = attrs_of(name, servers)
        self.qsize = s["q"]
        self.srv_mtu = s["mtu"]
        self.mem = [list(bytes.fromhex(m)) for m in s["mem"]]
        self.ncccd = len(s["prios"])
        self.cccd = [[0] * self.ncccd for _ in range(3)]
        self.enc = [False] * 3
        self.mtu = [23] * 3
        self.owner = None
        self.pending = []
        self.used = 0

    def attr(self, h):
        return self.attrs[h - 1] if 1 <= h <= len(self.attrs) else None

    def permitted(self, c, a):
        """would a Write Request to this attribute on this connection be permitted?"""
        if a is None or a.kind not in "vd" or not a.write:
            return False
        return (not a.enc) or self.enc[c]

    def apply(self, c, a, off, data):
        """the effect of one write; returns False when the write fails (nothing changes)"""
        if not self.permitted(c, a):
            return False
        if off > a.size or off + len(data) > a.size:
            return False
        if a.kind == "v":
            self.mem[a.mem][off:off + len(data)] = data
        elif off == 0 and data:
            self.cccd[c][a.pos] = data[0] & 3
        return True

    def snapshot(self):
        return ([list(m) for m in self.mem], [list(x) for x in self.cccd])

    def release(self, c):
        if self.owner == c:
            self.owner, self.pending, self.used = None, [], 0


def unpack_cccd(hexbytes, n):
    bs = bytes.fromhex(hexbytes) if hexbytes != "-" else b""
    return [(bs[i // 4] >> (2 * (i % 4))) & 3 if i // 4 < len(bs) else None for i in range(n)]


def parse_mem(line, n):
    vals, cc = line.split(" | ")
    mem = [list(bytes.fromhex(v)) if v != "-" else [] for v in vals.split("/")]
    return mem, [unpack_cccd(x, n) for x in cc.split()]


def resp_bytes(out):
    w = out.split()
    return [] if not w or w[0] == "-" else list(bytes.fromhex(w[0]))


def monitor(name, ops, outs, servers=SERVERS):
    """returns None or (op index, key, text)"""
    o = Oracle(name, servers)
    if o.qsize is None:
        # no write queue: the property only says something about servers with a shared write queue
        for k, (op, out) in enumerate(zip(ops, outs)):
            w = op.split()
            if w[0] == "pdu" and w[2][:2] in ("16", "18") and resp_bytes(out)[:1] != [1]:
                return k, "C07:no-queue-accepted", "server without write queue answered %s to %s" % (out, op)
        return None
    last_probe = {}   # (conn, handle) -> permitted according to the implementation's own Write Request
    expect_snapshot = None
    expect_released = None
    for k, (op, out) in enumerate(zip(ops, outs)):
        w = op.split()
        if w[0] == "reset":
            continue
        if w[0] == "sec":
            c = int(w[1])
            if out == "ok":
                o.enc[c] = w[2] == "1"
                last_probe = {x: v for x, v in last_probe.items() if x[0] != c}
            continue
        if w[0] == "mtu":
            if out == "ok":
                o.mtu[int(w[1])] = int(w[2])
            continue
        if w[0] == "q":
            if expect_released is not None:
                what, c = expect_released
                if not out.startswith("owner=- end=0"):
                    return k, "C07:not-released:" + what, "queue not released after %s by connection %d: %s" % (what, c, out)
                expect_released = None
            want = "owner=%s end=%d" % ("-" if o.owner is None else o.owner, o.used)
            if not out.startswith(want + " "):
                return k, "C07:queue-state", "queue is `%s`, the accepted prepared writes say `%s`" % (out, want)
            continue
        if w[0] == "mem":
            if expect_snapshot is not None:
                what, snap = expect_snapshot
                got = parse_mem(out, o.ncccd)
                if got[0] != snap[0] or got[1] != snap[1]:
                    return k, "C07:" + what, "%s: values / CCCDs are %s, expected %s" % (what, out, snap)
                expect_snapshot = None
            continue
        if w[0] == "disc":
            c = int(w[1])
            held = o.owner == c
            o.release(c)
            o.enc[c], o.mtu[c] = False, 23
            o.cccd[c] = [0] * o.ncccd
            last_probe = {x: v for x, v in last_probe.items() if x[0] != c}
            if held:
                expect_released = ("disconnect", c)
            expect_snapshot = ("disconnect-changed-value", o.snapshot())
            continue
        if w[0] != "pdu":
            continue
        c = int(w[1])
        pdu = list(bytes.fromhex(w[2]))
        rsp = resp_bytes(out)
        opc = pdu[0]
        if opc in (0x12, 0x52):
            if len(pdu) >= 3:
                h = pdu[1] | pdu[2] << 8
                a = o.attr(h)
                done = o.apply(c, a, 0, pdu[3:])
                if opc == 0x12:
                    if (rsp == [0x13]) != done:
                        return k, "C07:write-request-reference", "Write Request answered %s, reference semantics say %s" % (out, "success" if done else "error")
                    if len(pdu) == 3:
                        last_probe[(c, h)] = rsp == [0x13]
            expect_snapshot = ("write-request-wrong-memory", o.snapshot())
            continue
        if opc == 0x16:
            accepted = rsp[:1] == [0x17]
            if len(pdu) < 5:
                if accepted:
                    return k, "C07:prepare-accepted:malformed", "short Prepare Write accepted: %s" % out
            else:
                h = pdu[1] | pdu[2] << 8
                a = o.attr(h)
                ok = o.permitted(c, a)
                probe = last_probe.get((c, h))
                if probe is not None and probe != ok:
                    return k, "C07:write-request-reference", "empty Write Request to handle %d was %s, reference says %s" % (h, probe, ok)
                free = o.owner in (None, c)
                room = len(pdu) - 1 + 2 <= o.qsize - o.used
                if ok and free and room and not accepted:
                    detail = "encrypted-link" if (a.enc and o.enc[c]) else "plain"
                    return k, "C07:prepare-rejected-although-write-permitted:" + detail, \
                        "conn %d: Prepare Write to handle %d answered %s although a Write Request to it is permitted and the queue has room" % (c, h, out)
                if accepted and not ok:
                    return k, "C07:prepare-accepted:write-not-permitted", "Prepare Write to handle %d accepted (%s) although a Write Request is not permitted" % (h, out)
                if accepted and not free:
                    return k, "C07:prepare-accepted:held-by-other", "conn %d got %s while connection %s holds the queue" % (c, out, o.owner)
                if accepted and not room:
                    return k, "C07:prepare-accepted:no-room", "Prepare Write accepted (%s) with %d of %d queue bytes used" % (out, o.used, o.qsize)
                if ok and not free and rsp != [1, 0x16, pdu[1], pdu[2], 0x09]:
                    return k, "C07:other-client-not-queue-full", "conn %d got %s while connection %s holds the queue (expected Prepare Queue Full)" % (c, out, o.owner)
                if accepted:
                    want = [0x17] + pdu[1:min(len(pdu), min(o.srv_mtu, o.mtu[c]))]
                    if rsp != want:
                        return k, "C07:prepare-response-echo", "Prepare Write Response %s does not echo the request" % out
                    o.owner = c
                    o.pending.append((h, pdu[3] | pdu[4] << 8, pdu[5:]))
                    o.used += len(pdu) - 1 + 2
            expect_snapshot = ("prepare-changed-value", o.snapshot())
            continue
        if opc == 0x18:
            if len(pdu) != 2 or pdu[1] > 1:
                if rsp[:1] != [1]:
                    return k, "C07:execute-accepted:malformed", "malformed Execute Write answered %s" % out
                expect_snapshot = ("execute-malformed-changed-value", o.snapshot())
                continue
            all_ok = True
            if pdu[1] == 1 and o.owner == c:
                for (h, off, data) in o.pending:
                    if not o.apply(c, o.attr(h), off, data):
                        all_ok = False
                        break
            if all_ok and rsp != [0x19]:
                return k, "C07:execute-response", "Execute Write (flags %d) answered %s, expected Execute Write Response" % (pdu[1], out)
            if not all_ok and (rsp[:2] != [1, 0x18]):
                return k, "C07:execute-response", "Execute Write with a failing queued write answered %s" % out
            if o.owner == c:
                expect_released = ("execute" if pdu[1] else "cancel", c)
            o.release(c)
            expect_snapshot = ("execute-wrong-memory" if pdu[1] else "cancel-changed-value", o.snapshot())
            continue
    return None


# ------------------------------------------------------------------------------------------------
def proj(op, line):
    """C07 does not talk about the subscription callback: drop the cb counter"""
    if op.startswith("pdu"):
        return line.split(" cb=")[0]
    return line


def enumerate_small(name, max_len, reduced=False):
    """all sequences of exactly max_len ops over two connections from a small alphabet"""
    alphabet = []
    for c in (0, 1):
        alphabet += ["pdu %d 1603000000aa" % c, "pdu %d 1801" % c, "pdu %d 1800" % c, "disc %d" % c]
        if not reduced:
            alphabet += ["pdu %d 1603000100bb" % c, "pdu %d 120300cc" % c]
    seqs = [[]]
    for _ in range(max_len):
        seqs = [s + [x] for s in seqs for x in alphabet]
    return [[reset_line(name)] + with_observations(s) for s in seqs]


def run_c07(ctx, replay_path=None):
    res = Result()
    res.rule = ("session = reset <server type W0..W5> (write queue none/16/64/64+MTU65/142/7 bytes; values, constant value, "
                "CCCDs, user description; encryption required at characteristic / service / server level) followed by GATT "
                "long-write scripts (prepares at increasing offsets, then execute / cancel / disconnect / abandon) and single "
                "prepare / execute / write / read / sec / mtu / disconnect / malformed ops of 2-3 connections interleaved "
                "round-robin with random skips; after every request the queue (owner, buffer_end_, bytes) and all values + "
                "CCCD bytes are dumped. Every line is compared between the real server and the Lean model (response bytes, "
                "queue, memory; the subscription callback counter is projected away) and checked by an independent Python "
                "oracle of the property (abstract memory + owner + list of accepted prepared writes). A session is "
                "non-trivial if it contains an Execute Write that applied >= 2 queued writes, a Prepare Queue Full answer "
                "to a non-owner, or a release by disconnect; distinct = distinct op sequences")
    names = ["W1", "W2", "W3", "W4", "W5", "W3", "W2", "W0"]
    sessions, snames = [], []
    for f, ops in ctx.corpus():
        ops = expand_resets(ops)
        sessions.append(with_observations(ops))
        snames.append(ops[0].split()[1])
    n = 3000 if ctx.thorough else 260
    for i in range(n):
        name = names[i % len(names)]
        sessions.append(gen_session(ctx.rng, name, ctx.rng.randrange(8, 50), res.count))
        snames.append(name)
    if ctx.thorough:
        for nm, ln, red in (("W1", 3, False), ("W5", 3, False), ("W1", 4, True), ("W1", 5, True)):
            small = enumerate_small(nm, ln, red)
            sessions += small
            snames += [nm] * len(small)
        res.extra["exhaustive_small_scope"] = ("all sequences of 3 ops from a 12 op alphabet (prepare x2, execute, cancel, disconnect, "
                                               "write; 2 connections) on W1 and W5; all sequences of 4 and 5 ops from the 8 op alphabet "
                                               "without the second prepare / the write on W1")
    impl, model, dis = ctx.run_pair(sessions, proj)
    for d in dis:
        ops = sessions[d["session"]]
        if len(res.disagreements) < 2:
            ops = ctx.shrink_disagreement(ops, proj)
        res.disagreements.append(dict(d, ops=ops))
    seen_fail = set()
    for name, ops, r in zip(snames, sessions, impl):
        outs = r["out"]
        res.evaluations += len(outs)
        res.sessions += 1
        if r["crash"]:
            kind = r["crash"].split(" @")[0]
            key = "C07:crash:" + kind.replace(" ", "-")
            fops = ops[:len(outs) + 1]
            if key not in seen_fail:
                seen_fail.add(key)
                fops = ctx.shrink(fops, lambda cand: bool(ctx.run_impl([cand])[0]["crash"]), budget=60)
            res.failures.append({"key": key, "what": "implementation crashed: " + r["crash"], "ops": fops})
        m = monitor(name, ops, outs)
        if m:
            k, key, what = m
            fops = ops[:k + 1]
            if key not in seen_fail:
                seen_fail.add(key)

                def still(cand, key=key, name=name):
                    rr = ctx.run_impl([cand])[0]
                    mm = monitor(name, cand, rr["out"])
                    return bool(mm) and mm[1] == key
                fops = ctx.shrink(fops, still, budget=80)
            res.failures.append({"key": key, "what": what, "ops": fops, "observed": outs[k] if k < len(outs) else None})
        # distribution of what the implementation answered
        applied = 0
        nontrivial = False
        pend = 0
        for op, out in zip(ops, outs):
            if not op.startswith("pdu"):
                if op.startswith("disc") and pend:
                    nontrivial = True
                    res.count("release_by_disconnect")
                    pend = 0
                continue
            b = resp_bytes(out)
            opc = op.split()[2][:2]
            if opc == "16":
                if b[:1] == [0x17]:
                    res.count("prepare_accepted")
                    pend += 1
                elif b[:1] == [1]:
                    res.count("prepare_error_%02x" % b[4])
                    if b[4] == 9:
                        nontrivial = True
            elif opc == "18":
                if b == [0x19]:
                    res.count("execute_ok")
                    if op.endswith("1801") and pend >= 2:
                        nontrivial = True
                        applied += 1
                elif b[:1] == [1]:
                    res.count("execute_error_%02x" % b[4])
                pend = 0
        res.count("sessions_" + name)
        if nontrivial:
            res.distinct.add(hash(tuple(ops)))
    res.samples = [" ; ".join(o for o in s if o not in ("q", "mem"))[:400] for s in sessions[len(ctx.corpus()):len(ctx.corpus()) + 3]]
    return res


THEOREMS = [
    "BluetoeModel.AttWriteQueue.reachable_inv",
    "BluetoeModel.AttWriteQueue.queue_tracks_history",
    "BluetoeModel.AttWriteQueue.queue_iteration_in_bounds",
    "BluetoeModel.AttWriteQueue.prepare_no_effect",
    "BluetoeModel.AttWriteQueue.execute_applies_in_order",
    "BluetoeModel.AttWriteQueue.cancel_discards",
    "BluetoeModel.AttWriteQueue.released_after",
    "BluetoeModel.AttWriteQueue.other_client_queue_full",
    "BluetoeModel.AttWriteQueue.prepare_iff_write_permitted",
    "BluetoeModel.AttWriteQueue.representation_invariant",
    "BluetoeModel.AttWriteQueue.step_keeps_invariant",
    "BluetoeModel.AttWriteQueue.never_oob",
    "BluetoeModel.AttWriteQueue.queue_representation",
    "BluetoeModel.AttWriteQueue.released_after_wf",
    "BluetoeModel.AttWriteQueue.attr_clause_exact",
    "BluetoeModel.Cccd.cccd_position_in_array",
    "BluetoeModel.Cccd.access_in_bounds",
]

PROPS = {
    "C07": dict(
        theorems=THEOREMS,
        witnesses=["BluetoeModel.AttWriteQueue.unfixed_probe_witness"],
        imports=["BluetoeModel.AttWriteQueue.Props", "BluetoeModel.AttWriteQueue.PropsOob", "BluetoeModel.Cccd.PropsOob"],
        run=run_c07,
        level="proof",
        technique="Lean 4 invariant + history proof over a model of write_queue.hpp and the Prepare/Execute Write handlers "
                  "(with fix attwq-01 applied) + differential correspondence with real server<shared_write_queue<S>> types",
        level_text="Theorems queue_tracks_history / reachable_inv: for every server declaration with a 16-bit queue size and every "
                   "interleaving of requests, security changes and disconnects of all connections, the byte queue of the model of "
                   "write_queue.hpp decodes to exactly the prepared writes accepted for its owner since the last release, in order; "
                   "execute_applies_in_order: Execute Write applies that list front to back; prepare_no_effect, cancel_discards, "
                   "released_after, other_client_queue_full and the full strength prepare_iff_write_permitted hold for every state. "
                   "Representation invariant (never_oob, queue_representation, representation_invariant): for every well-formed "
                   "table (decidable declWF: bound values of the declared size, CCCD positions < number of configurations, max MTU "
                   ">= 23, queue size a uint16_t; evaluated by the model driver on every table of the real templates) and every "
                   "history of all connections buffer_end_ <= S, the queue bytes decode as length-prefixed elements ending exactly "
                   "at buffer_end_, each with handle + offset and an existing attribute, and none of the model's explicit "
                   "out-of-bounds results (queue walk, attribute_at, value access, configuration array) is ever produced. "
                   "The model (with fix attwq-01) is tied to the code by differential runs on six real server types and an "
                   "independent Python oracle; small scopes are enumerated exhaustively in the thorough tier.",
        level_note="Trusted: Lean kernel + propext/Quot.sound/Classical.choice; model = code only as far as the differential check "
                   "samples it; bound values and CCCDs only (no user handlers), servers without handle gaps; the "
                   "implementation side of never_oob is ASan/UBSan + asserts in the harness (no hit); value sizes of the python "
                   "tables are tied to the real types by the memory dumps only.",
        design_ref="§5 C07",
        assumptions=["servers without fixed handles (handle = attribute index + 1)",
                     "bound characteristic values and CCCDs (user read/write handlers are not modelled)",
                     "a disconnect is client_disconnected() followed by re-construction of the connection data"],
    ),
}
