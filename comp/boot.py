"""C39 — bootloader service (bluetoe/services/bootloader.hpp)"""
from vlib.core import Result

NAME = "boot"
LEAN_MODULE = "BluetoeModel.Bootloader"
DRIVER = "drv_boot"
HARNESS_DESC = "harness/boot.cpp (real bootloader_service<> controller in a bluetoe::server<>, mock handler recording effects)"
HARNESS = dict(src="harness/boot.cpp")

# configurations of harness/boot.cpp and lean/Driver/Bootloader.lean
CONFIGS = {
    0: dict(page=16, regions=[(0x1008, 0x1020)]),
    1: dict(page=16, regions=[(0x1000, 0x1040), (0x2000, 0x2020)]),
    2: dict(page=1024, regions=[(0x10000, 0x10800)]),
}
MEM_EFFECTS = ("readMem", "startFlash", "checksum", "publicRead")
PARAM_LEN = {0: 0, 1: 16, 2: 0, 3: 8, 4: 0, 5: 0, 6: 8, 7: 0, 8: 16}


def hexs(bs):
    return "".join("%02x" % b for b in bs) if bs else "-"


def parse_hex(s):
    return [] if s == "-" else [int(s[i:i + 2], 16) for i in range(0, len(s), 2)]


def addr(a):
    return [(a >> (8 * i)) & 0xff for i in range(8)]


def interesting_addresses(rng, cfg):
    """region starts/ends, page boundaries around them, addresses just outside, far away, wrap-around"""
    c = CONFIGS[cfg]
    page = c["page"]
    out = []
    for s, e in c["regions"]:
        for base in (s, e, s - s % page, e - e % page, s + page, e - page):
            for d in (-page, -1, 0, 1, 3, page - 1, page, page + 1):
                out.append(max(0, base + d))
        out.append(rng.randrange(s, e))
        out.append(rng.randrange(s, e))
    out += [0, 1, page, 2 ** 64 - 1, 2 ** 64 - page, 2 ** 64 - page + 1, 2 ** 32, rng.randrange(2 ** 64)]
    return out


def gen_session(rng, cfg, length, wild):
    """structured: flash procedures (start flash, data, flush, end flash, progress), CRC and read
    procedures with boundary addresses; `wild` adds malformed lengths / unknown opcodes / interleavings"""
    c = CONFIGS[cfg]
    pool = interesting_addresses(rng, cfg)
    ops = ["reset %d" % cfg]
    in_flash = False
    while len(ops) < length:
        r = rng.random()
        if wild and r < 0.12:
            # malformed control point value: any opcode, any length (exactly sized heap block -> ASan)
            op = rng.choice([0, 1, 2, 3, 4, 5, 6, 7, 8, 8, 8, 9, 0x7f, 0xff])
            n = rng.choice([0, 1, 2, 7, 8, 9, 15, 16, 17, 19])
            ops.append("ctrl " + hexs([op] + [rng.randrange(256) for _ in range(n)]))
        elif wild and r < 0.14:
            ops.append("ctrl -")
        elif r < 0.34:
            a = rng.choice(pool)
            ops.append("ctrl " + hexs([3] + addr(a)))
            in_flash = True
            if rng.random() < 0.5:
                ops.append("output")
        elif r < 0.62:
            n = rng.choice([1, 2, 3, 7, 8, 9, 15, 16, 17, 20, 20, 20])
            ops.append("data " + hexs([rng.randrange(256) for _ in range(n)]))
        elif r < 0.68:
            ops.append("ctrl 05")
            ops.append("output")
        elif r < 0.76:
            ops.append("endflash")
            if rng.random() < 0.7:
                ops.append("output")
        elif r < 0.84:
            a, b = rng.choice(pool), rng.choice(pool)
            if rng.random() < 0.6 and a > b:
                a, b = b, a
            if rng.random() < 0.4:
                s, e = rng.choice(c["regions"])
                a = rng.randrange(s, e + 1)
                b = rng.randrange(a, e + 1)
            ops.append("ctrl " + hexs([1] + addr(a) + addr(b)))
            ops.append("output")
        elif r < 0.92:
            s, e = rng.choice(c["regions"])
            if rng.random() < 0.6:
                a = rng.randrange(s, e + 1)
                b = min(e, a + rng.choice([0, 1, 5, 20, 21, 40, 64])) if rng.random() < 0.8 else rng.choice(pool)
            else:
                a, b = rng.choice(pool), rng.choice(pool)
            # the known finding needs a read procedure that is started while flash mode is on;
            # keep such interleavings to the `wild` stream
            if in_flash and not wild:
                ops.append("ctrl 04")
                in_flash = False
            ops.append("ctrl " + hexs([8] + addr(a) + addr(b)))
            for _ in range(rng.randrange(0, 5)):
                ops.append("output")
        elif r < 0.96:
            ops.append("ctrl " + hexs([rng.choice([0, 2, 4])]))
            in_flash = False
            ops.append("output")
        else:
            ops.append("output")
    return ops[:length + 4]


def inside(cfg, a, n):
    return any(s <= a and a + n <= e for s, e in CONFIGS[cfg]["regions"])


def split_line(line):
    parts = line.split(" ; ")
    if len(parts) != 3:
        return None
    return parts


def proj(op, line):
    """C39 is about the effects (kind, address, size, flashed content), the ATT result and the
    over-read; the notification payloads (version string, sizes, crc of the address …) are compared
    only as far as they carry the checksum chain: cp notifications of opcode 1/3/5/8 and data"""
    p = split_line(line)
    if not p:
        return line
    res, effs, pdu = p
    if pdu.startswith("cp "):
        v = pdu[3:]
        if v[:2] not in ("01", "03", "05", "08"):
            pdu = "cp " + v[:2]
    return " ; ".join((res, effs, pdu))


def monitor(cfg, ops, outs, crash):
    """independent oracle: every memory effect must lie entirely inside one white-listed region;
    a sanitizer report while a control point value is handled is an over-read. Returns a list of
    (index, key, text)."""
    hits = []
    for k, (op, out) in enumerate(zip(ops, outs)):
        w = op.split()
        p = split_line(out)
        if not p:
            continue
        for e in ([] if p[1] == "-" else p[1].split(",")):
            f = e.split()
            if f[0] in MEM_EFFECTS:
                a, n = int(f[1]), int(f[2])
                if not inside(cfg, a, n):
                    regions = CONFIGS[cfg]["regions"]
                    if f[0] == "publicRead":
                        last_read = max([i for i in range(k + 1) if ops[i].startswith("ctrl 08")] or [0])
                        flashing = any(o.startswith("data") for o in ops[last_read:k + 1])
                        key = "C39:publicRead-outside-white-list:" + ("read-procedure-while-flashing" if flashing else "read-procedure")
                    elif f[0] == "checksum":
                        key = "C39:checksum-outside-white-list"
                    else:
                        if any(a < s <= a + n for s, _ in regions):
                            where = "below-region-start"
                        elif any(s <= a <= e2 for s, e2 in regions):
                            where = "past-region-end"
                        else:
                            where = "unrelated-address"
                        key = "C39:%s-outside-white-list:%s" % (f[0], where)
                    hits.append((k, key, "op %d `%s`: %s touches [%#x, %#x) which is not inside any white-listed region" % (k, op, f[0], a, a + n)))
    if crash:
        k = len(outs)
        op = ops[k] if k < len(ops) else "?"
        kind = crash.split(" @")[0]
        if op.startswith("ctrl"):
            v = parse_hex(op.split()[1])
            key = "C39:control-point-over-read:opcode-%d:%s" % (v[0] if v else -1, kind.replace(" ", "-"))
            hits.append((k, key, "op %d `%s`: %s while handling a %d byte control point value" % (k, op, kind, len(v))))
        else:
            hits.append((k, "C39:crash:" + kind.replace(" ", "-"), "op %d `%s`: %s" % (k, op, kind)))
    return hits


def run_c39(ctx, replay_path=None):
    res = Result()
    res.rule = ("sessions = reset <cfg> (page 16 / white list [0x1008,0x1020); page 16 / [0x1000,0x1040) [0x2000,0x2020); page 1024 / "
                "[0x10000,0x10800)) followed by control point writes (all 9 opcodes, boundary addresses: region starts/ends, page "
                "boundaries +-1, wrap-around), data writes of 1..20 bytes, flush, handler end_flash, l2cap_output; a `wild` stream adds "
                "control point values of any opcode and length (exactly sized heap blocks), reads during flashing. The real service "
                "and the Lean model are compared on ATT result, the handler effects (kind, address, size, digest of the flashed "
                "page) and checksum carrying notifications; a Python monitor that knows only the white list flags every effect not "
                "inside a region and every sanitizer report. non-trivial = session with at least one start_flash effect or a "
                "refused (0x07/0x83) request; distinct = distinct (cfg, effect) pairs seen")
    corpus = ctx.corpus()
    sessions = [ops for _, ops in corpus]
    n = 5000 if ctx.thorough else 500
    for i in range(n):
        sessions.append(gen_session(ctx.rng, i % 3, ctx.rng.randrange(6, 50 if i % 3 != 2 else 130), wild=(i % 4 == 3)))
    impl, model, dis = ctx.run_pair(sessions, proj)
    for d in dis:
        ops = sessions[d["session"]]
        if len(res.disagreements) < 2:
            ops = ctx.shrink_disagreement(ops, proj)
        res.disagreements.append(dict(d, ops=ops))
    failing = {}
    for ops, r in zip(sessions, impl):
        cfg = int(ops[0].split()[1])
        outs = r["out"]
        res.evaluations += len(outs)
        res.sessions += 1
        nontrivial = False
        for o, x in zip(ops[1:], outs[1:]):
            w = o.split()
            kind = w[0] + (":%02x" % parse_hex(w[1])[0] if w[0] == "ctrl" and w[1] != "-" else "")
            res.count(kind)
            p = split_line(x)
            if p:
                res.count("result:" + p[0])
                for e in ([] if p[1] == "-" else p[1].split(",")):
                    f = e.split()
                    res.count("effect:" + f[0])
                    res.distinct.add((cfg, f[0], f[1] if len(f) > 1 else "", f[2] if len(f) > 2 else ""))
                    nontrivial = nontrivial or f[0] == "startFlash"
                nontrivial = nontrivial or p[0] in ("err 07", "err 83")
        res.count("sessions_nontrivial", nontrivial)
        for k, key, what in monitor(cfg, ops, outs, r["crash"]):
            failing.setdefault(key, []).append((ops[:k + 1], what))
    for key, lst in sorted(failing.items()):
        ops, what = min(lst, key=lambda t: len(t[0]))

        def still(cand, key=key):
            rr = ctx.run_impl([cand])[0]
            return any(h[1] == key for h in monitor(int(cand[0].split()[1]), cand, rr["out"], rr["crash"]))
        ops = ctx.shrink(ops, still, budget=80)
        rr = ctx.run_impl([ops])[0]
        hs = [h for h in monitor(int(ops[0].split()[1]), ops, rr["out"], rr["crash"]) if h[1] == key]
        res.failures.append({"key": key, "what": hs[0][2] if hs else what, "ops": ops, "observed": rr["out"]})
        res.count("failing_sessions:" + key, len(lst))
    res.samples = [" ; ".join(s[:10]) for s in sessions[len(corpus):len(corpus) + 3]]
    return res


PROPS = {
    "C39": dict(
        theorems=["BluetoeModel.Bootloader.flash_effects_inside_regions",
                  "BluetoeModel.Bootloader.control_point_reads_le_size",
                  "BluetoeModel.Bootloader.effects_inside_regions"],
        witnesses=[],
        run=run_c39,
        level="proof-partial",
        technique="Lean 4 invariant proof over all histories, page sizes and region lists of a model of bootloader::details::controller/flash_buffer + differential correspondence with the real service (effect trace) + white-list monitor and ASan",
        level_text="Proved for every page size, region list and history (with fixes boot-01, boot-02): every start_flash / read_mem / public_checksum32 call touches only memory entirely inside one white-listed region (flash_effects_inside_regions) and read_address never leaves the written control point value (control_point_reads_le_size). The Read procedure's public_read_mem calls are proved inside the white list for histories without a data write in flash mode while a Read procedure is current (effects_inside_regions_partial); with such a write they are not (effects_inside_regions_witness, known finding C39:publicRead-outside-white-list:read-procedure-while-flashing). The clause 'data is flashed at the client's addresses with the announced checksum chain' is covered by the correspondence (digest of every flashed page, crc in the notifications) but not by a theorem.",
        level_note="Trusted: Lean kernel + propext/Quot.sound/Classical.choice; model = code as far as the differential check samples it (3 configurations, one connection, MTU 23, 64 bit uintptr_t, mock handler whose public_read_mem never fails); handler end_flash may be called at any time.",
        design_ref="§5 C39",
        assumptions=["memory_region bounds are uintptr_t values, page size > 0 (Cfg.WF, guaranteed by the C++ types)",
                     "user handler performs exactly the accesses it is asked for (mock records them)"],
    ),
}
