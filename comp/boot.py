"""C39 — bootloader service (bluetoe/services/bootloader.hpp)"""
from vlib.core import Result

NAME = "boot"
LEAN_MODULE = "BluetoeModel.Bootloader"
DRIVER = "drv_boot"
HARNESS_DESC = "harness/boot.cpp (real bootloader_service<> controller in a bluetoe::server<>, mock handler recording effects)"
HARNESS = dict(src="harness/boot.cpp")

# configurations of harness/boot.cpp and lean/Driver/Bootloader.lean
CONFIGS = {
    0: dict(page=16, regions=[(0x1008, 0x1020)]),
    1: dict(page=16, regions=[(0x1000, 0x1040), (0x2000, 0x2020)]),
    2: dict(page=1024, regions=[(0x10000, 0x10800)]),
}
MEM_EFFECTS = ("readMem", "startFlash", "checksum", "publicRead")
PARAM_LEN = {0: 0, 1: 16, 2: 0, 3: 8, 4: 0, 5: 0, 6: 8, 7: 0, 8: 16}


def hexs(bs):
    return "".join("%02x" % b for b in bs) if bs else "-"


def parse_hex(s):
    return [] if s == "-" else [int(s[i:i + 2], 16) for i in range(0, len(s), 2)]


def addr(a):
    return [(a >> (8 * i)) & 0xff for i in range(8)]


def interesting_addresses(rng, cfg):
    """region starts/ends, page boundaries around them, addresses just outside, far away, wrap-around"""
    c = CONFIGS[cfg]
    page = c["page"]
    out = []
    for s, e in c["regions"]:
        for base in (s, e, s - s % page, e - e % page, s + page, e - page):
            for d in (-page, -1, 0, 1, 3, page - 1, page, page + 1):
                out.append(max(0, base + d))
        out.append(rng.randrange(s, e))
        out.append(rng.randrange(s, e))
    out += [0, 1, page, 2 ** 64 - 1, 2 ** 64 - page, 2 ** 64 - page + 1, 2 ** 32, rng.randrange(2 ** 64)]
    return out


def gen_session(rng, cfg, length, wild):
    """structured: flash procedures (start flash, data, flush, end flash, progress), CRC and read
    procedures with boundary addresses; `wild` adds malformed lengths / unknown opcodes / interleavings"""
    c = CONFIGS[cfg]
    pool = interesting_addresses(rng, cfg)
    ops = ["reset %d" % cfg]
    in_flash = False
    # rough estimate of the page flashes that are outstanding (the monitor computes the exact number
    # from the effects): structured sessions call end_flash only for those (handler contract) and
    # do not restart flashing while one is outstanding (both are preconditions of the layout clause)
    pos, flashed, ended = None, 0, 0
    while len(ops) < length:
        r = rng.random()
        if wild and r < 0.12:
            # malformed control point value: any opcode, any length (exactly sized heap block -> ASan)
            op = rng.choice([0, 1, 2, 3, 4, 5, 6, 7, 8, 8, 8, 9, 0x7f, 0xff])
            n = rng.choice([0, 1, 2, 7, 8, 9, 15, 16, 17, 19])
            ops.append("ctrl " + hexs([op] + [rng.randrange(256) for _ in range(n)]))
        elif wild and r < 0.14:
            ops.append("ctrl -")
        elif r < 0.34:
            if not wild:
                while ended < flashed:          # let the outstanding page flashes finish first
                    ops += ["endflash", "output", "output"]
                    ended += 1
            a = rng.choice(pool) if rng.random() < 0.6 else rng.randrange(*rng.choice(c["regions"]))
            ops.append("ctrl " + hexs([3] + addr(a)))
            in_flash = True
            pos = a
            if rng.random() < 0.5:
                ops.append("output")
        elif r < 0.62:
            n = rng.choice([1, 2, 3, 7, 8, 9, 15, 16, 17, 20, 20, 20])
            ops.append("data " + hexs([rng.randrange(256) for _ in range(n)]))
            if pos is not None and in_flash:
                flashed += (pos + n) // c["page"] - pos // c["page"]
                pos += n
        elif r < 0.68:
            ops.append("ctrl 05")
            ops.append("output")
            if pos is not None and in_flash and pos % c["page"]:
                flashed += 1
        elif r < 0.76:
            if wild or ended < flashed or rng.random() < 0.05:
                ops.append("endflash")
                ended += 1
                if rng.random() < 0.7:
                    ops.append("output")
            else:
                ops.append("output")
        elif r < 0.84:
            a, b = rng.choice(pool), rng.choice(pool)
            if rng.random() < 0.6 and a > b:
                a, b = b, a
            if rng.random() < 0.4:
                s, e = rng.choice(c["regions"])
                a = rng.randrange(s, e + 1)
                b = rng.randrange(a, e + 1)
            ops.append("ctrl " + hexs([1] + addr(a) + addr(b)))
            ops.append("output")
        elif r < 0.92:
            s, e = rng.choice(c["regions"])
            if rng.random() < 0.6:
                a = rng.randrange(s, e + 1)
                b = min(e, a + rng.choice([0, 1, 5, 20, 21, 40, 64])) if rng.random() < 0.8 else rng.choice(pool)
            else:
                a, b = rng.choice(pool), rng.choice(pool)
            # the known finding needs a read procedure that is started while flash mode is on;
            # keep such interleavings to the `wild` stream
            if in_flash and not wild:
                ops.append("ctrl 04")
                in_flash = False
            ops.append("ctrl " + hexs([8] + addr(a) + addr(b)))
            for _ in range(rng.randrange(0, 5)):
                ops.append("output")
        elif r < 0.96:
            ops.append("ctrl " + hexs([rng.choice([0, 2, 4])]))
            in_flash = False
            ops.append("output")
        else:
            ops.append("output")
    return ops[:length + 4]


def gen_flash_session(rng, cfg, length):
    """a client that flashes: Start Flash at a white-listed address, data writes of every size, the
    handler's end_flash (only for pages that were flashed) and the progress notifications, Flush,
    restarts after the outstanding pages are done; refused writes (no free buffer) are part of it"""
    c = CONFIGS[cfg]
    page = c["page"]
    ops = ["reset %d" % cfg]
    pos, flashed, ended = None, 0, 0
    while len(ops) < length:
        r = rng.random()
        if pos is None or r < 0.05:
            while ended < flashed:
                ops += ["endflash", "output", "output"]
                ended += 1
            s, e = rng.choice(c["regions"])
            pos = rng.choice([s, s + 1, e - 1, e - page, rng.randrange(s, e), rng.randrange(s, e)])
            ops.append("ctrl " + hexs([3] + addr(pos)))
            if rng.random() < 0.7:
                ops.append("output")
        elif r < 0.70:
            n = rng.choice([1, 2, 5, 13, 16, 19, 20, 20, 20, 20])
            ops.append("data " + hexs([rng.randrange(256) for _ in range(n)]))
            flashed += (pos + n) // page - pos // page
            pos += n
        elif r < 0.88:
            if ended < flashed:
                ops.append("endflash")
                ended += 1
            ops.append("output")
        elif r < 0.94:
            ops += ["ctrl 05", "output"]
            if pos % page:
                flashed += 1
        else:
            ops.append("output")
    return ops


def inside(cfg, a, n):
    return any(s <= a and a + n <= e for s, e in CONFIGS[cfg]["regions"])


def split_line(line):
    parts = line.split(" ; ")
    if len(parts) != 3:
        return None
    return parts


def proj(op, line):
    """C39 is about the effects (kind, address, size, flashed content), the ATT result and the
    over-read; the notification payloads (version string, sizes, crc of the address …) are compared
    only as far as they carry the checksum chain: cp notifications of opcode 1/3/5/8 and data"""
    p = split_line(line)
    if not p:
        return line
    res, effs, pdu = p
    if pdu.startswith("cp "):
        v = pdu[3:]
        if v[:2] not in ("01", "03", "05", "08"):
            pdu = "cp " + v[:2]
    return " ; ".join((res, effs, pdu))


def mock_mem(a):
    return (a % 2 ** 64) % 251


def digest(bs):
    h = 0
    for b in bs:
        h = (h * 31 + b) % 2 ** 32
    return h


def crc_add(old, bs):
    return (old + sum(bs)) % 2 ** 32


def le32(x):
    return [(x >> (8 * i)) & 0xff for i in range(4)]


def layout_monitor(cfg, ops, outs):
    """independent oracle for the third clause: a flash procedure is (start address s0, stream of the
    data bytes taken since Start Flash); every start_flash call must be the page image of the bytes
    that wait at their addresses (rest of the page = device memory), in order, nothing dropped or
    duplicated; the checksum in the Start Flash / Flush response is crc(s0) chained over the stream.
    Knows the protocol (which control point writes start / end flash mode), not the buffers. The number
    of bytes taken from a write answered 0x83 is inferred from the number of pages it flashed.
    Preconditions of the clause: the handler calls end_flash only for an outstanding start_flash
    (otherwise the session is not judged any further); Start Flash while a page flash is outstanding or
    a progress notification is queued is reported under its own key (known finding)."""
    page = CONFIGS[cfg]["page"]
    hits = []
    active = False          # flash mode
    cur, pend, crc = 0, [], 0
    owed, prog = 0, False   # outstanding start_flash calls, progress notification queued
    restart_hazard = False
    last_cp = None          # opcode of the last accepted/attempted control point procedure
    stats = dict(pages=0, judged=True)
    for k, (op, out) in enumerate(zip(ops, outs)):
        if k == 0:
            continue
        p = split_line(out)
        if not p:
            break
        res, effs, pdu = p
        flashes = [tuple(int(x) for x in e.split()[1:]) for e in ([] if effs == "-" else effs.split(",")) if e.startswith("startFlash")]
        w = op.split()
        expect = []

        def emit(cur, pend):
            lo = cur % page
            a = cur - lo
            img = [mock_mem(a + i) for i in range(lo)] + pend + [mock_mem(cur + len(pend) + i) for i in range(page - lo - len(pend))]
            return (a, page, digest(img))
        if w[0] == "ctrl":
            v = parse_hex(w[1])
            if v:
                o = v[0]
                last_cp = o
                if o == 3:
                    if res == "ok":
                        restart_hazard = owed > 0 or prog
                        active, cur, pend = True, int.from_bytes(bytes(v[1:9]), "little"), []
                        crc = sum(v[1:9])
                    else:
                        active = False
                elif o == 5:
                    if res == "ok" and active:
                        expect.append(emit(cur, pend))
                        cur, pend = cur + len(pend), []
                    else:
                        active = False
                elif o in (6, 7):
                    if res != "ok":
                        active = False
                elif o <= 8:
                    active = False
        elif w[0] == "data":
            v = parse_hex(w[1])
            if active:
                if res == "ok":
                    take = len(v)
                elif res == "err 83":
                    # taken up to the m-th page boundary, m = number of pages flashed by this write
                    m = len(flashes)
                    take = 0 if m == 0 else (page - (cur + len(pend)) % page) + (m - 1) * page
                    if take >= len(v) and len(v):
                        hits.append((k, "C39:data-write-refused-after-taking-everything", "op %d `%s`: answered 0x83 although %d pages were flashed" % (k, op, m)))
                        take = len(v)
                else:
                    hits.append((k, "C39:data-write-unexpected-answer", "op %d `%s`: answered `%s` in flash mode" % (k, op, res)))
                    take = 0
                for b in v[:take]:
                    pend.append(b)
                    crc = crc_add(crc, [b])
                    if (cur + len(pend)) % page == 0:
                        expect.append(emit(cur, pend))
                        cur, pend = cur + len(pend), []
            elif res != "err 80":
                hits.append((k, "C39:data-write-accepted-outside-flash-mode", "op %d `%s`: answered `%s` although no flash procedure is active" % (k, op, res)))
        elif w[0] == "endflash":
            if owed == 0:
                stats["judged"] = False      # handler contract broken by the test driver
                break
            owed -= 1
            prog = True
        elif w[0] == "output":
            if pdu == "progress":
                prog = False
            elif pdu.startswith("cp ") and active:
                val = parse_hex(pdu[3:])
                if val and val[0] in (3, 5) and last_cp == val[0]:
                    got = val[2:6] if val[0] == 3 else val[1:5]
                    if got != le32(crc):
                        key = "C39:reported-checksum-mismatch" + (":restart-while-page-flash-outstanding" if restart_hazard else "")
                        hits.append((k, key, "op %d: response of opcode %d reports checksum %s, the chain over the start address and the %s"
                                     " is %s" % (k, val[0], hexs(got), "received bytes", hexs(le32(crc)))))
        owed += len(flashes)
        stats["pages"] += len(flashes)
        if flashes != expect:
            key = "C39:flashed-page-mismatch" + (":restart-while-page-flash-outstanding" if restart_hazard else "")
            hits.append((k, key, "op %d `%s`: start_flash calls (address, size, digest) %s, expected from the client's stream %s" % (k, op, flashes, expect)))
            break
    return hits, stats


def monitor(cfg, ops, outs, crash):
    """independent oracle: every memory effect must lie entirely inside one white-listed region;
    a sanitizer report while a control point value is handled is an over-read. Returns a list of
    (index, key, text)."""
    hits = []
    for k, (op, out) in enumerate(zip(ops, outs)):
        w = op.split()
        p = split_line(out)
        if not p:
            continue
        for e in ([] if p[1] == "-" else p[1].split(",")):
            f = e.split()
            if f[0] in MEM_EFFECTS:
                a, n = int(f[1]), int(f[2])
                if not inside(cfg, a, n):
                    regions = CONFIGS[cfg]["regions"]
                    if f[0] == "publicRead":
                        last_read = max([i for i in range(k + 1) if ops[i].startswith("ctrl 08")] or [0])
                        flashing = any(o.startswith("data") for o in ops[last_read:k + 1])
                        key = "C39:publicRead-outside-white-list:" + ("read-procedure-while-flashing" if flashing else "read-procedure")
                    elif f[0] == "checksum":
                        key = "C39:checksum-outside-white-list"
                    else:
                        if any(a < s <= a + n for s, _ in regions):
                            where = "below-region-start"
                        elif any(s <= a <= e2 for s, e2 in regions):
                            where = "past-region-end"
                        else:
                            where = "unrelated-address"
                        key = "C39:%s-outside-white-list:%s" % (f[0], where)
                    hits.append((k, key, "op %d `%s`: %s touches [%#x, %#x) which is not inside any white-listed region" % (k, op, f[0], a, a + n)))
    hits += layout_monitor(cfg, ops, outs)[0]
    if crash:
        k = len(outs)
        op = ops[k] if k < len(ops) else "?"
        kind = crash.split(" @")[0]
        if op.startswith("ctrl"):
            v = parse_hex(op.split()[1])
            key = "C39:control-point-over-read:opcode-%d:%s" % (v[0] if v else -1, kind.replace(" ", "-"))
            hits.append((k, key, "op %d `%s`: %s while handling a %d byte control point value" % (k, op, kind, len(v))))
        else:
            hits.append((k, "C39:crash:" + kind.replace(" ", "-"), "op %d `%s`: %s" % (k, op, kind)))
    return hits


def run_c39(ctx, replay_path=None):
    res = Result()
    res.rule = ("sessions = reset <cfg> (page 16 / white list [0x1008,0x1020); page 16 / [0x1000,0x1040) [0x2000,0x2020); page 1024 / "
                "[0x10000,0x10800)) followed by control point writes (all 9 opcodes, boundary addresses: region starts/ends, page "
                "boundaries +-1, wrap-around), data writes of 1..20 bytes, flush, handler end_flash, l2cap_output; a `wild` stream adds "
                "control point values of any opcode and length (exactly sized heap blocks), reads during flashing. The real service "
                "and the Lean model are compared on ATT result, the handler effects (kind, address, size, digest of the flashed "
                "page) and checksum carrying notifications; a Python monitor that knows only the white list flags every effect not "
                "inside a region and every sanitizer report. non-trivial = session with at least one start_flash effect or a "
                "refused (0x07/0x83) request; distinct = distinct (cfg, effect) pairs seen")
    corpus = ctx.corpus()
    sessions = [ops for _, ops in corpus]
    n = 5000 if ctx.thorough else 500
    for i in range(n):
        if i % 5 == 4:
            sessions.append(gen_flash_session(ctx.rng, i % 3, ctx.rng.randrange(10, 60 if i % 3 != 2 else 400)))
        else:
            sessions.append(gen_session(ctx.rng, i % 3, ctx.rng.randrange(6, 50 if i % 3 != 2 else 130), wild=(i % 4 == 3)))
    impl, model, dis = ctx.run_pair(sessions, proj)
    for d in dis:
        ops = sessions[d["session"]]
        if len(res.disagreements) < 2:
            ops = ctx.shrink_disagreement(ops, proj)
        res.disagreements.append(dict(d, ops=ops))
    failing = {}
    for ops, r in zip(sessions, impl):
        cfg = int(ops[0].split()[1])
        outs = r["out"]
        res.evaluations += len(outs)
        res.sessions += 1
        nontrivial = False
        for o, x in zip(ops[1:], outs[1:]):
            w = o.split()
            kind = w[0] + (":%02x" % parse_hex(w[1])[0] if w[0] == "ctrl" and w[1] != "-" else "")
            res.count(kind)
            p = split_line(x)
            if p:
                res.count("result:" + p[0])
                for e in ([] if p[1] == "-" else p[1].split(",")):
                    f = e.split()
                    res.count("effect:" + f[0])
                    res.distinct.add((cfg, f[0], f[1] if len(f) > 1 else "", f[2] if len(f) > 2 else ""))
                    nontrivial = nontrivial or f[0] == "startFlash"
                nontrivial = nontrivial or p[0] in ("err 07", "err 83")
        res.count("sessions_nontrivial", nontrivial)
        lstats = layout_monitor(cfg, ops, outs)[1]
        res.count("layout:pages_checked", lstats["pages"])
        res.count("layout:sessions_judged_to_the_end", lstats["judged"])
        for k, key, what in monitor(cfg, ops, outs, r["crash"]):
            failing.setdefault(key, []).append((ops[:k + 1], what))
    for key, lst in sorted(failing.items()):
        ops, what = min(lst, key=lambda t: len(t[0]))

        def still(cand, key=key):
            rr = ctx.run_impl([cand])[0]
            return any(h[1] == key for h in monitor(int(cand[0].split()[1]), cand, rr["out"], rr["crash"]))
        ops = ctx.shrink(ops, still, budget=80)
        rr = ctx.run_impl([ops])[0]
        hs = [h for h in monitor(int(ops[0].split()[1]), ops, rr["out"], rr["crash"]) if h[1] == key]
        res.failures.append({"key": key, "what": hs[0][2] if hs else what, "ops": ops, "observed": rr["out"]})
        res.count("failing_sessions:" + key, len(lst))
    res.samples = [" ; ".join(s[:10]) for s in sessions[len(corpus):len(corpus) + 3]]
    return res


PROPS = {
    "C39": dict(
        imports=["BluetoeModel.Bootloader.PropsLayout"],
        theorems=["BluetoeModel.Bootloader.effects_inside_regions",
                  "BluetoeModel.Bootloader.flash_effects_inside_regions",
                  "BluetoeModel.Bootloader.control_point_reads_le_size",
                  "BluetoeModel.Bootloader.flash_layout",
                  "BluetoeModel.Bootloader.spec_stream",
                  "BluetoeModel.Bootloader.data_taken",
                  "BluetoeModel.Bootloader.reported_checksum_start_flash",
                  "BluetoeModel.Bootloader.reported_checksum_flush"],
        witnesses=["BluetoeModel.Bootloader.flash_layout_unrestricted_witness"],
        run=run_c39,
        level="proof-partial",
        technique="Lean 4 invariant / simulation proofs over all histories, page sizes and region lists of a model of bootloader::details::controller/flash_buffer (white-list invariant; refinement of the two page buffers to a byte-wise flash specification) + differential correspondence with the real service (effect trace, page digests, checksums) + white-list monitor, layout monitor and ASan",
        level_text="Proved for every page size, region list and history (code with fixes boot-01, boot-02, boot-03): every start_flash / read_mem / public_checksum32 / public_read_mem call touches only memory entirely inside one white-listed region (effects_inside_regions, full strength) and read_address never leaves the written control point value (control_point_reads_le_size). Third clause: for every legal history the start_flash calls of every operation are exactly those of the flash specification - the received bytes at start address + offset, page by page, in order, the rest of each page as read back (flash_layout); in the specification nothing is dropped or duplicated and the checksum is crc(start address) chained over exactly the bytes taken (spec_stream); a data write answered with success is taken completely, one answered 0x83 up to a page end (data_taken); the checksums in the Start Flash and Flush responses are that chain (reported_checksum_start_flash/_flush). Legal = the handler calls end_flash only for an outstanding start_flash, and an accepted Start Flash arrives only when no page flash is outstanding and no progress notification is queued. Without the second precondition the clause is false (flash_layout_unrestricted_witness, known finding C39:flashed-page-mismatch:restart-while-page-flash-outstanding).",
        level_note="Trusted: Lean kernel + propext/Quot.sound/Classical.choice; model = code as far as the differential check samples it (3 configurations, one connection, MTU 23, 64 bit uintptr_t, mock handler whose public_read_mem never fails and whose memory does not change while flashing); the checksum enters the proofs only through the chaining law checksum32(p2, n2, checksum32(p1, n1, c)) = checksum32(p1 ++ p2, c) (crcAdd_append); not covered by a theorem: the payload of the progress notification, the checksum of the Read response.",
        design_ref="§5 C39",
        assumptions=["memory_region bounds are uintptr_t values, page size > 0 (Cfg.WF, guaranteed by the C++ types)",
                     "user handler performs exactly the accesses it is asked for (mock records them)",
                     "layout clause: the handler calls end_flash once per start_flash call, after it (documented contract)",
                     "layout clause: the client does not restart flashing (Start Flash) while a page flash is outstanding or a progress notification is queued"],
    ),
}
