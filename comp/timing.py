"""C22 — connection event timing and supervision (link_layer.hpp: check_timing_paremeters,
parse_timing_parameters_*, setup_next_connection_event, timeout(), end_event(), adv_received();
delta_time.cpp: ppm)"""
from fractions import Fraction
from vlib.core import Result

NAME = "timing"
LEAN_MODULE = "BluetoeModel.Timing"
DRIVER = "drv_timing"
HARNESS_DESC = "harness/timing.cpp (real link_layer<> on tests/test_tools/test_radio, one radio event per op)"
HARNESS = dict(
    src="harness/timing.cpp",
    repo_srcs=["tests/test_tools/test_radio.cpp", "tests/test_tools/hexdump.cpp", "tests/test_tools/buffer_io.cpp",
               "tests/test_tools/address_io.cpp", "bluetoe/link_layer/channel_map.cpp",
               "bluetoe/link_layer/connection_details.cpp", "bluetoe/link_layer/delta_time.cpp",
               "bluetoe/utility/address.cpp"],
    # -O0: the two link_layer<> instantiations dominate the build time
    flags=["-O0", "-g", "-fsanitize=address,undefined", "-fno-sanitize-recover=all", "-fno-omit-frame-pointer", "-w"],
    ldflags=["-lboost_unit_test_framework"],
)

W = 65536
SCA_PPM = [500, 250, 150, 100, 75, 50, 30, 20]      # Core spec Vol 6 Part B 2.3.3.1, worst case of each SCA range


# ------------------------------------------------------------------------------------------------
# the property's own reading of the parameters (from the Core specification text, not from the code)
# Vol 6 Part B 4.5.2 / 2.3.3.1 / 2.4.2.1: connInterval 7.5 ms .. 4 s in 1.25 ms units; latency 0..499
# and (1 + latency) * connInterval * 2 < connSupervisionTimeout; timeout 100 ms .. 32 s in 10 ms units;
# transmitWindowSize 1.25 ms .. min(10 ms, connInterval - 1.25 ms); transmitWindowOffset 0 .. connInterval
# ------------------------------------------------------------------------------------------------
def spec_invalid(ws, wo, iv, lat, to):
    """None if valid, else the name of the first violated rule"""
    if iv < 6:
        return "interval-lt-7.5ms"
    if iv > 3200:
        return "interval-gt-4s"
    if lat > 499:
        return "latency-gt-499"
    if to < 10:
        return "timeout-lt-100ms"
    if to > 3200:
        return "timeout-gt-32s"
    if not Fraction(to * 10) > (1 + lat) * Fraction(iv * 5, 4) * 2:
        return "timeout-eq-latency-bound" if Fraction(to * 10) == (1 + lat) * Fraction(iv * 5, 4) * 2 else "timeout-lt-latency-bound"
    if ws < 1:
        return "window-size-0"
    if Fraction(ws * 5, 4) > 10:
        return "window-size-gt-10ms"
    if ws > iv:
        return "window-size-gt-interval"
    if ws > iv - 1:
        return "window-size-gt-interval-minus-1.25ms"
    if wo > iv:
        return "window-offset-gt-interval"
    return None


def fields(line):
    d = {}
    for tok in line.split():
        if "=" in tok:
            k, v = tok.split("=", 1)
            d[k] = v
    return d


def drift(t, sca):
    return Fraction(t * sca, 1000000)


def check_window(ts, off, size, sca, a, b):
    """the receive window [a, b] has to cover [ts+off, ts+off+size] widened by the clock drift over the
    elapsed time at either edge; returns None | (key, text)"""
    lo, hi = ts + off, ts + off + size
    if not (a <= lo and hi <= b):
        return ("C22:window-misses-anchor", "window [%d,%d] does not cover [%d,%d]" % (a, b, lo, hi))
    short = max(drift(lo, sca) - (lo - a), drift(hi, sca) - (b - hi))
    if short <= 0:
        return None
    floor_ok = (lo - a) >= (lo * sca) // 1000000 - 1 and (b - hi) >= (hi * sca) // 1000000 - 1
    if floor_ok:
        return ("C22:widening-short-by-about-1us",
                "window [%d,%d] for [%d,%d] at %d ppm is widened by %d/%d us, the drift is %s/%s us (short by %s us)"
                % (a, b, lo, hi, sca, lo - a, b - hi, float(drift(lo, sca)), float(drift(hi, sca)), float(short)))
    return ("C22:widening-too-small", "window [%d,%d] for [%d,%d] at %d ppm: short by %s us" % (a, b, lo, hi, sca, float(short)))


def monitor(ops, outs):
    """independent oracle for C22 on one session; returns list of (op index, key, text) — at most one per key"""
    hits = {}

    def hit(k, key, text):
        if key not in hits:
            hits[key] = (k, key, text)

    own = 500
    con = None       # monitor's own picture of the connection
    last = {}        # the implementation's last state line (only `proc`, the LL procedure timer, is read from it)
    f = {}
    for k, (op, out) in enumerate(zip(ops, outs)):
        w = op.split()
        if f.get("st"):
            last = f
        f = fields(out)
        if out in ("bad-op",):
            f = {}
            continue
        if w[0] == "reset":
            own = 20 if int(w[1]) & 2 else 500
            con = None
            if not out.startswith("adv ") or f.get("sched") != "1":
                hit(k, "C22:not-advertising-after-start", out)
            continue
        n = [int(x) for x in w[1:]]
        if w[0] == "connect":
            if out == "stalled":
                hit(k, "C22:advertising-stalls-after-refused-connect", "no advertising PDU is scheduled any more: the CONNECT_IND can not even be received")
                continue
            why = spec_invalid(*n[:5])
            if out.startswith("st="):
                if why:
                    hit(k, "C22:connect-accepted:" + why, "%s -> %s" % (op, out))
                iv, to = n[2] * 1250, n[4] * 10000
                con = dict(iv=iv, lat=n[3], to=to, sca=SCA_PPM[n[5]] + own, ts=0, E=0, established=False,
                           tw=(n[0] * 1250, (n[1] + 1) * 1250), pend=None)
                if (int(f["iv"]), int(f["lat"]), int(f["to"]), int(f["sca"])) != (iv, n[3], to, con["sca"]):
                    hit(k, "C22:parameters-not-taken-from-connect-request", "%s -> %s" % (op, out))
            else:
                con = None
                if not why:
                    hit(k, "C22:refused-valid-connect", "%s -> %s" % (op, out))
                if f.get("sched") != "1":
                    hit(k, "C22:advertising-stalls-after-refused-connect", "%s -> %s: nothing scheduled at the radio" % (op, out))
            if con is None:
                continue
        elif con is None:
            continue
        else:
            proc_prev = int(last.get("proc", 0))
            elapsed = con["ts"]          # last anchor -> the event this op is about
            if w[0] == "proc":
                pass
            elif w[0] == "to":
                proc_fired = proc_prev != 0 and proc_prev <= elapsed
                sixth = (not con["established"]) and elapsed >= 5 * con["iv"]
                supervision = elapsed >= con["to"] or sixth
                inst_next = con["pend"] and con["pend"][1] == (con["E"] + 1) % W
                bad_update = inst_next and spec_invalid(*con["pend"][0]) and not supervision and not proc_fired
                if out.startswith("adv "):
                    if not (proc_fired or supervision or bad_update):
                        hit(k, "C22:dropped-before-supervision-timeout",
                            "event lost %d us after the last anchor, supervision timeout %d us, interval %d us -> %s" % (elapsed, con["to"], con["iv"], out))
                    con = None
                    continue
                if supervision and not proc_fired:
                    hit(k, "C22:no-supervision-timeout", "event lost %d us after the last anchor, supervision timeout %d us, still connected: %s" % (elapsed, con["to"], out))
                # the next event is one interval later
                E = int(f["E"])
                if E != (con["E"] + 1) % W:
                    hit(k, "C22:not-anchor-plus-k-intervals", "a lost event must be followed by the next event: %s" % out)
                con["ts"] = elapsed + con["iv"]
                con["E"] = E
            elif w[0] in ("ev", "upd"):
                proc_fired = proc_prev != 0 and proc_prev <= elapsed
                refused_instant = False
                if w[0] == "upd":
                    d = n[5] % W
                    refused_instant = d == 0 or d >= 32767 or d == 1
                E = None if out.startswith("adv ") else int(f["E"])
                if out.startswith("adv "):
                    inst_hit = False
                    if con["pend"] and not refused_instant:
                        # the planned event may be the instant of an update with invalid parameters
                        inst_hit = spec_invalid(*con["pend"][0]) is not None
                    if w[0] == "upd" and not refused_instant and spec_invalid(*n[:5]) is not None:
                        inst_hit = True
                    if not (proc_fired or refused_instant or inst_hit):
                        hit(k, "C22:dropped-while-receiving", "%s after %d us (supervision timeout %d us) -> %s" % (op, elapsed, con["to"], out))
                    con = None
                    continue
                con["established"] = True
                con["tw"] = None
                if w[0] == "upd" and not refused_instant:
                    con["pend"] = (tuple(n[:5]), (con["E"] + n[5]) % W)
                adv = (E - con["E"]) % W
                if adv < 1:
                    hit(k, "C22:not-anchor-plus-k-intervals", "no progress: %s" % out)
                con["ts"] = adv * con["iv"]
                con["E"] = E
            # a pending update is applied to the event whose counter equals the instant
            if con["pend"] and w[0] in ("ev", "upd", "to"):
                inst = con["pend"][1]
                if con["E"] == inst:
                    p = con["pend"][0]
                    why = spec_invalid(*p)
                    if f.get("st") == "changed":
                        if why:
                            hit(k, "C22:update-applied:" + why, "%s ... -> %s" % ("upd %d %d %d %d %d" % p, out))
                        con.update(iv=p[2] * 1250, lat=p[3], to=p[4] * 10000, tw=(p[0] * 1250, p[1] * 1250), pend=None)
                        if (int(f["iv"]), int(f["lat"]), int(f["to"])) != (con["iv"], con["lat"], con["to"]):
                            hit(k, "C22:parameters-not-taken-from-update", out)
                    else:
                        hit(k, "C22:update-not-applied-at-instant", out)
                        con["pend"] = None
                elif (inst - con["E"]) % W >= 32767:
                    hit(k, "C22:update-instant-skipped", out)
                    con["pend"] = None
        # ---- the planned event: anchor + k intervals, window, interval given to the radio
        ts, a, b, ivarg = int(f["ts"]), *[int(x) for x in f["win"].split(",")]
        # ranges of the invariant (no_delta_time_assert_in_any_history): time since the anchor below supervision
        # timeout + one interval (32 s + 4 s), the window ordered and ending before 41 s (far from 2^32 us)
        if not (ts < 36000000 and 0 <= a <= b < 41000000 and int(f.get("proc", 0)) < 2 ** 32 and int(f["sca"]) <= 1000):
            hit(k, "C22:timing-state-outside-proved-range", out)
        if ts != con["ts"]:
            hit(k, "C22:not-anchor-plus-k-intervals",
                "planned event E=%s is %d us after the last anchor, the connection parameters say %d us (%s)" % (f["E"], ts, con["ts"], out))
        if ivarg != con["iv"]:
            hit(k, "C22:wrong-interval-at-radio", out)
        size, off = con["tw"] if con["tw"] else (0, 0)
        r = check_window(con["ts"], off, size, con["sca"], a, b)
        if r:
            hit(k, r[0], "%s: %s" % (r[1], out))
    return sorted(hits.values())


# ------------------------------------------------------------------------------------------------
# generators
# ------------------------------------------------------------------------------------------------
def valid_params(rng, short_timeout=False):
    iv = rng.choice([6, 7, 8, 9, 12, 24, 40, 80, 400, 800, 1600, 3199, 3200, rng.randrange(6, 3201), rng.randrange(6, 100)])
    max_lat = min(499, (3200 * 4 - 1) // iv - 1)
    lat = rng.choice([0, 0, 0, 1, 2, 5, max_lat, rng.randrange(0, max_lat + 1)])
    lat = min(lat, max_lat)
    lo = max(10, ((1 + lat) * iv) // 4 + 1)
    to = lo if short_timeout else rng.choice([lo, lo, lo + 1, min(3200, lo * 2), 3200, rng.randrange(lo, 3201)])
    ws = rng.choice([1, min(8, iv - 1), rng.randrange(1, min(8, iv - 1) + 1)])
    wo = rng.choice([0, iv, rng.randrange(0, iv + 1)])
    return [ws, wo, iv, lat, to]


def mutate(rng, p):
    """one field to a boundary / illegal value"""
    ws, wo, iv, lat, to = p
    which = rng.randrange(9)
    if which == 0:
        iv = rng.choice([0, 1, 3, 5, 3201, 3436, 4000, 65535])
    elif which == 1:
        ws = rng.choice([0, 9, 10, 255, iv if iv < 256 else 0, min(255, iv + 1)])
    elif which == 2:
        eq = (1 + lat) * iv
        to = eq // 4 if eq % 4 == 0 else eq // 4        # equality (or just below) of the latency bound
    elif which == 3:
        to = rng.choice([0, 9, 3201, 65535])
    elif which == 4:
        lat = rng.choice([500, 501, 65535, 32768])
    elif which == 5:
        wo = rng.choice([iv + 1, 65535, iv + 100])
    elif which == 6:
        iv, ws = rng.choice([(6, 6), (7, 7), (8, 8), (6, 7), (7, 8)])     # window size vs. interval
        wo = min(wo, iv)
        lat = 0
        to = max(to, 10)
    elif which == 7:
        iv, lat, to = rng.choice([(3436, 499, 3200), (3200, 499, 3200), (65535, 499, 3200), (3200, 65535, 3200), (27488, 499, 3200)])
    else:
        return [rng.randrange(256), rng.randrange(W), rng.randrange(W), rng.randrange(W), rng.randrange(W)]
    return [ws & 0xff, wo & 0xffff, iv, lat, to]


def connect_op(rng, p):
    return "connect %d %d %d %d %d %d %d" % (*p, rng.randrange(8), rng.randrange(5, 17))


def gen_session(rng, length):
    ops = ["reset %d" % rng.randrange(4)]
    short = rng.random() < 0.5
    while len(ops) < length:
        # --- get connected (refused requests first, sometimes)
        while rng.random() < 0.3:
            ops.append(connect_op(rng, mutate(rng, valid_params(rng))))
        p = valid_params(rng, short_timeout=short)
        ops.append(connect_op(rng, p))
        iv, lat, to = p[2], p[3], p[4]
        style = rng.random()
        if style < 0.15:
            # never established: the six window rule
            ops += ["to"] * rng.choice([4, 5, 6, 7])
            continue
        n = rng.randrange(2, 30)
        for _ in range(n):
            r = rng.random()
            if r < 0.45:
                ops.append("ev")
            elif r < 0.70:
                ops.append("to")
            elif r < 0.85:
                q = valid_params(rng, short_timeout=rng.random() < 0.5)
                if rng.random() < 0.3:
                    q = mutate(rng, q)
                d = rng.choice([2, 3, 4, 6, lat + 2, lat + 1, rng.randrange(2, 12), rng.choice([0, 1, 40000, 32767, 32766])])
                ops.append("upd %d %d %d %d %d %d" % (*q, d % W))
            elif r < 0.90:
                ops.append("proc %d" % rng.choice([0, 1, iv * 1250, iv * 1250 * (lat + 1) * 3, to * 10000, rng.randrange(1, 40000000)]))
            else:
                # run into the supervision timeout if that is in reach
                k = (to * 10000) // (iv * 1250) + 2
                if k <= 60:
                    ops += ["to"] * k
                else:
                    ops += ["to"] * 5
    return ops


def grid_sessions():
    """acceptance of CONNECT_IND and LL_CONNECTION_UPDATE_IND on the boundary grid of all five fields"""
    out = []
    for iv in (0, 1, 5, 6, 7, 8, 9, 24, 3199, 3200, 3201):
        for ws in (0, 1, 5, 6, 7, 8, 9):
            for wo in sorted(set((0, iv, iv + 1))):
                for lat in (0, 1, 499, 500):
                    eq = ((1 + lat) * iv) // 4
                    for to in sorted(set((9, 10, eq, eq + 1, 3200, 3201))):
                        p = (ws, wo, iv, lat, to & 0xffff)
                        out.append(["reset 0", "connect %d %d %d %d %d 5 10" % p, "ev"])
                        out.append(["reset 1", "connect 3 11 24 0 72 5 10", "upd %d %d %d %d %d 2" % p, "ev", "ev", "to"])
    return out


def run_c22(ctx, replay_path=None):
    res = Result()
    res.rule = ("sessions = reset (peripheral latency used/ignored x device sleep clock accuracy 500/20 ppm), CONNECT_IND with "
                "structured valid parameters (boundary intervals 6..3200, latency up to the supervision bound, minimal and maximal "
                "timeouts, every SCA) or a single-field mutation / fully random fields, then connection events that take place "
                "(empty PDU or LL_CONNECTION_UPDATE_IND with valid / mutated parameters and instants), lost events (single and runs "
                "up to the supervision timeout, never-established connections), procedure timer pokes and re-connects; every op "
                "is one radio event on the real link_layer<> (test_radio) and one step of the Lean model, all state lines compared; "
                "an independent monitor (spec validity predicate from the Core text, anchor + k intervals from the event counter, "
                "exact rational clock drift, supervision rule) evaluates C22 on the implementation's lines; non-trivial = a "
                "connection was established and at least one event was lost, or a request was refused")
    sessions = [ops for _, ops in ctx.corpus()]
    n = 3000 if ctx.thorough else 300
    for _ in range(n):
        sessions.append(gen_session(ctx.rng, ctx.rng.randrange(6, 70)))
    grid = grid_sessions()
    if ctx.thorough:
        sessions += grid
        res.extra["exhaustive_small_scope"] = ("CONNECT_IND and LL_CONNECTION_UPDATE_IND acceptance on the full boundary grid "
                                               "interval {0,1,5,6,7,8,9,24,3199,3200,3201} x window size {0,1,5..9} x offset {0,iv,iv+1} "
                                               "x latency {0,1,499,500} x timeout {9,10,bound,bound+1,3200,3201}: %d sessions" % len(grid))
    else:
        sessions += ctx.rng.sample(grid, 250)
    impl, model, dis = ctx.run_pair(sessions)
    for d in dis:
        ops = sessions[d["session"]]
        if len(res.disagreements) < 2 and len(ops) < 200:
            ops = ctx.shrink_disagreement(ops)
        res.disagreements.append(dict(d, ops=ops[:120]))
    seen = set()
    for ops, r in zip(sessions, impl):
        outs = r["out"]
        res.evaluations += len(outs)
        res.sessions += 1
        for o, x in zip(ops, outs):
            w = o.split()[0]
            res.count("op_" + w)
            if w == "connect":
                res.count("connect_accepted" if x.startswith("st=") else "connect_refused")
            if x.startswith("adv ") and w in ("to", "ev", "upd"):
                res.count("drop_reason_%s_on_%s" % (fields(x).get("reason"), w))
            if " st=changed" in " " + x:
                res.count("update_applied")
        if r["crash"]:
            key = "C22:crash:" + r["crash"].split(" @")[0]
            res.failures.append({"key": key, "what": r["crash"], "ops": ops[:len(outs) + 1]})
        for k, key, what in monitor(ops, outs):
            f_ops = ops[:k + 1]
            if key not in seen and len(f_ops) < 120:
                def still(cand, key=key):
                    rr = ctx.run_impl([cand])[0]
                    if rr["crash"]:
                        return False
                    return any(m[1] == key for m in monitor(cand, rr["out"]))
                f_ops = ctx.shrink(f_ops, still, budget=40)
            if key not in seen or len(res.failures) < 40:
                res.failures.append({"key": key, "what": what, "ops": f_ops})
            seen.add(key)
        lost = any(o == "to" and x.startswith("st=") for o, x in zip(ops, outs))
        refused = any(o.startswith("connect") and x.startswith("adv") for o, x in zip(ops, outs))
        dropped = any(o == "to" and x.startswith("adv reason=8") for o, x in zip(ops, outs))
        res.count("sessions_with_lost_event", lost)
        res.count("sessions_with_refused_connect", refused)
        res.count("sessions_with_supervision_timeout", dropped)
        if lost or refused:
            res.distinct.add(hash(tuple(ops)))
    res.samples = [" ; ".join(s[:6])[:300] for s in sessions[:3]]
    return res


PROPS = {
    "C22": dict(
        theorems=["BluetoeModel.Timing.ppm_bounds",
                  "BluetoeModel.Timing.sca_is_sum_of_both_sides",
                  "BluetoeModel.Timing.window_contains_anchor",
                  "BluetoeModel.Timing.window_defined",
                  "BluetoeModel.Timing.window_widening_ge",
                  "BluetoeModel.Timing.event_at_anchor_plus_l_intervals",
                  "BluetoeModel.Timing.event_at_anchor_plus_k_intervals",
                  "BluetoeModel.Timing.supervision_only_after_timeout",
                  "BluetoeModel.Timing.supervision_timeout_enforced",
                  "BluetoeModel.Timing.connect_only_if_valid_partial",
                  "BluetoeModel.Timing.valid_connect_accepted",
                  "BluetoeModel.Timing.refused_connect_keeps_advertising",
                  "BluetoeModel.Timing.update_only_if_valid_partial",
                  "BluetoeModel.Timing.no_delta_time_assert_in_any_history",
                  "BluetoeModel.Timing.planned_times_fit_32_bit"],
        witnesses=["BluetoeModel.Timing.window_widening_witness",
                   "BluetoeModel.Timing.connect_only_if_valid_witness"],
        run=run_c22,
        level="proof",
        technique="Lean 4 proofs over all parameters, sleep clock accuracies and histories of lost events (32-bit delta_time arithmetic with explicit assertion results, induction over the number of lost events) + differential correspondence with the real link_layer<> on test_radio and an independent monitor",
        level_text="Theorems for every CONNECT_IND / LL_CONNECTION_UPDATE_IND field value, every SCA and device accuracy, every number of lost events: ppm() is floor(u*p/10^6) or one less without 64-bit overflow; the window given to the radio covers the anchor (or the transmit window) and is widened by at least floor(T*sca/10^6)-1 us at either edge; after an event the next one is planned l intervals later (1 <= l <= latency+1) and after k lost events k intervals more, with the window for exactly that distance; timeout() ends the link only by the procedure timer, at timeSince >= supervision timeout, at the sixth lost event of a never established connection, or through a refused update at its instant (and always ends it at timeSince >= supervision timeout); a CONNECT_IND / update is accepted iff the Core-spec validity predicate holds or WinSize = Interval in 6..8 (known finding); a refused CONNECT_IND leaves the next advertising PDU scheduled; inductive invariant over every history of callbacks (base: parameters accepted by check_timing_paremeters, step: every callback): no delta_time assertion, time_since_last_event_ < 36 s, every window ordered, < 41 s and computed with exact ppm() (no 64-bit overflow), all members within their C++ widths. The model is the patched code (fixes timing-01, timing-02).",
        level_note="Trusted: Lean kernel + propext/Quot.sound/Classical.choice; model = code as far as the differential check samples it (every state line after every radio event, exhaustive boundary grid of the five parameters in the thorough tier). Full-strength 'widened by at least the drift' is false by < 1.0003 us (window_widening_witness, known finding, pinned by repository tests); 'only valid parameters' is false for WinSize = Interval (connect_only_if_valid_witness, known finding, pinned by repository tests). no_delta_time_assert_in_any_history assumes the device's own accuracy <= 500 ppm and PDU field widths, nothing else (no bound on lost events: timeout() bounds time_since_last_event_ itself); it covers the delta_time operations of the modelled callbacks (adv_received, end_event, timeout, handle_pending_ll_control, setup_next_connection_event), not the user timer, try_event_cancelation (C21/C23) or the peripheral's own LL procedures; the harness runs with assertions enabled and ASan/UBSan. CRC errors / what counts as a 'valid packet' is the radio's business: end_event() is taken as 'a valid packet was received'.",
        design_ref="§5 C22",
        assumptions=["test_radio as the scheduled radio; its own time line is not compared (the harness reads the arguments of schedule_connection_event)",
                     "channel map and hop of the CONNECT_IND valid (C20), central passes the filter policy (C25/C26)",
                     "peripheral latency configurations: latency fully used / ignored (listen always); the other options are C23",
                     "no LL procedure of the peripheral running except through the `proc` poke of procedure_timeout_"],
    ),
}
