"""C30 — interrupt-safe SPSC ring (bluetoe/utility/include/bluetoe/ring.hpp)

The harness runs the real ring<S,T> with instrumented atomics / slots under explicit schedules
(ucontext coroutines), the Lean driver runs the small-step model on the same schedules.

  run  S v1,v2,.. pops schedule   one schedule; one token per scheduling quantum, then the drain
  enum S v1,v2,.. pops prefix     EVERY complete schedule that extends the prefix, as a histogram
                                  of call/return histories (with the first schedule of each)

The monitor below evaluates the property statement on the call/return history the implementation
produced; it knows nothing about the model.
"""
import itertools
import json
import re
from concurrent.futures import ThreadPoolExecutor

from vlib.core import Result, compare_sessions

NAME = "ring"
LEAN_MODULE = "BluetoeModel.Ring"
DRIVER = "drv_ring"
HARNESS_DESC = "harness/ring.cpp (real bluetoe::details::ring<S,T>, atomics and slots instrumented from outside)"
HARNESS = dict(src="harness/ring.cpp")

CAPS = [1, 2, 3, 4, 7]
EVENT = re.compile(r"Pi|P0|P1|Ci|C-?\d+|C-")


# ----------------------------------------------------------------------------------------------
# the independent monitor
# ----------------------------------------------------------------------------------------------
def check_history(cap, vals, tokens, drain):
    """tokens: the run's tokens in schedule order (`.`, `x`, `/` are ignored); drain: list of
    ints delivered by the sequential drain.  Returns the list of (key, what) problems, one per key.

    Property C30 on a history of calls and returns ("pending" = pushes that returned true minus
    pops that returned true): (1) the values of the successful pops are, at every moment, a prefix
    of the arguments of the successful pushes, and what the final drain delivers is exactly the
    rest; (2) a pop may fail only if at some moment between its call and its return nothing was
    pending — pushes only add, so: nothing was pending at its call; (3) a push may fail only if at
    some moment between its call and its return at least S elements were pending — pops only
    remove, so: at least S were pending at its call; (4) the two sides never wait in front of
    conflicting plain accesses of one slot (a C++ data race).  The statement does not forbid a
    ring that briefly accounts for more than S elements, so that is not checked."""
    pushed, popped = [], []
    nxt = 0
    p_inv = c_inv = None
    found = {}

    def report(key, what):
        found.setdefault(key, what)

    for tok in tokens:
        if tok in (".", "x", "/"):
            continue
        if "!" in tok:
            report("C30:data-race", "producer and consumer wait in front of conflicting plain accesses of the same slot (token %s)" % tok)
            tok = tok.replace("!", "")
            if tok == ".":
                continue
        evs = EVENT.findall(tok)
        if "".join(evs) != tok.rstrip("#"):
            report("C30:protocol", "unparsable token %r" % tok)
            break
        for ev in evs:
            pend = len(pushed) - len(popped)
            if ev == "Pi":
                p_inv = pend
            elif ev in ("P0", "P1"):
                if p_inv is None or nxt >= len(vals):
                    report("C30:protocol", "push returned without a call")
                    return sorted(found.items())
                if ev == "P1":
                    pushed.append(vals[nxt])
                elif p_inv < cap:
                    report("C30:push-failed-not-full", "try_push(%d) returned false although only %d of %d elements were pending when it was called"
                           % (vals[nxt], p_inv, cap))
                nxt += 1
                p_inv = None
            elif ev == "Ci":
                c_inv = pend
            else:
                if c_inv is None:
                    report("C30:protocol", "pop returned without a call")
                    return sorted(found.items())
                if ev == "C-":
                    if c_inv != 0:
                        report("C30:pop-failed-nonempty", "try_pop returned false although %d pushed elements were pending when it was called" % c_inv)
                else:
                    v = int(ev[1:])
                    if len(popped) >= len(pushed):
                        report("C30:fifo-order", "try_pop delivered %d but no pushed element was pending" % v)
                        return sorted(found.items())     # the bookkeeping below is meaningless from here on
                    if v != pushed[len(popped)]:
                        report("C30:fifo-order", "try_pop delivered %d, the oldest pending element is %d (pushed %s, popped %s)"
                               % (v, pushed[len(popped)], pushed, popped))
                        return sorted(found.items())
                    popped.append(v)
                c_inv = None
    rest = pushed[len(popped):]
    if drain != rest and "C30:protocol" not in found:
        report("C30:drain-mismatch", "pending elements %s, sequential drain delivered %s" % (rest, drain))
    return sorted(found.items())


def parse_drain(tok):
    if not tok.startswith("d:"):
        return None
    if tok == "d:-":
        return []
    try:
        return [int(x) for x in tok[2:].split(",")]
    except ValueError:
        return None


def parse_line(op, out):
    """-> list of (tokens, drain, run_op_line, weight) histories contained in one output line, or
    None when the line is not a result (bad-op / bad-prefix)"""
    w = op.split()
    if out in ("bad-op", "bad-prefix") or len(w) != 5:
        return None
    if w[0] == "run":
        toks = out.split()
        return [(toks[:-1], parse_drain(toks[-1]) if toks else None, op, 1)]
    res = []
    parts = out.split(" | ")
    for e in parts[1:]:
        body, _, first = e.rpartition("@")
        hist, _, count = body.rpartition("*")
        toks = hist.split()
        res.append((toks[:-1], parse_drain(toks[-1]) if toks else None,
                    "run %s %s %s %s" % (w[1], w[2], w[3], first), int(count) if count.isdigit() else 1))
    return res


def nontrivial(tokens):
    """a history with a failing call or with overlapping calls"""
    evs = [t for t in tokens if t not in (".", "x", "/")]
    if any(t.startswith(("P0", "C-")) and not re.match(r"C-\d", t) for t in evs):
        return True
    open_p = open_c = False
    for t in evs:
        if t.startswith("Pi"):
            open_p = True
            if open_c:
                return True
        elif t.startswith("Ci"):
            open_c = True
            if open_p:
                return True
        elif t.startswith("P"):
            open_p = False
        elif t.startswith("C"):
            open_c = False
    return False


# ----------------------------------------------------------------------------------------------
# generators
# ----------------------------------------------------------------------------------------------
def values(rng, n):
    base = rng.choice([1, 10, 100, 5000])
    return [base + i for i in range(n)]     # distinct, never 0 (a never-written slot) or -1


def gen_schedule(rng, np_, nc, style):
    total = 4 * (np_ + nc)
    if style == "uniform":
        s = [rng.choice("pc") for _ in range(total + rng.randrange(0, 6))]
    elif style == "bursty":
        s = []
        while len(s) < total:
            s += [rng.choice("pc")] * rng.choice([1, 1, 2, 3, 4, 5, 8])
    elif style == "fine":       # strict alternation with rare hiccups: maximal overlap
        s = []
        cur = rng.choice("pc")
        for _ in range(total):
            s.append(cur)
            if rng.random() < 0.85:
                cur = "c" if cur == "p" else "p"
    elif style == "producer-ahead":
        s = [("p" if rng.random() < 0.7 else "c") for _ in range(total)]
    else:                        # consumer-ahead
        s = [("c" if rng.random() < 0.7 else "p") for _ in range(total)]
    if rng.random() < 0.3:
        s = s[:rng.randrange(0, len(s) + 1)]
    return "".join(s) or "-"


STYLES = ["uniform", "bursty", "fine", "producer-ahead", "consumer-ahead"]


def gen_run(rng, res, big):
    cap = rng.choice(CAPS)
    np_ = rng.randrange(0, 13 if big else 7)
    nc = rng.randrange(0, 13 if big else 7)
    style = rng.choice(STYLES)
    res.count("run:" + style)
    res.count("run:S=%d" % cap)
    vals = values(rng, np_)
    return "run %d %s %d %s" % (cap, ",".join(map(str, vals)) or "-", nc, gen_schedule(rng, np_, nc, style))


MALFORMED = ["run", "run 2 5,6 2", "run 5 5,6 2 pc", "run 0 5 1 pc", "run 2 5,,6 1 pc", "run 2 5, 1 pc", "run 2 5 1 pxc",
             "run 2 a 1 pc", "run 2 5 z pc", "enum 2 5 1 pq", "enum 9 5 1 -", "pop", "run 2 5 65 -", "run 2 2000000 1 -",
             "enum 1 - 1 p", "enum 2 5 1 ccc", "run 2 5 1 pc extra"]


def enum_lines(caps, max_push, max_pop, split_from):
    """enum ops for every (S, pushes <= max_push, pops <= max_pop); scopes with at least
    `split_from` calls are split by schedule prefixes of length 3 (so they can run in parallel)"""
    lines = []
    for cap in caps:
        for np_ in range(max_push + 1):
            for nc in range(max_pop + 1):
                vals = ",".join(str(11 * (i + 1)) for i in range(np_)) or "-"
                if np_ >= 1 and nc >= 1 and np_ + nc >= split_from:
                    for pre in itertools.product("pc", repeat=3):
                        lines.append("enum %d %s %d %s" % (cap, vals, nc, "".join(pre)))
                else:
                    lines.append("enum %d %s %d -" % (cap, vals, nc))
    return lines


# ----------------------------------------------------------------------------------------------
# the check
# ----------------------------------------------------------------------------------------------
def run_impl_parallel(ctx, sessions, workers):
    if workers <= 1 or len(sessions) < 2 * workers:
        return ctx.run_impl(sessions)
    # longest first, round-robin: the big enumerations spread over the workers
    order = sorted(range(len(sessions)), key=lambda i: -cost(sessions[i][0]))
    chunks = [order[k::workers] for k in range(workers)]
    results = [None] * len(sessions)
    with ThreadPoolExecutor(max_workers=workers) as ex:
        futs = [(ch, ex.submit(ctx.run_impl, [sessions[i] for i in ch])) for ch in chunks if ch]
        for ch, f in futs:
            for i, r in zip(ch, f.result()):
                results[i] = r
    return results


def cost(op):
    w = op.split()
    if len(w) != 5 or w[0] != "enum":
        return 1
    np_ = 0 if w[2] == "-" else w[2].count(",") + 1
    try:
        return 10 ** (np_ + int(w[3]))
    except ValueError:
        return 1


def run_c30(ctx, replay_path=None):
    res = Result()
    res.rule = ("every session is ONE op that builds a fresh ring<S,cell>, a producer coroutine calling try_push for a list of "
                "distinct values and a consumer coroutine calling try_pop n times; `run` executes one explicit schedule of the "
                "shared accesses (loads/stores of the two indices, slot copy) and then runs both sides to completion and drains; "
                "`enum` executes EVERY complete schedule of the scope on the real code and on the model and both print the "
                "histogram of call/return histories, which must be identical; each history the real code produced is judged by "
                "an independent monitor (FIFO prefix, pop fails only if nothing pending at its call, push fails only if at least S "
                "pending at its call, drain delivers exactly the rest, no conflicting slot access). "
                "non-trivial = history with a failing call or overlapping calls; distinct = distinct (S, history)")
    if replay_path:
        j = json.load(open(replay_path))
        ops = j.get("ops") or (j.get("first_disagreement") or {}).get("ops") or []
        sessions = [[o] for o in ops]
    else:
        sessions = [[o] for _, ops in ctx.corpus() for o in ops]
        sessions += [[m] for m in MALFORMED]
        res.count("malformed", len(MALFORMED))
        n_random = 20000 if ctx.thorough else 1500
        for i in range(n_random):
            sessions.append([gen_run(ctx.rng, res, big=(i % 4 == 0))])
        if ctx.thorough:
            en = enum_lines([1, 2, 4], 3, 3, split_from=5)
            res.extra["exhaustive_small_scope"] = "every schedule for S in {1,2,4}, 0..3 pushes, 0..3 pops (quanta = shared accesses)"
        else:
            en = enum_lines([1, 2, 4], 2, 2, split_from=99) + ["enum 1 11,22,33 2 -", "enum 1 11,22 3 -", "enum 3 11,22 2 -"]
            res.extra["exhaustive_small_scope"] = "every schedule for S in {1,2,4}, 0..2 pushes, 0..2 pops; S=1 3 pushes 2 pops and 2 pushes 3 pops; S=3 2/2"
        sessions += [[e] for e in en]
        res.count("enum-ops", len(en))
        res.exhaustive = False   # exhaustive in schedules for the small scopes only; the theorems cover the rest

    # stage 1: corpus, malformed lines, the first random schedules. A tree on which these crash
    # (sanitizer aborts restart the harness process every time) is not explored any further.
    workers = 8 if ctx.thorough else 4
    first = min(len(sessions), 260)
    impl = run_impl_parallel(ctx, sessions[:first], workers)
    crashes = sum(1 for r in impl if r["crash"])
    if crashes > 10:
        ctx.notes.append("%d of the first %d sessions crashed; the remaining %d sessions were not run" % (crashes, first, len(sessions) - first))
        sessions = sessions[:first]
    else:
        impl += run_impl_parallel(ctx, sessions[first:], workers)
    model = ctx.run_model(sessions)
    dis = compare_sessions(sessions, impl, model)

    for d in dis[:5]:
        ops = sessions[d["session"]]
        entry = dict(d, ops=ops)
        # narrow a disagreeing enumeration down to single schedules
        if ops[0].startswith("enum") and d["impl"] and d["model"]:
            a = {tuple(h[0]) + (str(h[1]),): h for h in (parse_line(ops[0], d["impl"]) or [])}
            b = {tuple(h[0]) + (str(h[1]),): h for h in (parse_line(ops[0], d["model"]) or [])}
            cand = [h[2] for k, h in sorted(a.items()) if k not in b or b[k][3] != h[3]]
            cand += [h[2] for k, h in sorted(b.items()) if k not in a]
            cand = [[c] for c in cand[:40]]
            if cand:
                i2, m2, d2 = ctx.run_pair(cand)
                if d2:
                    entry = dict(d2[0], ops=cand[d2[0]["session"]], found_in=ops[0])
            entry["impl"] = str(entry["impl"])[:600]
            entry["model"] = str(entry["model"])[:600]
        res.disagreements.append(entry)
    for d in dis[5:]:
        res.disagreements.append(dict(d, ops=sessions[d["session"]], impl=str(d["impl"])[:300], model=str(d["model"])[:300]))

    schedules = 0
    for ops, r in zip(sessions, impl):
        op = ops[0]
        res.sessions += 1
        out = r["out"][0] if r["out"] else None
        if r["crash"]:
            res.failures.append({"key": "C30:crash:" + r["crash"].split(" @")[0], "what": "%s while executing `%s`" % (r["crash"], op), "ops": [op]})
            continue
        if out is None:
            continue
        hs = parse_line(op, out)
        if hs is None:
            continue
        w = op.split()
        cap = int(w[1])
        vals = [] if w[2] == "-" else [int(x) for x in w[2].split(",")]
        if op.startswith("enum"):
            m = re.match(r"n=(\d+)", out)
            schedules += int(m.group(1)) if m else 0
        for toks, drain, run_op, weight in hs:
            res.evaluations += weight * max(1, len(run_op.split()[4]))
            if drain is None:
                bad = [("C30:protocol", "no drain token in %r" % out[:200])]
            else:
                bad = check_history(cap, vals, toks, drain)
            for key, what in bad:
                res.failures.append({"key": key, "what": what, "ops": [run_op], "observed": " ".join(toks)})
            hist = tuple(t for t in toks if t not in (".", "x", "/"))
            if nontrivial(toks):
                res.distinct.add((cap, hist))
            for t in hist:
                k = "ev:" + ("C<v>" if re.match(r"C-?\d", t) else t.rstrip("!"))
                res.count(k, weight)
    res.extra["schedules_enumerated"] = schedules
    res.samples = [s[0] for s in sessions[:3]] + [s[0] for s in sessions[-2:]]
    return res


PROPS = {
    "C30": dict(
        theorems=["BluetoeModel.Ring.spsc_linearizable", "BluetoeModel.Ring.popped_prefix_pushed",
                  "BluetoeModel.Ring.history_is_observable", "BluetoeModel.Ring.pending_elements_stored",
                  "BluetoeModel.Ring.pop_fails_only_if_empty", "BluetoeModel.Ring.pop_fails_only_if_empty_at_load",
                  "BluetoeModel.Ring.push_fails_only_if_full", "BluetoeModel.Ring.push_fails_only_if_full_at_load",
                  "BluetoeModel.Ring.no_slot_read_while_written", "BluetoeModel.Ring.no_oob",
                  "BluetoeModel.Ring.indices_in_range", "BluetoeModel.Ring.add_mod_ne"],
        run=run_c30,
        level="proof",
        technique="Lean 4 inductive invariant over all schedules of a small-step model of try_push/try_pop (one step per shared "
                  "access) + differential correspondence with the real ring<S,T> run under explicit and exhaustively enumerated schedules",
        level_text="Theorems spsc_linearizable / pop_fails_only_if_empty / push_fails_only_if_full / no_slot_read_while_written: for every "
                   "capacity S, every list of try_push arguments, every number of try_pop calls and every interleaving of the atomic steps "
                   "(load read_ptr_, load write_ptr_, branch, slot access, store) the popped values are a prefix of the successfully pushed "
                   "values, a pop fails only with nothing pending when it loaded write_ptr_, a push fails only with S pending when it loaded "
                   "read_ptr_, pending elements stay stored in order, and the plain slot accesses never conflict. The model is tied to the real "
                   "ring<S,T> by replacing std::atomic_int and T from outside with yielding types and running identical schedules on both: "
                   "random schedules plus every schedule of the small scopes (thorough: S in {1,2,4}, up to 3 pushes and 3 pops).",
        level_note="Trusted: Lean kernel + propext/Quot.sound/Classical.choice; sequential consistency of the two std::atomic_int (the code uses the seq_cst "
                   "defaults; weaker memory orders and compiler reordering of the plain slot access across a seq_cst store are outside the "
                   "model — the latter is excluded by the C++ memory model given the proven data-race freedom); the harness can switch "
                   "contexts only in front of shared accesses, i.e. the local branch is glued to the preceding load (the theorems cover the "
                   "finer interleavings too); model = code only as far as the schedules sampled / enumerated.",
        design_ref="§5 C30, Appendix A.1",
        assumptions=["sequentially consistent std::atomic_int (memory_order_seq_cst defaults in ring.hpp)",
                     "exactly one producer context and one consumer context",
                     "T's copy assignment has no side effect on the ring"],
        trusted=["instrumented replacements for std::atomic_int / T in harness/ring.cpp (one access per scheduling quantum)"],
    ),
}
