"""C32 / C33 / C34 — security managers (bluetoe/sm/include/bluetoe/security_manager.hpp,
security_connection_data.hpp, io_capabilities.hpp, oob_authentication.hpp)

Sessions are generated *adaptively*: a scripted central talks to the real harness line by line and
uses the peripheral's answers (pairing response, public key, nonce, displayed value) to compute the
next valid PDU with the stand-in tool box, exactly like a real central would; mutations (wrong
order, wrong length, wrong value, repeated / unknown PDUs, user answers, encryption changes,
reconnects, output polls, key lookups) are interleaved.  The recorded op lists are then run on the
harness and on the Lean model (`ctx.run_pair`) and the independent monitors below evaluate the
property statements on the implementation's outputs only.
"""
import itertools
import os
import subprocess

from vlib.core import Result

NAME = "sm"
LEAN_MODULE = "BluetoeModel.Sm"
DRIVER = "drv_sm"
HARNESS_DESC = "harness/sm.cpp (real legacy_/lesc_/security_manager over a mock tool box with stand-in functions)"
HARNESS = dict(src="harness/sm.cpp", repo_srcs=["bluetoe/utility/address.cpp"])

M32 = 0xffffffff
LOCAL = [0xb6, 0xb5, 0xb4, 0xb3, 0xb2, 0xb1, 0]
REMOTE = [0xa6, 0xa5, 0xa4, 0xa3, 0xa2, 0xa1, 1]
ZERO16 = [0] * 16

IOS = {"legacy": ["none", "yesno", "kbd", "disp", "dispyn", "dispkbd"],
       "lesc": ["none", "yesno", "disp", "dispyn"],
       "both": ["none", "yesno", "disp", "dispyn"]}
LEN = {0x01: 7, 0x03: 17, 0x04: 17, 0x0c: 65, 0x0d: 17}


# ---------------------------------------------------------------------------------------------
# stand-in tool box (same functions as harness/sm.cpp and lean/Driver/Sm.lean)
# ---------------------------------------------------------------------------------------------
def mix(tag, data):
    h = tag
    for b in data:
        h = (h * 16777619 + b + 1) & M32
    out = []
    for _ in range(16):
        h = (h * 1664525 + 1013904223) & M32
        out.append((h >> 16) & 0xff)
    return out


def ctr4(c):
    return [c & 0xff, (c >> 8) & 0xff, (c >> 16) & 0xff, (c >> 24) & 0xff]


def le(n, k):
    return [(n >> (8 * i)) & 0xff for i in range(k)]


def rd(b):
    return sum(x << (8 * i) for i, x in enumerate(b))


def hx(b):
    return "".join("%02x" % x for x in b) if b else "-"


def unhx(s):
    return [] if s == "-" else [int(s[i:i + 2], 16) for i in range(0, len(s), 2)]


def t_c1(k, r, p1, p2): return mix(1, k + r + p1 + p2)
def t_s1(k, sr, mr): return mix(2, k + sr + mr)
def t_f4(u, v, x, z): return mix(3, u + v + x + [z])
def t_f5(dh, n1, n2, a1, a2): return mix(4, dh + n1 + n2 + a1 + a2), mix(5, dh + n1 + n2 + a1 + a2)
def t_f6(k, n1, n2, r, io, a1, a2): return mix(6, k + n1 + n2 + r + io + a1 + a2)
def t_g2(u, v, x, y): return rd(mix(7, u + v + x + y)[:4])
def t_p256(priv, pub): return mix(8, priv + pub) + mix(9, priv + pub)
def t_valid(pk): return ((pk[0] ^ pk[63]) & 3) != 3
def t_srand(c): return mix(10, ctr4(c))
def t_passkey(c): return le(rd(mix(11, ctr4(c))[:4]) % 1000000, 4) + [0] * 12
def t_keys(c): return sum((mix(12 + i, ctr4(c)) for i in range(4)), []), sum((mix(16 + i, ctr4(c)) for i in range(2)), [])
def t_nonce(c): return mix(18, ctr4(c))


def t_newbond(c):
    r = mix(20, ctr4(c))
    return dict(key=mix(19, ctr4(c)), rand=rd(r[:8]), ediv=rd(r[8:10]))


def parse_fields(line):
    d = {}
    for w in line.split():
        if "=" in w:
            k, v = w.split("=", 1)
            d[k] = v
    return d


# ---------------------------------------------------------------------------------------------
# selection tables as the scripted central assumes them (only used to guess the temporary key /
# whether a user confirmation will be asked for; a wrong guess merely makes a pairing fail)
# ---------------------------------------------------------------------------------------------
def guess_legacy_algo(ioname, peer_io, oobflag, has_oob):
    if oobflag and has_oob:
        return "oob"
    disp, inp = ioname.startswith("disp"), ("kbd" if ioname.endswith("kbd") else "yn" if ioname.endswith("yn") or ioname == "yesno" else "none")
    if not disp:
        return "input" if inp == "kbd" and peer_io != 3 else "jw"
    if inp == "kbd":
        return "jw" if peer_io == 3 else "display" if peer_io == 2 else "input"
    return "display" if peer_io in (2, 4) else "jw"


# ---------------------------------------------------------------------------------------------
# the scripted central (adaptive generation against the live harness)
# ---------------------------------------------------------------------------------------------
class Live:
    def __init__(self, exe):
        env = dict(os.environ)
        env.setdefault("ASAN_OPTIONS", "detect_leaks=0:abort_on_error=0:exitcode=99")
        self.p = subprocess.Popen([exe], stdin=subprocess.PIPE, stdout=subprocess.PIPE, stderr=subprocess.DEVNULL,
                                  text=True, bufsize=1, env=env)
        self.exe = exe

    def op(self, line):
        try:
            self.p.stdin.write(line + "\n")
            self.p.stdin.flush()
            r = self.p.stdout.readline()
        except (BrokenPipeError, OSError):
            r = ""
        if not r:   # the harness died (sanitizer): start a new one, the session ends here
            self.close()
            self.__init__(self.exe)
            return None
        return r.rstrip("\n")

    def close(self):
        try:
            self.p.stdin.close()
            self.p.wait(timeout=5)
        except Exception:
            self.p.kill()


class Central:
    """one session: keeps what a central knows and what the user side was told"""

    def __init__(self, live, rng, variant, ioname, bond, fill="00"):
        self.live, self.rng, self.variant, self.ioname, self.bond = live, rng, variant, ioname, bond
        self.ops, self.dead = [], False
        self.kbd, self.oob_avail, self.oob = 0, False, ZERO16
        self.req = self.rsp = None
        self.sc = False
        self.peer_io = 3
        self.tk = ZERO16
        self.mrand = self.na = self.nb = self.rpub = self.ppub = None
        self.disp = None
        self.stage = 0
        self.ctr = 0     # the central's guess of the tool box' draw counter (to know a displayed passkey in advance)
        self.do("reset %s %s %d %s" % (variant, ioname, 1 if bond else 0, fill))

    def do(self, op):
        if self.dead:
            return {}
        self.ops.append(op)
        r = self.live.op(op)
        if r is None:
            self.dead = True
            return {}
        return parse_fields(r)

    def rnd(self, n):
        return [self.rng.randrange(256) for _ in range(n)]

    # --- environment ---------------------------------------------------------------------
    def env_op(self):
        r = self.rng.random()
        if r < 0.2:
            self.do("user " + self.rng.choice(["async", "sync1", "sync0"]))
        elif r < 0.35:
            self.kbd = self.rng.choice([0, 123456, 999999, self.rng.randrange(1 << 32)])
            self.do("kbd %d" % self.kbd)
        elif r < 0.5:
            self.oob_avail, self.oob = self.rng.random() < 0.6, self.rnd(16)
            self.do("oob %d %s" % (self.oob_avail, hx(self.oob)))
        elif r < 0.7:
            self.do("enc %d" % self.rng.randrange(2))
        elif r < 0.85:
            self.do("out")
        elif r < 0.95:
            self.findkey()
        else:
            self.do("answer %d" % self.rng.randrange(2))

    def findkey(self, known=()):
        r = self.rng.random()
        if r < 0.6 or not known:
            e, rd_ = (0, 0) if r < 0.5 else (self.rng.choice([0, 1, 0xffff]), self.rng.choice([0, 1, (1 << 64) - 1]))
        else:
            e, rd_ = self.rng.choice(list(known))
        self.do("findkey %d %d" % (e, rd_))

    # --- protocol steps ------------------------------------------------------------------
    def request(self, sc=None, mutate=None, io=None):
        if sc is None:
            sc = self.variant == "lesc" or (self.variant == "both" and self.rng.random() < 0.5)
        if io is None:
            io = self.rng.choice([0, 1, 2, 3, 4])
            if sc and self.ioname == "dispyn" and self.rng.random() < 0.6:
                io = self.rng.choice([1, 4])        # numeric comparison
        oobflag = 1 if self.rng.random() < 0.2 else 0
        auth = (0x08 if sc else 0) | self.rng.choice([0, 1, 4, 5, 0x10, 0x40, 0xc5 & ~0x08])
        req = [1, io, oobflag, auth, self.rng.choice([7, 16, 16, 16, 10]), self.rng.randrange(16), self.rng.randrange(16)]
        if mutate == "param":
            i = self.rng.choice([1, 2, 4, 4, 5, 6])
            req[i] = {1: self.rng.choice([5, 6, 255]), 2: self.rng.choice([2, 3, 0x80, 255]), 4: self.rng.choice([0, 6, 17, 255]),
                      5: self.rng.choice([0x10, 0x80, 0xff]), 6: self.rng.choice([0x10, 0x80, 0xf7])}[i]
        r = self.do("pdu " + hx(req))
        rsp = unhx(r.get("rsp", "-"))
        if rsp[:1] == [2]:
            self.req, self.rsp, self.sc, self.peer_io = req, rsp, bool(auth & 8) and self.variant != "legacy", io
            self.stage = 1
            algo = guess_legacy_algo(self.ioname, io, oobflag, self.oob_avail)
            self.algo = algo
            if not self.sc:
                self.ctr += 1
        else:
            self.stage = 0

    def legacy_confirm(self, mutate=None):
        p1 = [REMOTE[6], LOCAL[6]] + (self.req or [0] * 7) + (self.rsp or [0] * 7)
        p2 = LOCAL[:6] + REMOTE[:6] + [0] * 4
        self.p1, self.p2 = p1, p2
        self.mrand = self.rnd(16)
        algo = getattr(self, "algo", "jw")
        if algo == "oob":
            self.tk = list(self.oob)
        elif algo == "input":
            self.tk = le(self.kbd, 4) + [0] * 12
        elif algo == "display":
            self.tk = t_passkey(self.ctr)   # what the user will read off the display
        else:
            self.tk = ZERO16
        mc = t_c1(self.tk or ZERO16, self.mrand, p1, p2)
        if mutate == "value":
            mc = self.rnd(16)
        r = self.do("pdu 03" + hx(mc))
        if unhx(r.get("rsp", "-"))[:1] == [3]:
            self.stage = 2
            if r.get("disp", "-") != "-" and le(int(r["disp"]), 4) + [0] * 12 == t_passkey(self.ctr):
                self.ctr += 1

    def legacy_random(self, mutate=None):
        mr = self.mrand or self.rnd(16)
        if mutate == "value":
            mr = self.rnd(16)
        r = self.do("pdu 04" + hx(mr))
        self.stage = 3 if unhx(r.get("rsp", "-"))[:1] == [4] else 0
        if self.stage == 3 and self.bond:
            self.ctr += 1

    def public_key(self, mutate=None):
        pk = self.rnd(64)
        if mutate == "value":
            pk[0] = (pk[0] & 0xfc) | ((pk[63] & 3) ^ 3)     # invalid for the stand-in is_valid_public_key
        elif not t_valid(pk):
            pk[0] ^= 1
        r = self.do("pdu 0c" + hx(pk))
        rsp = unhx(r.get("rsp", "-"))
        if rsp[:1] == [0x0c]:
            self.rpub, self.ppub, self.stage = pk, rsp[1:], 2
            self.ctr += 2

    def poll(self):
        r = self.do("out")
        rsp = unhx(r.get("rsp", "-"))
        if rsp[:1] == [3] and self.stage == 2 and self.sc:
            self.stage = 3
        elif rsp[:1] == [0x0d]:
            self.stage = 5
        elif rsp[:1] == [5]:
            self.stage = 0
        return rsp

    def lesc_random(self, mutate=None):
        self.na = self.rnd(16)
        r = self.do("pdu 04" + hx(self.na))
        rsp = unhx(r.get("rsp", "-"))
        if rsp[:1] == [4]:
            self.nb, self.stage = rsp[1:], 4

    def dhkey(self, mutate=None):
        ea = self.rnd(16)
        if self.ppub and self.na and self.nb and self.rpub and mutate != "value":
            for c in range(0, 64):
                pub, priv = t_keys(c)
                if pub == self.ppub:
                    mac, _ = t_f5(t_p256(priv, self.rpub), self.na, self.nb, REMOTE, LOCAL)
                    ea = t_f6(mac, self.na, self.nb, ZERO16, self.req[1:4], REMOTE, LOCAL)
                    break
        if mutate == "zero":
            ea = ZERO16
        r = self.do("pdu 0d" + hx(ea))
        rsp = unhx(r.get("rsp", "-"))
        if rsp[:1] == [0x0d]:
            self.stage = 5
        elif rsp[:1] == [5]:
            self.stage = 0
        elif not rsp and r.get("st", "").startswith("user_wait"):
            self.held = True       # taken while the user is asked: the answer and a poll come next

    def peer_failed(self):
        """the central gives up: Pairing Failed from the peer (any state), then a key lookup"""
        self.do("pdu 05" + hx([self.rng.choice([0x01, 0x03, 0x05, 0x08, 0x0b])]))
        self.stage, self.req = 0, None
        self.do("findkey 0 0")

    def next_in_order(self, mutate=None):
        if self.stage == 0 or self.req is None:
            return self.request(mutate=mutate)
        if not self.sc:
            if self.stage == 1:
                return self.legacy_confirm(mutate)
            if self.stage == 2:
                return self.legacy_random(mutate)
            self.stage = 0
            return self.poll()
        if self.stage == 1:
            return self.public_key(mutate)
        if self.stage == 2:
            return self.poll()
        if self.stage == 3:
            return self.lesc_random(mutate)
        if self.stage == 4:
            if getattr(self, "held", False):
                self.held = False
                self.do("answer %d" % (self.rng.random() < 0.85))
                return self.poll()
            if self.rng.random() < 0.3:
                self.do("answer %d" % (self.rng.random() < 0.8))
                if self.rng.random() < 0.5:
                    return self.poll()
            return self.dhkey(mutate)
        self.stage = 0
        return self.poll()

    def out_of_order(self):
        r = self.rng.random()
        if r < 0.25:
            op = self.rng.choice([0x01, 0x03, 0x04, 0x0c, 0x0d])
            self.do("pdu " + hx([op] + self.rnd(LEN[op] - 1)))     # right length, wrong place / value
        elif r < 0.45:
            op = self.rng.choice([0x01, 0x03, 0x04, 0x0c, 0x0d])
            n = self.rng.choice([0, 1, LEN[op] - 2, LEN[op], 22, 64])   # wrong length
            self.do("pdu " + hx([op] + self.rnd(n)))
        elif r < 0.6:
            self.do("pdu " + hx([self.rng.choice([0x00, 0x02, 0x05, 0x06, 0x07, 0x08, 0x0a, 0x0b, 0x0e, 0x0f, 0xff])] + self.rnd(self.rng.choice([0, 1, 6, 16]))))
        elif r < 0.65:
            self.do("pdu -")
        elif r < 0.8 and self.ops and any(o.startswith("pdu") for o in self.ops):
            self.do(self.rng.choice([o for o in self.ops if o.startswith("pdu")]))   # replay
        elif r < 0.88:
            self.do("conn")
            self.stage, self.req = 0, None
        elif r < 0.93:
            self.peer_failed()
        else:
            self.do("answer %d" % self.rng.randrange(2))
        # the central does not know whether that was accepted: keep its stage, a later in-order
        # step finds out


def gen_session(live, rng, variant=None, ioname=None, bond=None, length=None, p_bad=0.18, p_env=0.25):
    variant = variant or rng.choice(["legacy", "lesc", "both"])
    ioname = ioname or rng.choice(IOS[variant])
    bond = (rng.random() < 0.75) if bond is None else bond
    if ioname not in ("none", "dispyn"):
        bond = True      # managers without bonding data base are built for `none` and `dispyn` only
    c = Central(live, rng, variant, ioname, bond, rng.choice(["00", "ff"]))
    if rng.random() < 0.7:
        c.do("user " + rng.choice(["async", "sync1", "sync1", "sync0"]))
    if rng.random() < 0.3:
        c.oob_avail, c.oob = True, c.rnd(16)
        c.do("oob 1 " + hx(c.oob))
    if rng.random() < 0.5:
        c.kbd = rng.randrange(1000000)
        c.do("kbd %d" % c.kbd)
    n = length or rng.randrange(4, 26)
    known = []
    while len(c.ops) < n and not c.dead:
        r = rng.random()
        if r < p_env:
            c.env_op() if rng.random() < 0.8 else c.findkey(known)
        elif r < p_env + p_bad:
            c.out_of_order()
        elif r < p_env + p_bad + 0.08:
            c.next_in_order(mutate=rng.choice(["value", "param", "zero"]))
        else:
            c.next_in_order()
            if c.stage in (3, 5) and rng.random() < 0.6:
                c.findkey(known)
                if c.stage == (5 if c.sc else 3) and rng.random() < 0.15:
                    c.peer_failed()      # Pairing Failed from the peer after pairing completed
                    continue
                if rng.random() < 0.5:
                    c.do("enc 1")
                    for _ in range(rng.randrange(1, 4)):
                        rsp = c.poll()
                        if rsp[:1] == [7]:
                            known.append((rd(rsp[1:3]), rd(rsp[3:11])))
    return c.ops


# symbols for the small-scope enumeration: in-order-valid values are computed adaptively
def gen_enumerated(live, rng, variant, ioname, bond, symbols, usermode):
    c = Central(live, rng, variant, ioname, bond)
    c.do("user " + usermode)
    for sym in symbols:
        if c.dead:
            break
        if sym == "req":
            c.request(sc=False, io=1 if ioname == "dispyn" else 4)
        elif sym == "reqsc":
            c.request(sc=True, io=1 if ioname == "dispyn" else 4)
        elif sym == "conf":
            c.legacy_confirm()
        elif sym == "rand":
            if c.sc or c.variant == "lesc":
                c.lesc_random()
            else:
                c.legacy_random()
        elif sym == "pk":
            c.public_key()
        elif sym == "dh":
            c.dhkey()
        elif sym == "out":
            c.poll()
        elif sym == "yes":
            c.do("answer 1")
        elif sym == "no":
            c.do("answer 0")
        elif sym == "unk":
            c.do("pdu 0b")
        elif sym == "pf":
            c.do("pdu 0508")      # Pairing Failed (unspecified reason) from the peer
        elif sym == "key":
            c.do("findkey 0 0")
        elif sym == "enc":
            c.do("enc 1")
    c.do("findkey 0 0")
    return c.ops


# ---------------------------------------------------------------------------------------------
# the independent monitor: evaluates C32 / C33 / C34 on the implementation's outputs
# ---------------------------------------------------------------------------------------------
class Monitor:
    def __init__(self):
        self.fail = {"C32": [], "C33": [], "C34": []}
        self.stats = {}

    def hit(self, pid, key, what, k):
        self.fail[pid].append((key, what, k))

    def count(self, b):
        self.stats[b] = self.stats.get(b, 0) + 1

    def new_connection(self):
        self.acc = []            # accepted (pdu, rsp) of the running pairing attempt
        self.kind = None         # "legacy" | "lesc"
        self.confirm_sent = False
        self.enc = False
        self.completed_key = None
        self.armed = None        # bond of the last legacy completion on this connection
        self.sent = {6: 0, 7: 0}
        self.disp_at_confirm = None
        self.env_at_request = None
        self.after_peer_failed = False   # the last PDU was the peer's Pairing Failed

    def abort(self):
        self.acc, self.kind, self.confirm_sent, self.completed_key = [], None, False, None

    def run(self, ops, outs):
        self.cur_state = "idle"
        for k, (op, out) in enumerate(zip(ops, outs)):
            w = op.split()
            f = parse_fields(out)
            self.state_before = self.cur_state
            self.cur_state = "idle" if w[0] in ("reset", "conn") else f.get("st", self.cur_state)
            if w[0] == "reset":
                self.variant, self.ioname, self.bond = w[1], w[2], w[3] == "1"
                self.ctr, self.db = 0, []
                self.mode, self.kbd, self.oob_avail, self.oob = "async", 0, False, ZERO16
                self.sm_oob = False
                self.new_connection()
            elif w[0] == "conn":
                self.new_connection()
            elif w[0] == "enc":
                self.enc = w[1] == "1"
            elif w[0] == "user":
                self.mode = w[1]
            elif w[0] == "kbd":
                self.kbd = int(w[1])
            elif w[0] == "oob":
                self.oob_avail, self.oob = w[1] == "1", unhx(w[2])
            elif w[0] == "answer":
                pass
            elif w[0] == "findkey":
                self.on_findkey(k, int(w[1]), int(w[2]), f)
            elif w[0] == "pdu":
                self.on_pdu(k, unhx(w[1]), unhx(f.get("rsp", "-")), f)
            elif w[0] == "out":
                self.on_out(k, unhx(f.get("rsp", "-")), f)

    # --- C32 -----------------------------------------------------------------------------
    def accepted_opcodes(self):
        return [p[0] for p, _ in self.acc]

    def on_pdu(self, k, pdu, rsp, f):
        # whatever follows a completed pairing is not in order: the PDU is either rejected (pairing
        # returns to idle) or starts / continues another attempt -- no key from the old pairing
        self.completed_key = None
        self.after_peer_failed = pdu[:1] == [5]
        if self.after_peer_failed:
            # Pairing Failed from the peer, in whatever state: pairing is over, the key is withdrawn
            self.count("peer_pairing_failed_in_" + self.state_before)
            if f.get("st") != "idle":
                self.hit("C32", "C32:peer-pairing-failed-not-idle:" + self.state_before,
                         "Pairing Failed %s received in %s leaves state %s" % (hx(pdu), self.state_before, f.get("st")), k)
                self.hit("C33", "C33:pairing-not-ended-by-peer-pairing-failed:" + self.state_before,
                         "Pairing Failed %s received in %s leaves state %s" % (hx(pdu), self.state_before, f.get("st")), k)
        if rsp[:1] == [5]:
            self.count("pdu_rejected")
            if len(rsp) != 2 or f.get("st") != "idle":
                self.hit("C32", "C32:failed-but-not-idle", "Pairing Failed %s leaves state %s" % (hx(rsp), f.get("st")), k)
            self.abort()
            return
        if rsp[:1] in ([6], [7]):
            self.on_distribution(k, rsp, "pdu")
            return
        # the PDU was accepted (a response other than Pairing Failed, or silently)
        self.count("pdu_accepted")
        acc = self.accepted_opcodes()
        op = pdu[0] if pdu else None
        legal, why = self.in_order(op, pdu, acc)
        if not legal:
            self.hit("C32", "C32:accepted-out-of-order:%s:%s-after-%s" % (self.variant, "%02x" % op if op is not None else "empty", "".join("%02x" % x for x in acc) or "idle"),
                     "%s accepted PDU %s (%s) after accepted %s" % (self.variant, hx(pdu)[:20], why, acc), k)
            self.abort()
            return
        if not rsp:
            # a DHKey check taken while the user is asked: Eb may follow from l2cap_output
            self.count("dhkey_taken_while_user_is_asked")
            self.acc.append((pdu, rsp))
            return
        self.acc.append((pdu, rsp))
        if op == 1:
            self.kind = "lesc" if (self.variant == "lesc" or (self.variant == "both" and pdu[3] & 8)) else "legacy"
            if self.variant != "lesc":
                self.sm_oob = self.oob_avail
            self.env_at_request = (self.sm_oob, list(self.oob))
            if self.kind == "legacy":
                self.ctr += 1
            if rsp[0] != 2 or len(rsp) != 7:
                self.hit("C32", "C32:wrong-response:request", "response to pairing request is %s" % hx(rsp), k)
        elif op == 3:
            self.disp_at_confirm = None if f.get("disp", "-") == "-" else int(f["disp"])
            self.kbd_at_confirm = self.kbd
            # create_passkey() was drawn iff the displayed value is the tool box' next passkey
            if self.disp_at_confirm is not None and le(self.disp_at_confirm, 4) + [0] * 12 == t_passkey(self.ctr):
                self.ctr += 1
            if rsp[0] != 3:
                self.hit("C32", "C32:wrong-response:confirm", "response to pairing confirm is %s" % hx(rsp), k)
        elif op == 4 and self.kind == "legacy":
            self.legacy_completed(k, pdu, rsp)
        elif op == 0x0c:
            self.ctr += 2
            if rsp[0] != 0x0c or len(rsp) != 65:
                self.hit("C32", "C32:wrong-response:public-key", "response to public key is %s" % hx(rsp)[:20], k)
        elif op == 4:
            if rsp[0] != 4:
                self.hit("C32", "C32:wrong-response:random", "response to pairing random is %s" % hx(rsp), k)
        elif op == 0x0d:
            self.dhkey_emitted(k, rsp, pdu)

    def in_order(self, op, pdu, acc):
        if op is None:
            return False, "empty PDU"
        if op not in LEN or len(pdu) != LEN[op]:
            return False, "unknown opcode or wrong length %d" % len(pdu)
        if op == 1:
            if acc:
                return False, "request while pairing"
            _, io, oob, auth, ks, ik, rk = pdu
            if io > 4 or oob > 1 or ks < 7 or ks > 16 or ik & 0xf0 or rk & 0xf0:
                return False, "invalid parameters"
            if self.variant == "lesc" and not auth & 8:
                return False, "legacy request to LESC-only manager"
            return True, ""
        if self.kind == "legacy":
            want = {(1,): 3, (1, 3): 4}.get(tuple(acc))
            if self.variant == "lesc" or want != op:
                return False, "legacy order is request, confirm, random"
            return True, ""
        if self.kind == "lesc":
            if acc == [1] and op == 0x0c:
                return (True, "") if t_valid(pdu[1:]) else (False, "invalid public key")
            if acc == [1, 0x0c] and op == 4 and self.confirm_sent:
                return True, ""
            if acc[:3] == [1, 0x0c, 4] and all(x == 0x0d for x in acc[3:]) and op == 0x0d:
                return True, ""
            return False, "LESC order is request, public key, (confirm), random, DHKey check"
        return False, "no pairing in progress"

    def legacy_completed(self, k, pdu, rsp):
        req, prsp = self.acc[0]
        mconfirm, sconfirm = self.acc[1][0][1:], self.acc[1][1][1:]
        p1 = [REMOTE[6], LOCAL[6]] + req + prsp
        p2 = LOCAL[:6] + REMOTE[:6] + [0] * 4
        mrand, srand = pdu[1:], rsp[1:]
        if rsp[0] != 4 or len(rsp) != 17:
            self.hit("C32", "C32:wrong-response:random", "response to pairing random is %s" % hx(rsp), k)
            return
        cands = [("jw", ZERO16), ("kbd", le(self.kbd_at_confirm, 4) + [0] * 12), ("oob", self.env_at_request[1])]
        if self.disp_at_confirm is not None:
            cands.append(("display", le(self.disp_at_confirm, 4) + [0] * 12))
        tks = [(n, tk) for n, tk in cands if t_c1(tk, srand, p1, p2) == sconfirm]
        if not tks:
            self.hit("C32", "C32:sconfirm-unexplained", "the peripheral's confirm value matches no temporary key the user side knows", k)
            return
        name, tk = tks[0]
        if t_c1(tk, mrand, p1, p2) != mconfirm:
            self.hit("C32", "C32:srand-revealed-without-confirm-check:" + name,
                     "Pairing Random %s sent although c1(tk, mrand) != mconfirm %s" % (hx(rsp), hx(mconfirm)), k)
        self.count("legacy_completed_" + name)
        self.completed_key = t_s1(tk, srand, mrand)
        if self.bond:
            self.armed = t_newbond(self.ctr)
            self.ctr += 1
            self.db.insert(0, dict(self.armed))
            self.sent = {6: 0, 7: 0}
        else:
            self.armed = None

    def lesc_values(self):
        req = self.acc[0][0]
        rpub, ppub = self.acc[1][0][1:], self.acc[1][1][1:]
        na, nb = self.acc[2][0][1:], self.acc[2][1][1:]
        for c in range(self.ctr + 2, -1, -1):
            pub, priv = t_keys(c)
            if pub == ppub:
                mac, ltk = t_f5(t_p256(priv, rpub), na, nb, REMOTE, LOCAL)
                return mac, ltk, na, nb, req[1:4]
        return None

    def dhkey_emitted(self, k, rsp, pdu):
        """the peripheral sent its DHKey check (as response to `pdu`, or from l2cap_output if pdu is None)"""
        v = self.lesc_values() if len(self.acc) >= 3 else None
        if v is None:
            self.hit("C32", "C32:dhkey-check-sent-out-of-order", "DHKey check %s sent without a key / nonce exchange" % hx(rsp), k)
            return
        mac, ltk, na, nb, iocaps = v
        ea = t_f6(mac, na, nb, ZERO16, iocaps, REMOTE, LOCAL)
        if pdu is None:
            # sent from l2cap_output (after the user's yes): only if the DHKey check accepted last in
            # this attempt is the right one
            taken = [p for p, r in self.acc[3:] if p[0] == 0x0d]
            if not taken or taken[-1][1:] != ea:
                self.hit("C32", "C32:dhkey-check-sent-unverified:l2cap_output-in-user_response_success",
                         "peripheral sent its DHKey check %s from l2cap_output after the user's yes; the central's DHKey check was %s"
                         % (hx(rsp), "never received" if not taken else "dropped unverified (%s, correct would be %s)" % (hx(taken[-1][1:]), hx(ea))), k)
            else:
                self.count("dhkey_verified")
            self.count("dhkey_sent_from_output")
        elif pdu[1:] != ea:
            self.hit("C32", "C32:dhkey-check-sent-after-wrong-check", "DHKey check %s answered although Ea is %s" % (hx(pdu[1:]), hx(ea)), k)
        else:
            self.count("dhkey_verified")
        self.count("lesc_completed")
        self.completed_key = ltk
        if self.bond:
            self.db.insert(0, dict(key=ltk, rand=0, ediv=0))

    def on_out(self, k, rsp, f):
        if not rsp:
            return
        if rsp[0] == 5:
            if len(rsp) != 2 or f.get("st") != "idle":
                self.hit("C32", "C32:failed-but-not-idle", "Pairing Failed %s leaves state %s" % (hx(rsp), f.get("st")), k)
            self.abort()
        elif rsp[0] == 3:
            if self.kind != "lesc" or self.accepted_opcodes() != [1, 0x0c] or self.confirm_sent:
                self.hit("C32", "C32:confirm-sent-out-of-order", "LESC confirm sent after %s" % self.accepted_opcodes(), k)
            self.confirm_sent = True
        elif rsp[0] == 0x0d:
            self.dhkey_emitted(k, rsp, None)
        elif rsp[0] in (6, 7):
            self.on_distribution(k, rsp, "out")
        else:
            self.hit("C32", "C32:unexpected-output", "l2cap_output produced %s" % hx(rsp)[:20], k)

    # --- C33 -----------------------------------------------------------------------------
    def on_findkey(self, k, ediv, rand, f):
        got = None if f.get("key", "-") == "-" else unhx(f["key"])
        self.count("findkey")
        if ediv == 0 and rand == 0 and self.completed_key is not None:
            exp, src = self.completed_key, "pairing"
        else:
            exp, src = None, "none"
            if self.bond:
                for b in self.db:
                    if b["ediv"] == ediv and b["rand"] == rand:
                        exp, src = b["key"], "bond-db"
                        break
        self.count("findkey_expect_" + src)
        if got != exp:
            if got is not None and exp is None and self.after_peer_failed:
                key = "C33:key-offered-after-peer-pairing-failed"
            elif got is not None and exp is None:
                key = "C33:key-offered-without-pairing-or-bond"
            elif got is None:
                key = "C33:key-not-offered:" + src
            else:
                key = "C33:wrong-key-offered:" + src
            self.hit("C33", key, "find_key(%d, %d) = %s, expected %s (%s)" % (ediv, rand, hx(got or []), hx(exp or []), src), k)

    # --- C34 -----------------------------------------------------------------------------
    def on_distribution(self, k, rsp, via):
        item = rsp[0]
        self.count("distributed_%02x" % item)
        if via != "out":
            self.hit("C34", "C34:distribution-as-response", "key distribution PDU %s as response to a PDU" % hx(rsp), k)
        if not self.enc:
            self.hit("C34", "C34:distributed-unencrypted:%02x" % item, "%s sent while the link is not encrypted" % hx(rsp), k)
        if self.armed is None:
            self.hit("C34", "C34:distributed-without-completed-pairing:%02x" % item, "%s sent, no legacy pairing with bonding completed on this connection" % hx(rsp), k)
            return
        self.sent[item] += 1
        if self.sent[item] > 1:
            self.hit("C34", "C34:distributed-twice:%02x" % item, "%s sent %d times for one pairing" % (hx(rsp), self.sent[item]), k)
        exp = [6] + self.armed["key"] if item == 6 else [7] + le(self.armed["ediv"], 2) + le(self.armed["rand"], 8)
        if rsp != exp:
            self.hit("C34", "C34:wrong-item-distributed:%02x" % item, "%s sent, the bond created for this pairing is %s" % (hx(rsp), hx(exp)), k)


# ---------------------------------------------------------------------------------------------
# projections: only what the property talks about is compared between model and code
# ---------------------------------------------------------------------------------------------
def proj_c32(op, line):
    w = op.split()[0]
    if w in ("findkey", "enc"):
        return ""
    if w == "out":
        f = parse_fields(line)
        r = f.get("rsp", "-")
        return "st=%s %s" % (f.get("st"), "keydist" if r[:2] in ("06", "07") else r)   # C34's business
    return line


def proj_c33(op, line):
    w = op.split()[0]
    if w == "findkey":
        return line
    if w in ("pdu", "out", "answer"):
        return parse_fields(line).get("st", line)
    return ""


def proj_c34(op, line):
    w = op.split()[0]
    if w == "out":
        f = parse_fields(line)
        r = f.get("rsp", "-")
        return "st=%s %s" % (f.get("st"), r if r[:2] in ("06", "07") else "other")
    if w in ("pdu", "answer"):
        return parse_fields(line).get("st", line)
    return ""


PROJ = {"C32": proj_c32, "C33": proj_c33, "C34": proj_c34}

ENUM = {
    "legacy": (["req", "conf", "rand", "unk", "out"], [("none", "async"), ("dispkbd", "async")]),
    "lesc": (["reqsc", "pk", "rand", "dh", "out", "yes"], [("none", "async"), ("dispyn", "async"), ("dispyn", "sync1")]),
    "both": (["req", "reqsc", "conf", "pk", "rand", "dh", "out", "yes"], [("dispyn", "async")]),
}


# canonical complete pairings per (variant, io, user mode): for every prefix the peer's Pairing
# Failed is sent (-> opcode 05 is received in every pairing state) and the key looked up
WALKS = [
    ("legacy", "none", "async", ["req", "conf", "rand", "key"]),
    ("legacy", "dispkbd", "async", ["req", "conf", "rand", "key"]),
    ("lesc", "none", "async", ["reqsc", "pk", "out", "rand", "dh", "key"]),
    ("lesc", "dispyn", "async", ["reqsc", "pk", "out", "rand", "dh", "yes", "out", "key"]),
    ("lesc", "dispyn", "async", ["reqsc", "pk", "out", "rand", "yes", "dh", "key"]),
    ("lesc", "dispyn", "async", ["reqsc", "pk", "out", "rand", "no"]),
    ("lesc", "dispyn", "async", ["reqsc", "pk", "out", "rand", "dh", "no"]),
    ("lesc", "dispyn", "sync1", ["reqsc", "pk", "out", "rand", "out", "dh", "key"]),
    ("both", "dispyn", "async", ["req", "conf", "rand", "key"]),
    ("both", "dispyn", "async", ["reqsc", "pk", "out", "rand", "dh", "yes", "out", "key"]),
    ("both", "dispyn", "async", ["reqsc", "pk", "out", "rand", "yes", "dh", "key"]),
    ("both", "dispyn", "async", ["reqsc", "pk", "out", "rand", "dh", "no"]),
    ("both", "none", "async", ["reqsc", "pk", "out", "rand", "dh", "key"]),
]


PREFIXES = {
    "legacy": [(["req", "conf"], "dispkbd", "async")],
    "lesc": [(["reqsc", "pk", "out", "rand"], "dispyn", "async"), (["reqsc", "pk", "out", "rand"], "dispyn", "sync1")],
    "both": [(["reqsc", "pk", "out", "rand"], "dispyn", "async"), (["req", "conf"], "dispyn", "async")],
}


def make_sessions(ctx, pid):
    rng = ctx.rng
    live = Live(ctx.harness())
    sessions = [ops for _, ops in ctx.corpus()]
    n = 2500 if ctx.thorough else 450
    emphasis = {"C32": dict(p_bad=0.2, p_env=0.2), "C33": dict(p_bad=0.12, p_env=0.35), "C34": dict(p_bad=0.1, p_env=0.4)}[pid]
    try:
        for i in range(n):
            variant = ["legacy", "lesc", "both"][i % 3]
            if pid == "C34" and variant == "lesc" and i % 2:
                variant = "legacy"
            bond = True if (pid == "C34" and i % 5) else None
            sessions.append(gen_session(live, rng, variant=variant, bond=bond, **emphasis))
        enumerated = 0
        for variant, (symbols, cfgs) in sorted(ENUM.items()):
            syms = symbols if pid == "C32" else [s for s in symbols if s != "unk"] + (["enc"] if pid == "C34" and variant != "lesc" else [])
            for i, (ioname, mode) in enumerate(cfgs):
                d = 3
                if ctx.thorough:
                    d = 5 if len(syms) ** 5 <= 8000 else 4
                    d -= 1 if i else 0          # full depth for the first configuration of a variant
                for seq in itertools.product(syms, repeat=d):
                    sessions.append(gen_enumerated(live, rng, variant, ioname, True, seq, mode))
                    enumerated += 1
            # the same from the deepest protocol states: after the LESC random exchange (the user
            # is being asked) and after the legacy confirm exchange
            for prefix, ioname, mode in PREFIXES[variant]:
                for seq in itertools.product(syms, repeat=4 if ctx.thorough else 3):
                    sessions.append(gen_enumerated(live, rng, variant, ioname, True, tuple(prefix) + seq, mode))
                    enumerated += 1
        for variant, ioname, mode, walk in WALKS:
            # managers without bonding data base exist for `none` and `dispyn` only
            for bond in ((False, True) if ioname in ("none", "dispyn") else (True,)):
                for k in range(len(walk) + 1):
                    sessions.append(gen_enumerated(live, rng, variant, ioname, bond, tuple(walk[:k]) + ("pf",), mode))
                    enumerated += 1
    finally:
        live.close()
    return sessions, enumerated


def run_prop(pid):
    def run(ctx, replay_path=None):
        res = Result()
        res.rule = ("sessions = reset <variant> <io> <bond> <fill> followed by SMP PDUs, l2cap_output polls, encryption changes, user "
                    "answers, reconnects and find_key probes; the PDUs are produced by a scripted central that talks to the real harness "
                    "and computes confirm values / DHKey checks from the peripheral's answers with the stand-in tool box, with wrong-order, "
                    "wrong-length, wrong-value, repeated and unknown PDUs mixed in, plus all symbol sequences of a fixed depth over "
                    "{request, confirm, public key, random, DHKey check, poll, user yes, unknown}; each session is run on the real security "
                    "manager and on the Lean model, compared through the projection of this property, and judged by an independent Python "
                    "monitor (spec automaton of the pairing order, recomputed c1/f6 equalities, expected keys and bond data base contents); "
                    "a session is non-trivial if a pairing completed, a key was offered or a key distribution PDU was sent")
        sessions, enumerated = make_sessions(ctx, pid)
        impl, model, dis = ctx.run_pair(sessions, PROJ[pid])
        for d in dis:
            ops = ctx.shrink_disagreement(sessions[d["session"]], PROJ[pid]) if len(res.disagreements) < 2 else sessions[d["session"]]
            res.disagreements.append(dict(d, ops=ops))
        for ops, r in zip(sessions, impl):
            res.sessions += 1
            res.evaluations += len(r["out"])
            mon = Monitor()
            mon.run(ops, r["out"])
            for b, c in mon.stats.items():
                res.count(b, c)
            res.count("sessions_" + ops[0].split()[1] + "_" + ops[0].split()[2])
            if r["crash"]:
                res.failures.append({"key": pid + ":crash:" + r["crash"].split(" @")[0], "what": r["crash"], "ops": ops})
            for key, what, k in mon.fail[pid]:
                res.failures.append({"key": key, "what": what, "ops": ops[:k + 1]})
            nontrivial = any(b.startswith(("legacy_completed", "lesc_completed", "distributed", "findkey_expect_pairing", "findkey_expect_bond"))
                             for b in mon.stats)
            if nontrivial:
                res.distinct.add(hash(tuple(ops)))
        res.extra["enumerated_sessions"] = enumerated
        res.extra["exhaustive_small_scope"] = ("all symbol sequences of depth %s per variant from idle and of depth %s from the states after the "
                                               "LESC random / legacy confirm exchange (ENUM, PREFIXES in comp/sm.py), values computed adaptively "
                                               "so that in-order PDUs are valid") % (("4-5", "4") if ctx.thorough else ("3", "3"))
        res.samples = [" ; ".join(o[:40] for o in s[:12]) for s in sessions[:3]]
        return res
    return run


COMMON = dict(
    level="proof",
    technique="Lean 4 invariant proofs over all operation histories of an executable model of the three security managers (crypto, RNG, user as parameters) + differential correspondence with the real managers over a mock tool box",
    design_ref="§5 C32-C34",
    assumptions=["tool box functions are stand-ins (abstract parameters in the theorems); cryptographic strength is out of scope (C37)",
                 "one connection, one security manager object; the bonding data base is the harness' list (most recent bond wins)",
                 "connection data is value-initialised as in link_layer.hpp (`connection_data_ = connection_data_t()`)",
                 "yes_no_response() is only called while the user is asked (user_response_wait / user_response_wait_dhkey_verified; it asserts that)"],
)

T = "BluetoeModel.Sm."
PROPS = {
    "C32": dict(COMMON,
        theorems=[T + "accepted_only_in_order", T + "accepted_language", T + "else_failed_and_idle", T + "srand_after_confirm_check",
                  T + "dhkey_after_check_full", T + "lastDhkey_is_received",
                  T + "l2capInput_spec", T + "l2capOutput_spec", T + "inv_step"],
        run=run_prop("C32"),
        level_text="accepted_only_in_order / accepted_language / else_failed_and_idle: for every variant, IO configuration, state and PDU a PDU is either accepted at its place in the protocol order (table `AcceptedAt`) or answered by Pairing Failed with the state idle; srand_after_confirm_check: the legacy Pairing Random is only sent when c1(tk, mrand, p1, p2) equals the stored confirm value, which is the last received one. dhkey_after_check_full (proved for the code with fix sm-01): every DHKey check the peripheral sends answers a DHKey check PDU equal to Ea, or is sent by l2cap_output after the DHKey check accepted last in this attempt (ghost, recorded from the PDUs) equalled Ea. On the code without the fix the check reports C32:dhkey-check-sent-unverified:l2cap_output-in-user_response_success (corpus/C32/dhkey_unverified_async.ops, dhkey_before_check_sync_yes.ops).",
        level_note="Trusted: Lean kernel + standard axioms; model = code as far as the differential check samples it (adaptive scripted central + small-scope enumeration); unions in security_connection_data are modelled as separate fields (all reads are guarded by the pairing state).",
    ),
    "C33": dict(COMMON,
        theorems=[T + "key_offered_iff", T + "offered_key_is_pairing_key", T + "local_key_iff_completed", T + "keyPair_is_sent",
                  T + "any_other_pdu_withdraws_key", T + "inv_step"],
        run=run_prop("C33"),
        level_text="key_offered_iff: in every history find_key(ediv, rand) offers a key iff the ghost `pairing completed and nothing happened since` holds with ediv = rand = 0, or the bonding data base has an entry; offered_key_is_pairing_key (history theorem): after every history the locally offered key is the key of the last completed pairing on this connection, nothing having happened to pairing since: s1(tk, srand sent, mrand received) / the f5 LTK of the public key and nonce received and the key pair and nonce sent in that attempt (ghost = fold over the PDUs and responses of the history); any_other_pdu_withdraws_key: a PDU with any other opcode, e.g. the peer's Pairing Failed 05, in any state ends pairing and withdraws the key.",
        level_note="The ghost is computed from the I/O trace (payloads of accepted public key / random / DHKey check PDUs and of the responses); the only secrets it uses are the temporary key and which key pair generate_keys() returned at the public key step.",
    ),
    "C34": dict(COMMON,
        theorems=[T + "distribution_only_encrypted", T + "each_item_once_per_pairing", T + "only_after_completed"],
        run=run_prop("C34"),
        level_text="For every history: Encryption Information / Central Identification leave only through l2cap_output while the last encryption change was `encrypted`, at most once each per arm_key_distribution, and only after a legacy pairing completed on this connection.",
        level_note="pending_* flags are zero only because the connection data is value-initialised; a default-initialised object would read indeterminate flags (not reachable through link_layer.hpp).",
    ),
}
