"""C40 — SC Control Point of the Cycling Speed and Cadence service (bluetoe/services/csc.hpp)"""
import itertools

from vlib.core import Result

NAME = "csc"
LEAN_MODULE = "BluetoeModel.Csc"
DRIVER = "drv_csc"
HARNESS_DESC = "harness/csc.cpp (real cycling_speed_and_cadence<> in a bluetoe::server<>, one connection)"
HARNESS = dict(src="harness/csc.cpp")

CONFIGS = [0, 1, 2]          # 0: one sensor location, 1: locations 1,2,3, 2: locations 1,5 / crank only
WELL_FORMED_LEN = {1: 5, 3: 2, 4: 1}


def hexs(bs):
    return "".join("%02x" % b for b in bs) if bs else "-"


def parse_hex(s):
    return [] if s == "-" else [int(s[i:i + 2], 16) for i in range(0, len(s), 2)]


def well_formed(v):
    return bool(v) and len(v) == WELL_FORMED_LEN.get(v[0], len(v))


class Sim:
    """generation guidance only (what the *fixed* code does); never used to judge the implementation"""

    def __init__(self):
        self.in_progress = self.queued = self.outstanding = self.owed = self.latched = False
        self.cccd = True

    def apply(self, op):
        w = op.split()
        if w[0] == "write":
            v = parse_hex(w[1])
            if self.cccd and v and not self.in_progress:
                self.latched = True
                if well_formed(v):
                    self.in_progress = True
                    if v[0] == 1:
                        self.owed = True
                    else:
                        self.queued = True
        elif w[0] == "confirm":
            self.queued, self.owed = True, False
        elif w[0] == "output":
            if self.queued and not self.outstanding:
                self.queued, self.outstanding = False, True
                if self.cccd:
                    self.in_progress = False
        elif w[0] == "ack":
            self.outstanding = False
        elif w[0] == "cccd":
            self.cccd = w[1] == "1"
        elif w[0] == "reconnect":
            self.cccd = self.queued = self.outstanding = False


def gen_write(rng, malformed_rate):
    r = rng.random()
    if r < malformed_rate:
        k = rng.random()
        if k < 0.12:
            return []
        op = rng.choice([1, 1, 3, 4])
        good = WELL_FORMED_LEN[op]
        n = rng.choice([x for x in (1, 2, 3, 4, 5, 6, 7, 20) if x != good])
        return [op] + [rng.randrange(256) for _ in range(n - 1)]
    k = rng.random()
    if k < 0.35:
        return [1] + [rng.randrange(256) for _ in range(4)]
    if k < 0.55:
        return [4]
    if k < 0.80:
        return [3, rng.choice([1, 2, 3, 5, 0, 9, rng.randrange(256)])]
    op = rng.choice([0, 2, 5, 6, 16, 0x80, 0xff, rng.randrange(5, 256)])
    return [op] + [rng.randrange(256) for _ in range(rng.choice([0, 0, 1, 4, 19]))]


def gen_session(rng, cfg, length, malformed_rate, off_contract):
    """structured stream: a client that mostly follows the protocol (write, wait for the response,
    confirm it) interleaved with malformed writes, impatient writes and a lazy link layer"""
    sim = Sim()
    ops = ["reset %d" % cfg]
    for _ in range(length):
        r = rng.random()
        if sim.owed and r < 0.45:
            op = "confirm"
        elif r < 0.40:
            op = "write " + hexs(gen_write(rng, malformed_rate))
        elif r < 0.65:
            op = "output"
        elif r < 0.85:
            op = "ack"
        elif r < 0.90:
            op = "wheel"
        elif off_contract and r < 0.93 and sim.latched:
            op = "confirm"                      # handler confirms although nothing is owed
        elif off_contract and r < 0.96:
            op = "cccd %d" % (0 if sim.cccd and rng.random() < 0.6 else 1)
        elif off_contract and r < 0.975:
            op = "reconnect"
            ops.append(op)
            sim.apply(op)
            op = "cccd 1"
        else:
            op = "output"
        sim.apply(op)
        ops.append(op)
    return ops


def enumerate_small(cfg, depth):
    """all op sequences up to `depth` over a 9 letter alphabet in which the handler never confirms
    before an opcode was latched (the C++ would read an uninitialised byte)"""
    alphabet = ["write 0100000000", "write 0100", "write 04", "write 0302", "write 07", "write -",
                "confirm", "output", "ack"]
    res = []
    for n in range(1, depth + 1):
        for seq in itertools.product(alphabet, repeat=n):
            sim, ok = Sim(), True
            for op in seq:
                if op == "confirm" and not sim.latched:
                    ok = False
                    break
                sim.apply(op)
            if ok:
                res.append(["reset %d" % cfg] + list(seq))
    return res


def proj(op, line):
    """C40 talks about the answer to writes and about which request a response indication names"""
    w = op.split()
    if w[0] == "output" and line not in ("-", "uninit") and not line.startswith("pdu"):
        return line[:4]
    if w[0] == "wheel":
        return line.split()[0]
    return line


def monitor(ops, outs):
    """independent oracle: the property sentence evaluated on the implementation's answers only.
    Returns (index, key, text) of the first violation, else None. In scope (the control point stays
    configured for indications on one connection) every clause is judged. After the client cleared
    the CCCD or the link was lost only "never deadlocks" is judged: once the control point is
    configured again and the link layer has nothing to send, a request must not be answered
    Procedure Already In Progress."""
    pending = owed = outstanding = False
    cur = None
    last_error_write = "none"
    limited = False            # CCCD cleared / reconnected at some point
    cccd_on = True
    lost = None                # why the pending procedure's response can no longer arrive
    idle_output = False        # l2cap_output had nothing to send since the control point is configured again
    for k, (op, out) in enumerate(zip(ops, outs)):
        w = op.split()
        if w[0] == "reset":
            pending = owed = outstanding = limited = idle_output = False
            cur, last_error_write, cccd_on, lost = None, "none", True, None
        elif w[0] == "write":
            v = parse_hex(w[1])
            if limited:
                if out == "ok":
                    pending, cur, owed, lost = True, v[0] if v else None, bool(v) and v[0] == 1, None
                elif out == "err fe" and lost and cccd_on and idle_output and not owed:
                    return (k, "C40:wedged:" + lost, "op %d `%s` answered Procedure Already In Progress (0xFE): the procedure with opcode %s was "
                            "accepted, its response was never sent (%s), the control point is configured for indications again and the "
                            "link layer has nothing to send" % (k, op, cur, lost))
                continue
            if out == "ok":
                if pending:
                    return k, "C40:accepted-while-pending", "op %d `%s` accepted although the procedure with opcode %d still awaits its response" % (k, op, cur)
                pending, cur, owed = True, v[0] if v else None, bool(v) and v[0] == 1
            else:
                if out == "err fe" and not pending:
                    return (k, "C40:rejected-with-nothing-pending:after-" + last_error_write,
                            "op %d `%s` answered Procedure Already In Progress (0xFE) although no accepted procedure awaits its response; last refused write: %s" % (k, op, last_error_write))
                if out != "err fe" and not pending and well_formed(v):
                    return k, "C40:wellformed-request-refused:" + out.replace(" ", "-"), "op %d `%s`: well-formed request with nothing pending answered `%s`" % (k, op, out)
                # the suspected cause of a later wedge: the most recent refused write the handler
                # looked at (empty and 0xFE-rejected writes are only remembered if nothing else was)
                if v and out != "err fe":
                    last_error_write = "malformed-opcode-%d" % v[0]
                elif last_error_write == "none":
                    last_error_write = "rejected-write" if v else "empty-write"
        elif w[0] == "confirm":
            if not owed:
                return None            # handler contract broken by the test itself: out of scope from here
            owed = False
        elif w[0] == "cccd":
            cccd_on = w[1] == "1"
            idle_output = False
            if not cccd_on:
                limited = True
        elif w[0] == "reconnect":
            limited, cccd_on, outstanding, idle_output = True, False, False, False
            if pending:
                lost = "disconnect-while-procedure-pending"
        elif w[0] == "ack":
            outstanding = False
        elif w[0] == "output":
            if limited:
                val = parse_hex(out) if out != "-" and not out.startswith(("pdu", "uninit")) else None
                if val and len(val) >= 2 and val[0] == 0x10:
                    pending, lost, outstanding = False, None, True
                elif out == "-":
                    if pending and not owed and not outstanding and not cccd_on and lost is None:
                        lost = "cccd-cleared-while-response-queued"      # the response had its chance and was not sent
                    if cccd_on and not outstanding:
                        idle_output = True
                continue
            if out == "-":
                if pending and not owed and not outstanding:
                    return k, "C40:response-not-produced", "op %d: procedure with opcode %d accepted, nothing outstanding, but l2cap_output sends no response" % (k, cur)
            else:
                val = parse_hex(out) if not out.startswith(("pdu", "uninit")) else None
                if val is None:
                    return k, "C40:unexpected-output", "op %d: l2cap_output produced `%s`" % (k, out)
                if not pending:
                    return k, "C40:response-without-procedure", "op %d: response %s although no accepted procedure awaits one" % (k, out)
                if len(val) < 3 or val[0] != 0x10 or val[1] != cur:
                    return k, "C40:response-opcode-mismatch", "op %d: response %s to the procedure with opcode %d" % (k, out, cur)
                pending, outstanding = False, True
    return None


def run_c40(ctx, replay_path=None):
    res = Result()
    res.rule = ("sessions = reset <cfg> (three real cycling_speed_and_cadence<> servers: one location / three locations / crank only) "
                "followed by control point writes (ATT Write Request; well-formed for opcodes 1,3,4 and unknown opcodes, malformed "
                "lengths, empty), handler confirmations, l2cap_output calls and client confirmations; a smaller stream also breaks "
                "the handler contract (spurious confirm) and reconfigures the CCCD (model = code only, outside the property). Each "
                "session runs on the real server and on the Lean model (compared through a projection: write answers, the first two "
                "bytes of every indication, handler call count) and is judged by a Python monitor that knows only the property "
                "sentence. non-trivial = contains a refused write (0x04/0x01/0xFE) followed later by an accepted one; thorough tier "
                "additionally enumerates every op sequence up to length 6 (cfg 1) / 5 (cfg 0, 2) over a 9 letter alphabet")
    sessions = [ops for _, ops in ctx.corpus()]
    n = 6000 if ctx.thorough else 700
    for i in range(n):
        cfg = CONFIGS[i % 3]
        off = (i % 5 == 4)
        sessions.append(gen_session(ctx.rng, cfg, ctx.rng.randrange(4, 40), ctx.rng.choice([0.15, 0.3, 0.6]), off))
    if ctx.thorough:
        small = enumerate_small(1, 6) + enumerate_small(0, 5) + enumerate_small(2, 5)
        sessions += small
        res.extra["exhaustive_small_scope"] = "%d sessions: every op sequence of length <= 6 (cfg 1) / <= 5 (cfg 0, 2) over 9 ops" % len(small)
    impl, model, dis = ctx.run_pair(sessions, proj)
    for d in dis:
        ops = sessions[d["session"]]
        if len(res.disagreements) < 2:
            ops = ctx.shrink_disagreement(ops, proj)
        res.disagreements.append(dict(d, ops=ops))
    failing = {}
    for ops, r in zip(sessions, impl):
        outs = r["out"]
        res.evaluations += len(outs)
        res.sessions += 1
        for o, x in zip(ops[1:], outs[1:]):
            k = o.split()[0]
            res.count(k)
            if k == "write":
                res.count("write->" + x)
            elif k == "output":
                res.count("output->" + ("nothing" if x == "-" else "indication"))
        if r["crash"]:
            res.failures.append({"key": "C40:crash:" + r["crash"].split(" @")[0], "what": r["crash"], "ops": ops[:len(outs) + 1]})
            continue
        m = monitor(ops, outs)
        if m:
            k, key, what = m
            failing.setdefault(key, []).append((ops[:k + 1], what))
        refused_then_ok = False
        seen_refused = False
        for o, x in zip(ops, outs):
            if o.startswith("write"):
                if x != "ok":
                    seen_refused = True
                elif seen_refused:
                    refused_then_ok = True
        res.count("sessions_refused_then_accepted", refused_then_ok)
        if refused_then_ok:
            res.distinct.add(hash(tuple(ops)))
    for key, lst in sorted(failing.items()):
        ops, what = min(lst, key=lambda t: len(t[0]))

        def still(cand, key=key):
            r = ctx.run_impl([cand])[0]
            m = monitor(cand, r["out"])
            return bool(m) and m[1] == key
        ops = ctx.shrink(ops, still, budget=60)
        r = ctx.run_impl([ops])[0]
        m = monitor(ops, r["out"])
        res.failures.append({"key": key, "what": m[2] if m else what, "ops": ops, "observed": r["out"]})
        res.count("failing_sessions:" + key, len(lst))
    res.samples = [" ; ".join(s[:12]) for s in sessions[len(ctx.corpus()):len(ctx.corpus()) + 3]]
    return res


PROPS = {
    "C40": dict(
        theorems=["BluetoeModel.Csc.rejected_only_while_pending", "BluetoeModel.Csc.wellformed_accepted_when_idle",
                  "BluetoeModel.Csc.malformed_never_blocks", "BluetoeModel.Csc.accepted_after_malformed",
                  "BluetoeModel.Csc.error_write_unobserved",
                  "BluetoeModel.Csc.one_response_per_accepted", "BluetoeModel.Csc.no_uninit_read",
                  "BluetoeModel.Csc.pending_response_enabled"],
        witnesses=["BluetoeModel.Csc.wedge_cccd_cleared", "BluetoeModel.Csc.wedge_reconnect",
                   "BluetoeModel.Csc.never_deadlocks_full_witness"],
        run=run_c40,
        level="proof-partial",
        technique="Lean 4 invariant proof over all in-scope histories of the control point + indication hand-shake model, differential correspondence with the real cycling_speed_and_cadence<> server, independent property monitor",
        level_text="For every history of writes (any bytes), handler confirmations, l2cap_output calls and client confirmations: a write is answered 0xFE iff an accepted procedure still awaits its response indication (rejected_only_while_pending), a write answered with an error never changes the answer to any later write (malformed_never_blocks, every state), idle + well-formed => accepted, the responses name exactly the accepted opcodes in order with at most the pending one missing (one_response_per_accepted) and the pending response can always be obtained (pending_response_enabled). Proved for the code with fixes/csc-01 applied; the unpatched code wedges after one malformed write (monitor key C40:rejected-with-nothing-pending:after-malformed-opcode-N). Outside that scope the control point dead-locks (wedge_cccd_cleared, wedge_reconnect, never_deadlocks_full_witness; known findings C40:wedged:cccd-cleared-while-response-queued, C40:wedged:disconnect-while-procedure-pending).",
        level_note="Trusted: Lean kernel + propext/Quot.sound/Classical.choice; model = code as far as the differential check samples it (thorough: all op sequences <= 6 over 9 ops); scope: control point configured for indications throughout, user handler confirms only what it owes (documented contract), one connection, MTU 23.",
        design_ref="§5 C40",
        assumptions=["user handler calls confirm_cumulative_wheel_revolutions exactly for set_cumulative_wheel_revolutions calls (documented contract)",
                     "client keeps the control point CCCD configured for indications; single connection"],
    ),
}
