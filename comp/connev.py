"""C23 / C22 — connection event book keeping (peripheral_latency.hpp, delta_time.cpp)"""
import os
from vlib.core import Result

NAME = "connev"
LEAN_MODULE = "BluetoeModel.ConnEvents"
DRIVER = "drv_connev"
HARNESS_DESC = "harness/connev.cpp (real peripheral_latency_state<configuration<...>> for all option sets, delta_time)"
_HERE = os.path.dirname(os.path.dirname(os.path.abspath(__file__)))
# -I harness/connev comes first on the command line: its <cassert>/<assert.h> make a failing
# assert() throw instead of abort (harness/connev/assert.h), so an assertion is an answer ("assert")
HARNESS = dict(src="harness/connev.cpp",
               repo_srcs=["bluetoe/link_layer/delta_time.cpp", "bluetoe/link_layer/channel_map.cpp"],
               flags=["-O1", "-g", "-fsanitize=address,undefined", "-fno-sanitize-recover=all",
                      "-fno-omit-frame-pointer", "-w", "-I", os.path.join(_HERE, "harness", "connev")])

# cfg bit -> connection_event_events bit it listens to
CFG_TO_EVENT_BIT = {0: 4, 1: 0, 2: 1, 3: 2, 4: 3}
ALL_CFGS = list(range(33))
# runtime switchable peripheral_latency_configuration_set<>: harness cfg number -> member configurations
# (17 = strict, 20 = strict_plus, 31 = default, 32 = peripheral_latency_ignored / listen_always)
SETS = {100: [32, 20], 101: [17, 32, 31], 102: [17, 20]}


def condition_held(cfg, ev):
    """the property's 'one of its configured listen conditions held' (listen_always, error included)"""
    if cfg == 32 or (ev >> 5) & 1:
        return True
    return any((cfg >> c) & 1 and (ev >> e) & 1 for c, e in CFG_TO_EVENT_BIT.items())


# ------------------------------------------------------------------------------------------
# generators
# ------------------------------------------------------------------------------------------
def honest_session(rng, cfg, length):
    """a history the link layer and an honest radio can produce: latency <= 499, a fixed interval,
    few consecutive timeouts, the radio answers a disarm with a time between the last event that
    took place and the planned one (`hresched`, computed inside harness / driver)"""
    interval = rng.choice([7500, 10000, 30000, 50000, 100000, 1250 * rng.randrange(6, 3201)])
    latency = rng.choice([0, 1, 2, 3, 5, 7, 36, 37, 38, 100, 499, rng.randrange(0, 500)])
    while (latency + 1 + 12) * interval >= 2 ** 32:
        latency //= 2
    ops, timeouts, guess = ["cfg %d" % cfg], 0, 0
    for _ in range(length):
        r = rng.random()
        if cfg in SETS and rng.random() < 0.15:
            ops.append("select %d" % rng.randrange(len(SETS[cfg])))   # change_peripheral_latency<>()
        if r < 0.5 or (r < 0.65 and timeouts >= 8):
            ev = rng.choice([0, 0, 0, rng.randrange(64), 1 << rng.randrange(6)])
            pend, inst = 0, 0
            if rng.random() < 0.25:
                d = rng.choice([0, 1, 2, 3, latency, latency + 1, latency + 2, 65535, rng.randrange(65536)])
                pend, inst = 1, (guess + d) % 65536
            ops.append("plan %d %d %d %d %d" % (latency, ev, interval, pend, inst))
            timeouts = 0
        elif r < 0.65:
            ops.append("timeout %d" % interval)
            timeouts += 1
        elif r < 0.97:
            ops.append("hresched %d %d %d" % (int(rng.random() < 0.85), rng.choice([0, 1, 500, 999, 1000, rng.randrange(1001)]), interval))
        else:
            ops.append("reset")
        guess = (guess + rng.choice([1, 1, latency + 1])) % 65536
    return ops


def wrap_session(rng, cfg):
    """drive the 16 bit event counter over its wrap (and the channel index over many periods)"""
    ops = ["cfg %d" % cfg]
    for _ in range(rng.randrange(132, 140)):
        ops.append("plan 499 0 7500 0 0")
    for _ in range(40):
        ops.append(rng.choice(["plan 499 0 7500 0 0", "plan 7 %d 7500 1 %d" % (rng.randrange(64), rng.randrange(20)),
                               "timeout 7500", "hresched 1 %d 7500" % rng.randrange(1001)]))
    return ops


def class_session(rng, cfg, length):
    """arbitrary arguments (correspondence only; may trip assertions)"""
    ops = ["cfg %d" % cfg]
    big = [0, 1, 2, 30000, 4000000, 2 ** 31, 2 ** 32 - 1]
    for _ in range(length):
        r = rng.random()
        interval = rng.choice([0, 1, 7500, 30000, 4000000, rng.randrange(2 ** 32)]) if rng.random() < 0.3 else rng.choice([7500, 30000, 1250 * rng.randrange(6, 3201)])
        if r < 0.4:
            lat = rng.choice([0, 1, 7, 499, 500, 65534, 65535, rng.randrange(65536)])
            ops.append("plan %d %d %d %d %d" % (lat, rng.randrange(64), interval, rng.randrange(2), rng.randrange(65536)))
        elif r < 0.55:
            ops.append("timeout %d" % interval)
        elif r < 0.9:
            now = rng.choice(big + [rng.randrange(2 ** 22)])
            if interval == 1 and now >= 2 ** 31 - 1:
                # times = now / 1us >= 2^31: `std::min< int >( times, … )` converts out of range and
                # `moved - last_latency_` overflows `int` (UB); only possible with a 1 us "interval",
                # not modelled (the model answers `none`), so not generated
                now = rng.randrange(2 ** 22)
            ops.append("resched %d %d %d" % (rng.randrange(2), now, interval))
        else:
            ops.append("reset")
    return ops


def arith_session(rng, length):
    ops = ["cfg 0"]
    vals = [0, 1, 2, 3, 1249, 1250, 7500, 10 ** 6, 10 ** 8, 2 ** 31 - 1, 2 ** 31, 2 ** 32 - 2, 2 ** 32 - 1]
    for _ in range(length):
        a = rng.choice(vals + [rng.randrange(2 ** 32), rng.randrange(10 ** 8)])
        b = rng.choice(vals + [rng.randrange(2 ** 32), rng.randrange(2000)])
        ops.append("%s %d %d" % (rng.choice(["add", "sub", "mul", "div", "ppm"]), a, b))
    return ops


def parse_state(f):
    return dict(ci=int(f[0]), ec=int(f[1]), t=int(f[2]), ll=f[3])


# ------------------------------------------------------------------------------------------
# C23 monitor: the property statement evaluated on the implementation's outputs
# ------------------------------------------------------------------------------------------
def monitor_c23(ops, outs):
    """for honest sessions; returns (k, key, what) or None.  n = absolute number of the planned
    event, prev = absolute number of the last event that took place"""
    cfg, n, prev, st, members = 0, 0, 0, None, None
    for k, (op, out) in enumerate(zip(ops, outs)):
        w = op.split()
        if w[0] == "cfg":
            cfg, n, prev, st = int(w[1]), 0, 0, dict(ci=0, ec=0, t=0, ll="1")
            members = SETS.get(cfg)
            if members:
                cfg = members[0]          # a set starts with its first configuration selected
            continue
        if w[0] == "select" and members and out == "ok":
            cfg = members[int(w[1])]      # the conditions that count are those of the selected configuration
            continue
        if w[0] not in ("reset", "plan", "timeout", "hresched"):
            continue
        if out in ("assert", "dead") or out.startswith("<crash"):
            return k, "C23:assert-in-legal-history", "op %d `%s`: assertion failed (latency <= 499, honest radio)" % (k, op)
        f = out.split()
        if w[0] == "reset":
            new = parse_state(f)
            n, prev = 0, 0
            if new["ci"] != 0 or new["ec"] != 0:
                return k, "C23:counter-channel-out-of-step", "op %d reset: channel index %d, counter %d" % (k, new["ci"], new["ec"])
        elif w[0] == "plan":
            lat, ev, interval, pend, inst = (int(x) for x in w[1:])
            new = parse_state(f)
            adv = (new["ec"] - st["ec"]) % 65536
            if adv < 1 or adv > lat + 1:
                return k, "C23:skipped-more-than-latency", "op %d `%s`: event counter advanced by %d with latency %d" % (k, op, adv, lat)
            if condition_held(cfg, ev) and adv != 1:
                return k, "C23:condition-held-but-skipped", "op %d `%s` (cfg %d): a listen condition held but the next event is %d ahead" % (k, op, cfg, adv)
            if pend:
                dist = (inst - st["ec"]) % 65536
                if dist > 0 and adv > dist:
                    return k, "C23:instant-skipped", "op %d `%s`: advance %d jumps over the pending instant %d ahead" % (k, op, adv, dist)
            prev, n = n, n + adv
            if new["ci"] != n % 37 or new["ec"] != n % 65536:
                return k, "C23:counter-channel-out-of-step", "op %d `%s`: event %d planned, channel index %d (expected %d), counter %d" % (k, op, n, new["ci"], n % 37, new["ec"])
        elif w[0] == "timeout":
            new = parse_state(f)
            adv = (new["ec"] - st["ec"]) % 65536
            if adv != 1:
                return k, "C23:skipped-more-than-latency", "op %d timeout: event counter advanced by %d" % (k, adv)
            prev, n = n, n + 1
            if new["ci"] != n % 37 or new["ec"] != n % 65536:
                return k, "C23:counter-channel-out-of-step", "op %d timeout: event %d planned, channel index %d (expected %d)" % (k, n, new["ci"], n % 37)
        else:  # hresched
            ret, new, now = int(f[0]), parse_state(f[3:7]), int(f[7])
            pulled = (st["ec"] - new["ec"]) % 65536
            if pulled > 32768:
                return k, "C23:pulled-forward", "op %d `%s`: the planned event moved forward" % (k, op)
            if ret == 0 and pulled != 0:
                return k, "C23:counter-channel-out-of-step", "op %d `%s`: returned false but moved the event" % (k, op)
            n -= pulled
            if pulled and n <= prev:
                return k, "C23:pulled-before-passed-event", "op %d `%s`: planned event pulled back to %d, event %d already took place" % (k, op, n, prev)
            if new["ci"] != n % 37 or new["ec"] != n % 65536:
                return k, "C23:counter-channel-out-of-step", "op %d `%s`: event %d planned, channel index %d (expected %d), counter %d" % (k, op, n, new["ci"], n % 37, new["ec"])
            if ret == 1 and new["t"] < now:
                return k, "C23:moved-before-now", "op %d `%s`: event moved to %d us after the anchor, now is %d" % (k, op, new["t"], now)
        st = new
    return None


def proj_c23(op, line):
    """C23 talks about counter, channel index and the reschedule decision — not about times"""
    w, f = op.split(), line.split()
    if w[0] in ("plan", "timeout", "reset") and len(f) == 4:
        return " ".join([f[0], f[1], f[3]])
    if w[0] in ("resched", "hresched") and len(f) >= 7:
        return " ".join(f[:5] + [f[6]])
    if w[0] in ("ppm", "add", "sub", "mul", "div"):
        return "-"
    return line


def selected_cfgs(ops):
    """the effective configuration number in force at each op (sets: the selected member)"""
    cfg, members, res = 0, None, []
    for op in ops:
        w = op.split()
        if w[0] == "cfg":
            cfg = int(w[1])
            members = SETS.get(cfg)
            if members:
                cfg = members[0]
        elif w[0] == "select" and members and int(w[1]) < len(members):
            cfg = members[int(w[1])]
        res.append(cfg)
    return res


def run_c23(ctx, replay_path=None):
    res = Result()
    res.rule = ("a session picks one of the 33 latency configurations (all 32 option subsets + listen_always) or one of three runtime "
                "switchable peripheral_latency_configuration_set<> (two mixing peripheral_latency_ignored with other configurations, "
                "switched with change_peripheral_latency<>() = op select; judged by the SELECTED configuration's conditions) and issues "
                "plan_next_connection_event / ..._after_timeout / reschedule_on_pending_data / reset calls on the real "
                "peripheral_latency_state<> and on the Lean model; compared per op on (channel index, event counter, "
                "last_latency_, return value, disarm calls, events pulled back); honest sessions (latency <= 499, honest mock "
                "radio) are additionally judged by an independent Python oracle of the property (skip <= latency, condition "
                "=> next event, counter/channel = absolute event number mod 2^16 / mod 37 incl. pull back, pulled event "
                "after the last event that took place and not before now, pending instant not skipped); non-trivial = "
                "session with a skip > 0, a listen condition hit, and (for pendingTx configs) an actual pull back; "
                "distinct = distinct op sequences")
    rng = ctx.rng
    sessions, honest = [], []
    for _, ops in ctx.corpus():
        sessions.append(ops)
        honest.append(not any(o.startswith("resched ") or o.split()[0] in ("add", "sub", "mul", "div", "ppm")
                                  or (o.startswith("plan ") and int(o.split()[1]) > 499) for o in ops))
    per_cfg = 60 if ctx.thorough else 8
    for cfg in ALL_CFGS:
        for _ in range(per_cfg * (3 if cfg & 1 and cfg != 32 else 1)):
            sessions.append(honest_session(rng, cfg, rng.randrange(10, 60)))
            honest.append(True)
        for _ in range(per_cfg // 2):
            sessions.append(class_session(rng, cfg, rng.randrange(5, 30)))
            honest.append(False)
    for cfg in ([0, 1, 31, 32] if not ctx.thorough else ALL_CFGS):
        sessions.append(wrap_session(rng, cfg))
        honest.append(True)
    for cfg in SETS:
        for _ in range(per_cfg * 5):
            sessions.append(honest_session(rng, cfg, rng.randrange(10, 60)))
            honest.append(True)
        for _ in range(per_cfg):
            ops = class_session(rng, cfg, rng.randrange(5, 30))
            for _ in range(3):
                ops.insert(rng.randrange(1, len(ops) + 1), "select %d" % rng.randrange(len(SETS[cfg]) + 1))
            sessions.append(ops)
            honest.append(False)
    impl, model, dis = ctx.run_pair(sessions, proj_c23)
    for d in dis:
        ops = ctx.shrink_disagreement(sessions[d["session"]], proj_c23) if len(res.disagreements) < 2 else sessions[d["session"]]
        res.disagreements.append(dict(d, ops=ops))
    for ops, r, h in zip(sessions, impl, honest):
        outs = r["out"]
        res.evaluations += len(outs)
        res.sessions += 1
        res.count("honest_sessions" if h else "class_level_sessions")
        if r["crash"]:
            res.failures.append({"key": "C23:crash:" + r["crash"].split(" @")[0], "what": r["crash"], "ops": ops[:len(outs) + 1]})
            continue
        skip = cond = pull = False
        eff = selected_cfgs(ops)
        for op, out, ecfg in zip(ops, outs, eff):
            w, f = op.split(), out.split()
            res.count(w[0])
            if w[0] == "plan" and int(ops[0].split()[1]) in SETS:
                res.count("set_plan_with_%s_selected" % ("listen_always" if ecfg == 32 else "other"))
            if out == "assert":
                res.count("assert_answers")
            if w[0] in ("resched", "hresched") and len(f) >= 7:
                res.count("resched_ret_%s_pulled_%s" % (f[0], "0" if f[2] == "0" else ">0"))
                pull = pull or f[2] != "0"
            if w[0] == "plan" and len(f) == 4:
                cond = cond or condition_held(ecfg, int(w[2]))
                skip = skip or (not condition_held(ecfg, int(w[2])) and int(w[1]) > 0)
        if h:
            m = monitor_c23(ops, outs)
            if m:
                k, key, what = m
                if len([x for x in res.failures if x["key"] == key]) < 3:
                    res.failures.append({"key": key, "what": what, "ops": ops[:k + 1]})
        cfg = int(ops[0].split()[1])
        if skip and cond and (pull or (cfg not in SETS and (not (cfg & 1) or cfg == 32))):
            res.distinct.add(hash(tuple(ops)))
        res.count("cfg_%s" % ("set" if cfg in SETS else "listen_always" if cfg == 32 else "disarmable" if cfg & 1 else "plain"))
    res.samples = [" ; ".join(s[:8]) for s in (sessions[0], sessions[len(sessions) // 2], sessions[-1])]
    return res


PROPS = {
    "C23": dict(
        theorems=["BluetoeModel.ConnEvents.skip_le_latency", "BluetoeModel.ConnEvents.timeout_advances_one",
                  "BluetoeModel.ConnEvents.listen_next_if_condition", "BluetoeModel.ConnEvents.full_latency_without_condition",
                  "BluetoeModel.ConnEvents.instant_not_skipped", "BluetoeModel.ConnEvents.counter_channel_in_step",
                  "BluetoeModel.ConnEvents.track_fst", "BluetoeModel.ConnEvents.moved_event_not_before_now",
                  "BluetoeModel.ConnEvents.set_behaves_as_selected", "BluetoeModel.ConnEvents.set_listens_as_selected"],
        witnesses=["BluetoeModel.ConnEvents.latency_ffff_witness", "BluetoeModel.ConnEvents.stale_last_latency_witness"],
        run=run_c23,
        level="proof",
        technique="Lean 4 proofs (per-step bounds + history invariant with a ghost absolute event number) about a model of connection_state_base / disarmable_connection_state for every option set + differential correspondence with the real peripheral_latency_state<> for all 33 configurations",
        level_text="skip_le_latency / listen_next_if_condition: for every configuration, state, outcome and pending instant plan_next_connection_event advances by 1..latency+1 events and by exactly 1 when a configured condition (or error, listen_always) held; counter_channel_in_step: after every assertion-free history of plans, timeouts, reschedules (any radio answer) and resets channel index = n mod 37 and event counter = n mod 2^16 for the same absolute event number n (pull back included); moved_event_not_before_now: a pulled back event is not before the radio's now and moves by whole intervals. Tied to the code by running generated histories on the real class for all 32 option subsets + listen_always and on the model, plus an independent Python oracle of the property on honest histories.",
        level_note="Trusted: Lean kernel + standard axioms; model = code as far as sampled; the radio is a mock (disarm_connection_event answers are inputs). plan_next_connection_event_after_timeout does not refresh last_latency_: that a reschedule after a missed event never pulls the counter behind events that took place relies on the radio contract (now >= time of the missed event), see stale_last_latency_witness; the monitor checks it with an honest mock radio.",
        design_ref="§5 C23",
        assumptions=["connection latency <= 499 (check_timing_paremeters)",
                     "disarm_connection_event() reports the current time since the last anchor (scheduled_radio.hpp)"],
    ),
}
