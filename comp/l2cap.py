"""C31 — L2CAP channel multiplexing (bluetoe/l2cap.hpp) and signaling channel
(bluetoe/link_layer/include/bluetoe/l2cap_signaling_channel.hpp)"""
import re
from vlib.core import Result

NAME = "l2cap"
LEAN_MODULE = "BluetoeModel.L2cap"
DRIVER = "drv_l2cap"
HARNESS_DESC = "harness/l2cap.cpp (real l2cap<> with the real signaling_channel<> on CID 5 and scriptable mock channels on CID 4/6 over a mock link layer)"
HARNESS = dict(src="harness/l2cap.cpp")
P = "C31"
MAXMTU = 65


def hx(b):
    return bytes(b).hex() if len(b) else "-"


def unhex(s):
    return b"" if s == "-" else bytes.fromhex(s)


def frame(cid, payload, dlen=0):
    n = (len(payload) + dlen) % 65536
    return bytes([n & 0xff, n >> 8, cid & 0xff, cid >> 8]) + bytes(payload)


def next_id(i):
    return 1 if i == 255 else i + 1


# ---------------------------------------------------------------------------------------------
# generator
# ---------------------------------------------------------------------------------------------
def gen_session(rng, res, length, malformed=False):
    ops = ["reset", "bufs %d" % rng.choice([0, 1, 3, 50, 50])]
    # the generator's own idea of the signaling state, only used to aim responses
    st, ident = "idle", 1
    while len(ops) < length:
        r = rng.random()
        if malformed:
            n = rng.choice([0, 1, 2, 3, 4, 5, 6, 10, 69, 70, rng.randrange(0, 80)])
            f = bytearray(rng.randrange(256) for _ in range(n))
            if n >= 4 and rng.random() < 0.5:
                f[2], f[3] = rng.choice([4, 5, 6]), 0
            if n >= 4 and rng.random() < 0.5:
                f[0], f[1] = (n - 4) & 0xff, 0
            ops.append("in " + hx(f))
            res.count("in:malformed-stream")
            if rng.random() < 0.2:
                ops.append(rng.choice(["out", "bufs 2", "cpu 6 12 0 100"]))
            continue
        if r < 0.08:
            ops.append("bufs %d" % rng.choice([1, 2, 10]))
        elif r < 0.12:
            ops.append("mode %d %d" % (rng.choice([4, 6]), rng.randrange(3)))
        elif r < 0.18:
            ops.append("queue %d %s" % (rng.choice([4, 6]), hx(bytes(rng.randrange(256) for _ in range(rng.choice([1, 5, 23, 65, 66, 80]))))))
        elif r < 0.30:
            ops.append("out")
            if st == "queued":
                st = "transmitted"
        elif r < 0.42:
            ops.append("cpu %d %d %d %d" % (rng.randrange(65536), rng.randrange(65536), rng.randrange(500), rng.randrange(65536)))
            if st == "idle":
                st = "queued"
        elif r < 0.62:
            # signaling command
            m = rng.random()
            if m < 0.30:
                kind, c = "response-matching", [0x13, ident, 2, 0, rng.randrange(2), 0]
                if st == "transmitted":
                    st, ident = "idle", next_id(ident)
            elif m < 0.50:
                kind, c = "response-other-identifier", [0x13, rng.choice([(ident + 1) % 256, (ident - 1) % 256, 0x77, 0, rng.randrange(256)]), 2, 0, 0, 0]
                if c[1] == ident and st == "transmitted":
                    st, ident = "idle", next_id(ident)
            elif m < 0.58:
                kind, c = "response-truncated", [0x13, ident, 2, 0, 0, 0][:rng.randrange(0, 3)]
                if len(c) >= 2 and st == "transmitted":
                    st, ident = "idle", next_id(ident)
            elif m < 0.70:
                kind, c = "other-code-same-identifier", [rng.choice([0x12, 0x01, 0x14, 0x00, 0x93]), ident, 2, 0, 0, 0]
            elif m < 0.90:
                kind = "other-command"
                c = [rng.choice([0x01, 0x06, 0x0a, 0x12, 0x14, 0x15, 0xff]), rng.choice([0, 1, 2, 0x80, 0xff, rng.randrange(256)])] + \
                    [rng.randrange(256) for _ in range(rng.choice([0, 2, 10, 21]))]
            else:
                kind, c = "short-command", [rng.randrange(256) for _ in range(rng.randrange(0, 2))]
            res.count("sig:" + kind)
            ops.append("in " + hx(frame(5, c)))
        elif r < 0.80:
            cid = rng.choice([4, 4, 6])
            n = rng.choice([0, 0, 1, 2, 22, 23, 64, 65, 66, rng.randrange(0, 70)])
            res.count("in:valid-cid%d%s" % (cid, "-empty" if n == 0 else ""))
            ops.append("in " + hx(frame(cid, bytes(rng.randrange(256) for _ in range(n)))))
        elif r < 0.88:
            cid = rng.choice([0, 1, 2, 3, 7, 0x40, 0x0104, 0x0105, 0x0400, 0xffff, rng.randrange(65536)])
            res.count("in:unknown-cid")
            ops.append("in " + hx(frame(cid, bytes(rng.randrange(256) for _ in range(rng.randrange(0, 30))))))
        elif r < 0.95:
            res.count("in:length-mismatch")
            ops.append("in " + hx(frame(rng.choice([4, 5, 6]), bytes(rng.randrange(256) for _ in range(rng.randrange(0, 30))), rng.choice([1, -1, 2, 256, -4]))))
        else:
            res.count("in:shorter-than-header")
            ops.append("in " + hx(bytes(rng.randrange(256) for _ in range(rng.randrange(0, 4)))))
    return ops


def wrap_session(n):
    """n complete procedures: the identifier wraps from 255 to 1"""
    ops = ["reset", "bufs %d" % (2 * n + 10)]
    i = 1
    for k in range(n):
        ops += ["cpu %d 12 0 100" % (k % 65536), "out", "in " + hx(frame(5, [0x13, i, 2, 0, 0, 0]))]
        i = next_id(i)
    return ops


def small_scope(depth):
    """all sequences of `depth` signaling events (identifiers 1, 2 and a foreign one)"""
    alpha = ["cpu 6 12 0 100", "out", "in " + hx(frame(5, [0x13, 1, 2, 0, 0, 0])), "in " + hx(frame(5, [0x13, 2, 2, 0, 0, 0])),
             "in " + hx(frame(5, [0x13, 0x77, 2, 0, 0, 0])), "in " + hx(frame(5, [0x12, 1, 0, 0]))]
    seqs = [[]]
    for _ in range(depth):
        seqs = [s + [a] for s in seqs for a in alpha]
    return [["reset", "bufs 50"] + s for s in seqs]


# ---------------------------------------------------------------------------------------------
# monitor: the property statement evaluated on the implementation's outputs
# ---------------------------------------------------------------------------------------------
KV = re.compile(r"(\w+)=(\S+)")
STATUS = {"idle": "0", "queued": "1", "transmitted": "2"}


def monitor(ops, outs):
    fails = []
    bufs = 0
    st, cur_id, last_done, params = "idle", None, None, None
    outq = {4: [], 6: []}

    def fail(k, key, what):
        fails.append((k, P + ":" + key, what))

    for k, (op, out) in enumerate(zip(ops, outs)):
        w = op.split()
        if out == "bad-op":
            continue
        kv = dict(KV.findall(out))
        txs = [] if kv.get("tx", "-") == "-" else [unhex(x) for x in kv["tx"].split(",")]
        dels = [] if kv.get("del", "-") == "-" else [(int(x.split(":")[0]), unhex(x.split(":")[1])) for x in kv["del"].split(";")]
        if "OVERFLOW" in out:
            fail(k, "reply-larger-than-allocated-buffer", "commit_l2cap_output_buffer with more bytes than allocated")
        for r in txs:
            if len(r) < 4 or (r[0] | (r[1] << 8)) != len(r) - 4:
                fail(k, "sent-frame-length-field", "frame %s sent with a wrong length field" % r.hex())
            if len(r) > MAXMTU + 4:
                fail(k, "reply-larger-than-allocated-buffer", "frame of %d bytes, buffer has %d" % (len(r), MAXMTU + 4))
        if len(txs) > bufs:
            fail(k, "sent-without-buffer", "%d frames sent with %d buffers" % (len(txs), bufs))
        if w[0] == "reset":
            bufs, st, cur_id, last_done, outq = 0, "idle", None, None, {4: [], 6: []}
        elif w[0] == "bufs":
            bufs += int(w[1])
        elif w[0] == "queue":
            outq[int(w[1])].append(unhex(w[2]))
        elif w[0] == "cpu":
            accepted = out.split()[0] == "1"
            if accepted and st != "idle":
                fail(k, "request-accepted-while-pending" + ("-after-non-matching-response" if st == "transmitted" else ""),
                     "connection_parameter_update_request accepted although the previous request (identifier %s) is not completed" % cur_id)
            elif not accepted and st == "idle":
                fail(k, "request-refused-while-idle", "request refused without a pending one")
            if accepted:
                st, params = "queued", [int(x) for x in w[1:5]]
        elif w[0] == "in":
            f = unhex(w[1])
            valid = len(f) >= 4 and (f[0] | (f[1] << 8)) == len(f) - 4
            cid = (f[2] | (f[3] << 8)) if len(f) >= 4 else None
            payload = f[4:]
            if not valid:
                if dels or txs or kv.get("consumed") != "1":
                    fail(k, "malformed-frame-not-dropped", "frame %s (length field does not match) was not silently swallowed: %s" % (f.hex(), out))
            elif bufs == 0:
                if dels or txs or kv.get("consumed") != "0":
                    fail(k, "input-without-output-buffer", "frame handled without an output buffer: %s" % out)
            else:
                if kv.get("consumed") != "1":
                    fail(k, "frame-not-consumed", "valid frame not consumed")
                if cid in (4, 5, 6):
                    if dels != [(cid, payload)]:
                        fail(k, "not-delivered-to-named-channel", "frame for CID %d delivered as %s" % (cid, kv.get("del")))
                else:
                    if dels or txs:
                        fail(k, "unknown-cid-not-dropped", "frame for CID 0x%04x: %s" % (cid, out))
                for r in txs:
                    if len(r) >= 4 and (r[2] | (r[3] << 8)) != cid:
                        fail(k, "reply-on-other-cid", "request on CID %d answered on CID %d" % (cid, r[2] | (r[3] << 8)))
                if len(txs) > 1:
                    fail(k, "more-than-one-reply", "%d frames for one input" % len(txs))
                if cid == 5:
                    c = payload
                    matching = st == "transmitted" and len(c) >= 2 and c[0] == 0x13 and c[1] == cur_id
                    if matching:
                        st, last_done = "idle", cur_id
                        if txs:
                            fail(k, "matching-response-answered", "the matching response was answered with %s" % txs[0].hex())
                    else:
                        exp = [frame(5, [1, c[1], 2, 0, 0, 0])] if len(c) >= 2 and c[1] != 0 else []
                        if kv.get("sig", "").split("/")[0] != STATUS[st]:
                            if st == "transmitted" and len(c) >= 1 and c[0] == 0x13:
                                fail(k, "non-matching-response-accepted", "response %s completes the request with identifier 0x%02x" % (c.hex(), cur_id))
                        elif txs != exp:
                            fail(k, "command-not-rejected-with-its-identifier", "command %s answered with %s, expected %s" % (c.hex() or "-", kv.get("tx"), hx(exp[0]) if exp else "-"))
        elif w[0] == "out":
            for r in txs:
                cid = r[2] | (r[3] << 8)
                if cid in (4, 6):
                    if not outq[cid] or outq[cid].pop(0)[:MAXMTU] != r[4:]:
                        fail(k, "channel-output-not-sent-on-its-cid", "frame %s" % r.hex())
                elif cid == 5:
                    c = r[4:]
                    if st != "queued":
                        fail(k, "update-request-sent-more-than-once", "request PDU %s sent in state %s" % (c.hex(), st))
                    if len(c) != 12 or c[0] != 0x12 or c[2:4] != b"\x08\x00":
                        fail(k, "update-request-malformed", c.hex())
                    else:
                        if c[1] == 0:
                            fail(k, "request-identifier-zero", c.hex())
                        if last_done is not None and c[1] != next_id(last_done):
                            fail(k, "identifier-does-not-advance", "request identifier 0x%02x after completed request 0x%02x" % (c[1], last_done))
                        if last_done is None and cur_id is not None and c[1] != cur_id:
                            fail(k, "identifier-changed-without-completion", "0x%02x -> 0x%02x" % (cur_id, c[1]))
                        got = [c[4 + 2 * i] | (c[5 + 2 * i] << 8) for i in range(4)]
                        if params is not None and got != params:
                            fail(k, "update-request-parameters", "%s sent for %s" % (got, params))
                        st, cur_id = "transmitted", c[1]
                else:
                    fail(k, "output-on-unknown-cid", r.hex())
        bufs = max(0, bufs - len(txs))
        if "sig" in kv and kv["sig"].split("/")[0] != STATUS[st] and not any(x[0] == k for x in fails):
            fail(k, "signaling-state", "signaling channel in state %s, the exchanged PDUs imply %s" % (kv["sig"], st))
    return fails


def run_c31(ctx, replay_path=None):
    res = Result()
    res.rule = ("sessions = reset, bufs n, then a mix of incoming frames (valid frames for CID 4/6 incl. empty and over-long payloads, "
                "signaling commands: matching / foreign-identifier / truncated responses, other codes with the current identifier, "
                "other commands, short commands; unknown CIDs incl. 0x0104/0x0400; length field off by +-1, +256; shorter than the header), "
                "connection_parameter_update_request, transmit_pending_l2cap_output, queued channel output, reply modes of the mock "
                "channels, output buffer starvation; plus an unstructured stream, a 300-procedure identifier wrap-around session and all "
                "sequences of signaling events up to a small length; each session runs on the real l2cap<> + signaling_channel<> "
                "and on the Lean model (compared line by line incl. pending_status_/identifier_) and through a Python oracle of the "
                "property; distinct = distinct sessions with a delivery to a channel or a signaling state change")
    sessions = [ops for _, ops in ctx.corpus()]
    ncorpus = len(sessions)
    n, nm = (3000, 600) if ctx.thorough else (300, 80)
    for _ in range(n):
        sessions.append(gen_session(ctx.rng, res, ctx.rng.randrange(6, 50)))
    for _ in range(nm):
        sessions.append(gen_session(ctx.rng, res, ctx.rng.randrange(6, 40), malformed=True))
    sessions.append(wrap_session(300))
    ss = small_scope(5 if ctx.thorough else 4)
    sessions += ss
    res.extra["exhaustive_small_scope"] = "all %d sequences of %d signaling events out of {request, output, response id 1, response id 2, response id 0x77, other command}" % (len(ss), 5 if ctx.thorough else 4)
    impl, model, dis = ctx.run_pair(sessions)
    for d in dis:
        ops = ctx.shrink_disagreement(sessions[d["session"]], keep_first=1) if len(res.disagreements) < 2 else sessions[d["session"]]
        res.disagreements.append(dict(d, ops=ops))
    shrunk = set()
    for si, (ops, r) in enumerate(zip(sessions, impl)):
        outs = r["out"]
        res.evaluations += len(outs)
        res.sessions += 1
        for o in ops[1:]:
            res.count("op:" + o.split()[0])
        fails = monitor(ops, outs)
        if r["crash"]:
            k = len(outs)
            key = "%s:crash:%s" % (P, re.sub(r"\d+", "N", r["crash"].split(" @")[0]))
            fails.append((k, key, "%s at op `%s`" % (r["crash"], ops[min(k, len(ops) - 1)][:80])))
        for k, key, what in fails[:1]:
            fops = ops[:k + 1]
            if key not in shrunk and len(shrunk) < 4:
                shrunk.add(key)

                def still(cand, key=key):
                    rr = ctx.run_impl([cand])[0]
                    ff = monitor(cand, rr["out"])
                    if rr["crash"]:
                        ff.append((0, "%s:crash:%s" % (P, re.sub(r"\d+", "N", rr["crash"].split(" @")[0])), ""))
                    return any(x[1] == key for x in ff)
                fops = ctx.shrink(fops, still, budget=80)
            res.failures.append({"key": key, "what": what, "ops": fops})
        joined = " ".join(outs)
        if "del=4" in joined or "del=5" in joined or "del=6" in joined or "sig=2" in joined:
            res.distinct.add(hash(tuple(ops)))
        res.count("sessions_completing_a_request", " sig=0/2" in joined)
    res.samples = [" ; ".join(s[:12])[:400] for s in sessions[ncorpus:ncorpus + 3]]
    return res


PROPS = {
    "C31": dict(
        theorems=["BluetoeModel.L2cap.delivered_iff_cid_and_length",
                  "BluetoeModel.L2cap.unknown_cid_dropped",
                  "BluetoeModel.L2cap.reply_same_cid_and_fits",
                  "BluetoeModel.L2cap.accepts_only_matching_response",
                  "BluetoeModel.L2cap.no_response_accepted_unless_transmitted",
                  "BluetoeModel.L2cap.update_request_sent_once",
                  "BluetoeModel.L2cap.identifier_nonzero_and_advances",
                  "BluetoeModel.L2cap.request_identifier_byte_nonzero",
                  "BluetoeModel.L2cap.reject_echoes_nonzero_id"],
        witnesses=["BluetoeModel.L2cap.Orig.accepts_only_matching_response_witness",
                   "BluetoeModel.L2cap.Orig.mismatching_response_advances_identifier"],
        imports=["BluetoeModel.L2cap.Props", "BluetoeModel.L2cap.Orig"],
        run=run_c31,
        level="proof",
        technique="Lean 4 theorems for all frames / states / histories about a model of l2cap<> and signaling_channel<> + differential correspondence with the real classes",
        level_text="For every byte string and every state the model of handle_l2cap_input delivers exactly to the channel the CID names iff the length field matches, drops unknown CIDs without any effect, answers on the same CID within the allocated buffer; the (fixed) signaling channel completes a request exactly on a response with the request's identifier, sends a queued request once, keeps identifiers non-zero and advancing for every history, and rejects every other command echoing its non-zero identifier. The model is tied to the code by random, mutated, wrap-around and small-scope-exhaustive sessions on both.",
        level_note="Trusted: Lean kernel + standard axioms; model = code as far as sampled; channels on CID 4/6 are mocks honouring out_size (reply_same_cid_and_fits relies on that contract for other channels); a zero length frame reaches the channel with in_size = 0 (allowed by the statement; ATT asserts in_size != 0, see docs).",
        design_ref="§5 C31",
        assumptions=["channel list of the harness: mock(4, MTU 23..65), signaling_channel<>(5), mock(6, MTU 23)",
                     "link layer below = counter of exactly sized output buffers"],
    ),
}
