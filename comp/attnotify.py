"""C10 — notifications carry the requested characteristic to subscribed clients only
(bluetoe/server.hpp notify/indicate/l2cap_output, bluetoe/find_notification_data.hpp,
bluetoe/outgoing_priority.hpp)"""
from vlib.core import Result

NAME = "attnotify"
LEAN_MODULE = "BluetoeModel.AttNotify"
DRIVER = "drv_attnotify"
HARNESS_DESC = "harness/attnotify.cpp (real server<>::notify/indicate by value and by UUID, real notification queue, real l2cap_output; 19 server types)"
# -O0: the family instantiates 19 server types; -O1 triples the build time and buys nothing here
HARNESS = dict(src="harness/attnotify.cpp",
               flags=["-O0", "-g", "-fsanitize=address,undefined", "-fno-sanitize-recover=all", "-fno-omit-frame-pointer", "-w"])

SERVERS = ["P1", "P2", "P3", "P4", "P5", "P6", "P7", "P8", "E1", "E2", "H1", "R1", "M1", "D1", "U1", "X1", "X2", "X3", "C3"]
KBIT = {"n": 1, "i": 2}
OPC = {0x1B: "n", 0x1D: "i"}


class Decl:
    """the declaration as dumped by the harness from the real types (op line `def ...`)"""

    def __init__(self, name, def_line, cells_line, table_line):
        self.name, self.def_line, self.cells_line = name, def_line, cells_line
        w = def_line.split()
        self.mtu = int(w[1])
        self.handles = [int(x) for x in w[3].split(",")]
        self.chars = []           # all characteristics in declaration order
        for svc in w[4:]:
            uuid, nsvc, prio, chars = svc.split(":")
            if chars != "-":
                for c in chars.split("|"):
                    f = [int(x) for x in c.split("/")]
                    self.chars.append(dict(uuid=f[0], cell=f[1], size=f[2], readable=bool(f[3]), notify=bool(f[4]),
                                           indicate=bool(f[5]), extra=f[6]))
        self.cells = [bytes.fromhex(x) if x != "-" else b"" for x in cells_line.split()[1:]]
        t = dict(x.split("=") for x in table_line.split())
        # value attribute index of every characteristic from the scan of the REAL attribute table
        layout = [int(x) for x in t["layout"].split(",")]
        assert len(layout) == len(self.chars)
        for c, idx in zip(self.chars, layout):
            c["vidx"] = idx
            c["handle"] = self.handles[idx]
        self.cccd = [c for c in self.chars if c["notify"] or c["indicate"]]   # declaration order = `sub` numbering
        self.n = int(t["n"])
        assert self.n == len(self.cccd)
        self.by_handle = {c["handle"]: j for j, c in enumerate(self.cccd)}
        self.value_handles = {c["handle"] for c in self.chars}

    def by_cell(self, cell):
        return [j for j, c in enumerate(self.cccd) if c["cell"] == cell]

    def by_uuid(self, uuid, kind=None):
        """the characteristic `notify< UUID >()` / `indicate< UUID >()` is about: the FIRST characteristic with
        that UUID in declaration order (that is the one the call's static_asserts are checked against, whatever the
        outgoing priorities are; docs/attnotify.md "requested characteristic"). Returns its CCCD number — plus the
        numbers of characteristics of the identical C++ type (all options equal), which no lookup can tell apart —
        or [] if that characteristic has no CCCD / not the property (the call does not compile)."""
        first = next((c for c in self.chars if c["uuid"] == uuid), None)
        if first is None or not (first["notify"] or first["indicate"]):
            return []
        if kind is not None and not first["notify" if kind == "n" else "indicate"]:
            return []
        rec = lambda c: tuple(c[f] for f in ("uuid", "cell", "size", "readable", "notify", "indicate", "extra"))
        return [j for j, c in enumerate(self.cccd) if rec(c) == rec(first)]


def load_decls(ctx, key="default"):
    q = [["reset " + s, "decl", "cellsdump", "table"] for s in SERVERS]
    r = ctx.run_impl(q, key)
    decls = {}
    for s, x in zip(SERVERS, r):
        if x["crash"] or len(x["out"]) != 4 or not x["out"][1].startswith("def "):
            raise RuntimeError("harness could not dump declaration of %s: %s" % (s, x))
        decls[s] = Decl(s, x["out"][1], x["out"][2], x["out"][3])
    return decls


def prefix(d):
    return ["reset " + d.name, d.def_line, d.cells_line, "table"]


def gen_session(rng, d, length):
    ops = prefix(d)
    neg = [min(d.mtu, 23), min(d.mtu, 23)]
    all_cells = sorted({c["cell"] for c in d.cccd})
    # most sessions start with a subscription phase so that PDUs are frequent
    for c in (0, 1):
        for j in range(d.n):
            r = rng.random()
            if r < 0.65:
                ops.append("sub %d %d %d" % (c, j, rng.choice([1, 2, 3, 3, 1])))
    for _ in range(length):
        r = rng.random()
        c = rng.randrange(2)
        if r < 0.10:
            ops.append("sub %d %d %d" % (c, rng.randrange(d.n), rng.choice([0, 1, 2, 3, 3, 0x0101, 0x0200, 4])))
        elif r < 0.14:
            m = rng.choice([23, 24, 40, 64, 65, 66, 100, 512])
            ops.append("mtu %d %d" % (c, m))
            neg[c] = min(d.mtu, m)
        elif r < 0.22:
            cell = rng.choice(all_cells)
            ops.append("set %d %s" % (cell, bytes(rng.randrange(256) for _ in d.cells[cell]).hex()))
        elif r < 0.42:
            j = rng.randrange(d.n)
            ch = d.cccd[j]
            kinds = [k for k in "ni" if ch["notify" if k == "n" else "indicate"]]
            k = rng.choice(kinds) if rng.random() < 0.9 else rng.choice("ni")
            ops.append("nv %d %d %s" % (c, ch["cell"], k))
            if rng.random() < 0.25:
                ops.append(ops[-1])           # repeated request before transmission
        elif r < 0.60:
            j = rng.randrange(d.n)
            ch = d.cccd[j]
            kinds = [k for k in "ni" if ch["notify" if k == "n" else "indicate"]]
            k = rng.choice(kinds) if rng.random() < 0.9 else rng.choice("ni")
            ops.append("nu %d %d %s" % (c, ch["uuid"], k))
            if rng.random() < 0.25:
                ops.append(ops[-1])
        elif r < 0.63:
            # requests that do not compile / assert: characteristic without CCCD, unknown UUID
            other = [ch for ch in d.chars if not (ch["notify"] or ch["indicate"])]
            ch = rng.choice(other)
            ops.append(rng.choice(["nu %d %d n" % (c, ch["uuid"]), "nu %d 1 i" % c] + (["nv %d %d n" % (c, ch["cell"])] if ch["cell"] < 100 else [])))
        elif r < 0.92:
            size = rng.choice([neg[c], neg[c], neg[c], 23, 22, 10, 5, 4, 3, 2, 0, rng.randrange(0, neg[c] + 1)])
            ops.append("out %d %d" % (c, min(size, neg[c])))
        else:
            ops.append("conf %d" % c)
    # drain
    for c in (0, 1):
        for _ in range(2 * d.n + 2):
            ops.append("out %d %d" % (c, neg[c]))
            ops.append("conf %d" % c)
    return ops


def directed(d):
    """for every characteristic with a CCCD, every way of requesting, every kind it supports: only
    this characteristic subscribed on connection 0, everything else subscribed on connection 1"""
    out = []
    for j, ch in enumerate(d.cccd):
        for how in ("nv", "nu"):
            for k in "ni":
                if not ch["notify" if k == "n" else "indicate"]:
                    continue
                ops = prefix(d)
                ops.append("sub 0 %d %d" % (j, KBIT[k]))
                for j2 in range(d.n):
                    if j2 != j:
                        ops.append("sub 1 %d 3" % j2)
                arg = ch["cell"] if how == "nv" else ch["uuid"]
                for c in (0, 1):
                    ops.append("%s %d %d %s" % (how, c, arg, k))
                    ops.append("%s %d %d %s" % (how, c, arg, k))
                    ops += ["out %d 23" % c, "out %d 23" % c, "conf %d" % c, "out %d 23" % c]
                out.append(ops)
    return out


class Monitor:
    """independent oracle: the property statement evaluated on the observed PDUs. It knows the
    declaration (which variable / UUID belongs to which characteristic, the value handles as found
    in the real attribute table), what the client subscribed, what was requested and the memory."""

    def __init__(self, d):
        self.d = d
        self.flags = [[0] * d.n, [0] * d.n]
        self.pending = [dict(), dict()]        # (j, kind) -> how it was requested
        self.cells = [bytearray(x) for x in d.cells]
        self.neg = [min(d.mtu, 23)] * 2
        self.awaiting = [False, False]         # an indication PDU was sent and is not yet confirmed (exact)
        self.unsent_ind = [False, False]       # an indication was dequeued without being sent since the last confirmation
        self.unknown = [False, False]          # the oracle lost track of silently dropped requests

    def sendable(self, c, j, k, size):
        ch = self.d.cccd[j]
        return bool(self.flags[c][j] & KBIT[k]) and ch["readable"] and min(size, self.neg[c]) >= 3 and not (k == "i" and self.awaiting[c])

    def op(self, op, out):
        """returns None or (key, what)"""
        w = op.split()
        d = self.d
        if w[0] == "sub" and out == "ok":
            self.flags[int(w[1])][int(w[2])] = int(w[3]) & 3
        elif w[0] == "mtu" and out.isdigit():
            self.neg[int(w[1])] = min(d.mtu, int(w[2]))
            if int(out) != self.neg[int(w[1])]:
                return "C10:negotiated-mtu", "negotiated MTU %s, expected %d" % (out, self.neg[int(w[1])])
        elif w[0] == "set" and out == "ok":
            self.cells[int(w[1])] = bytearray.fromhex(w[2])
        elif w[0] in ("nv", "nu") and out in ("0", "1"):
            c, k = int(w[1]), w[3]
            js = d.by_cell(int(w[2])) if w[0] == "nv" else d.by_uuid(int(w[2]), k)
            if not js:
                return ("C10:request-accepted-for-unnotifiable:" + w[0],
                        "`%s` was accepted although %s" % (op, "no characteristic with a CCCD is bound to that variable" if w[0] == "nv" else
                                                              "the first characteristic with that UUID has no CCCD / not that property"))
            for j in js:                      # ambiguous declarations (D1, U1): any of them may be meant
                self.pending[c].setdefault((j, k), w[0])
            if len(js) > 1:
                self.unknown[c] = True        # ... so the oracle can not tell which one has to be transmitted
        elif w[0] == "conf":
            self.awaiting[int(w[1])] = False
            self.unsent_ind[int(w[1])] = False
        elif w[0] == "out":
            c, size = int(w[1]), int(w[2])
            if out.startswith("OVERSIZE") or out == "OOB":
                return "C10:output-size", "l2cap_output reported %s for a buffer of %d" % (out, size)
            if out == "-":
                p = self.pending[c]
                # requests the code dequeues without sending (and thereby loses): not subscribed, not readable,
                # buffer below 3 bytes; an indication is not dequeued while a confirmation is awaited
                droppable = [jk for jk in p if not self.sendable(c, jk[0], jk[1], size) and not (jk[1] == "i" and self.awaiting[c])]
                if p and not droppable and not self.unknown[c] and any(self.sendable(c, j, k, size) for (j, k) in p):
                    j, k = sorted(jk for jk in p if self.sendable(c, jk[0], jk[1], size))[0]
                    if self.unsent_ind[c] and all(kk == "i" for (jj, kk) in p if self.sendable(c, jj, kk, size)):
                        return ("C11:indication-blocked-by-unsent-indication",
                                "connection %d: nothing sent although the indication of characteristic #%d (uuid %04x) is pending, subscribed and readable "
                                "and no transmitted indication is unconfirmed: an earlier indication that was dequeued WITHOUT being sent (not subscribed / "
                                "not readable / buffer < 3) left the queue waiting for a confirmation" % (c, j, d.cccd[j]["uuid"]))
                    return ("C10:request-not-transmitted:" + p[(j, k)],
                            "connection %d: nothing sent although %s of characteristic #%d (uuid %04x, requested by %s) is pending, subscribed and readable"
                            % (c, "notification" if k == "n" else "indication", j, d.cccd[j]["uuid"], p[(j, k)]))
                # an unsent indication must not be waited for (fixes/attnotify-03): `awaiting` is changed by PDUs and confirmations only
                if any(k == "i" for (_, k) in droppable):
                    self.unsent_ind[c] = True
                if self.unknown[c]:
                    return None                     # no exact tracking any more: `pending` stays a superset
                if len(droppable) == 1:
                    del p[droppable[0]]
                elif droppable:
                    self.unknown[c] = True
                return None
            pdu = bytes.fromhex(out)
            if len(pdu) > min(size, self.neg[c]):
                return "C10:pdu-longer-than-mtu", "PDU of %d bytes, output size %d, negotiated MTU %d" % (len(pdu), size, self.neg[c])
            if len(pdu) < 3 or pdu[0] not in OPC:
                return "C10:not-a-handle-value-pdu", "l2cap_output produced %s" % out
            k = OPC[pdu[0]]
            h = pdu[1] + 256 * pdu[2]
            if h not in d.by_handle:
                what = "a value handle of a characteristic without CCCD" if h in d.value_handles else "not the value handle of any characteristic"
                return "C10:pdu-handle-not-notifiable", "PDU %s carries handle 0x%04x, which is %s" % (out, h, what)
            j = d.by_handle[h]
            ch = d.cccd[j]
            if (j, k) not in self.pending[c]:
                req = ", ".join("#%d/%s by %s" % (a, b, how) for (a, b), how in sorted(self.pending[c].items())) or "nothing"
                hows = sorted(set(self.pending[c].values()))
                return ("C10:unrequested-characteristic:" + ("+".join(hows) if hows else "none"),
                        "connection %d: PDU %s is a %s of characteristic #%d (uuid %04x, handle 0x%04x) which was not requested (or already transmitted); pending: %s"
                        % (c, out, "notification" if k == "n" else "indication", j, ch["uuid"], h, req))
            if not self.flags[c][j] & KBIT[k]:
                return "C10:sent-to-unsubscribed", "connection %d: PDU %s but the client's CCCD value of characteristic #%d is %d" % (c, out, j, self.flags[c][j])
            exp = bytes(self.cells[ch["cell"]][:max(0, min(size, self.neg[c]) - 3)])
            if pdu[3:] != exp:
                return "C10:wrong-value", "PDU %s: value of characteristic #%d is %s (clipped to %d)" % (out, j, exp.hex(), min(size, self.neg[c]) - 3)
            if not ch["readable"]:
                return "C10:unreadable-value-sent", "PDU %s for a characteristic with no_read_access" % out
            if k == "i" and self.awaiting[c]:
                return ("C11:second-indication-before-confirmation",
                        "connection %d: indication %s although the previous indication PDU on this connection is not confirmed" % (c, out))
            del self.pending[c][(j, k)]
            if k == "i":
                self.awaiting[c] = True
                self.unsent_ind[c] = False
        return None


def monitor(d, ops, outs):
    m = Monitor(d)
    for k, (op, out) in enumerate(zip(ops, outs)):
        if k < 4:
            continue
        r = m.op(op, out)
        if r:
            return k, r[0], r[1]
    return None


def c11_sessions(decls):
    """C11: an indication that is dequeued but not transmitted must not block the connection's indications
    (and an unsent notification must not confirm a transmitted one).  P4: #0 a001 n, #1 a002 n+i, #2 a003 i,
    #3 a004 n;  R1: #0 a001 n (no_read_access), #1 a002 n+i, #2 a003 i (no_read_access)"""
    P4, R1, P3 = decls["P4"], decls["R1"], decls["P3"]
    s = []
    # not subscribed
    s.append(prefix(P4) + ["nu 0 40962 i", "out 0 23", "sub 0 2 2", "nu 0 40963 i", "out 0 23", "out 0 23", "conf 0", "out 0 23"])
    # by bound value, other connection untouched, two rounds
    s.append(prefix(P4) + ["sub 1 1 3", "nv 0 1 i", "nv 1 1 i", "out 0 23", "out 1 23", "sub 0 1 2", "nv 0 1 i", "out 0 23", "out 1 23",
                           "conf 0", "conf 1", "sub 0 1 1", "nv 0 1 i", "out 0 23", "sub 0 1 3", "nv 0 1 i", "out 0 23"])
    # value not readable
    s.append(prefix(R1) + ["sub 0 2 2", "sub 0 1 2", "nu 0 40963 i", "out 0 23", "nu 0 40962 i", "out 0 23", "out 0 23"])
    # buffer below 3 bytes
    s.append(prefix(P4) + ["sub 0 1 2", "nu 0 40962 i", "out 0 2", "nu 0 40962 i", "out 0 23", "out 0 23"])
    # cyclic priorities (P3: #0 a001 n, #1 a003 i, #2 a004 n+i)
    s.append(prefix(P3) + ["sub 0 1 2", "nu 0 40964 i", "out 0 23", "nu 0 40963 i", "out 0 23"])
    # mirror image: an unsent NOTIFICATION does not confirm the transmitted indication
    s.append(prefix(P4) + ["sub 0 1 2", "sub 0 2 2", "nu 0 40962 i", "out 0 23", "nu 0 40961 n", "nu 0 40963 i", "out 0 23", "out 0 23",
                           "conf 0", "out 0 23"])
    s.append(prefix(R1) + ["sub 0 1 2", "sub 0 0 1", "nu 0 40962 i", "out 0 23", "nu 0 40961 n", "nu 0 40962 i", "out 0 23", "out 0 23", "conf 0", "out 0 23"])
    return s


def run_c11_sessions(ctx, res, key="att", model_exe=None):
    """used by comp/notifq.py (C11): the dedicated sessions on the real server<> (harness key `key`) and on the
    AttNotify model; C11:* monitor hits and model/code disagreements are added to `res`"""
    decls = load_decls(ctx, key)
    sessions = c11_sessions(decls)
    impl = ctx.run_impl(sessions, key)
    model = ctx.run_model(sessions, exe=model_exe) if model_exe else None
    for i, (ops, r) in enumerate(zip(sessions, impl)):
        d = decls[ops[0].split()[1]]
        res.sessions += 1
        res.evaluations += len(r["out"])
        res.count("server_level_sessions (real server<>::l2cap_output)")
        if r["crash"]:
            res.failures.append({"key": "C11:crash:" + r["crash"].split(" @")[0], "what": r["crash"], "ops": ops[:len(r["out"]) + 1]})
            continue
        m = monitor(d, ops, r["out"])
        if m:
            k, mkey, what = m
            res.failures.append({"key": mkey if mkey.startswith("C11:") else "C11:server-level:" + mkey,
                                 "what": "server %s: %s" % (d.name, what), "ops": ops[:k + 1]})
        if model is not None and (model[i]["crash"] or model[i]["out"] != r["out"]):
            mo = model[i]["out"]
            k = next((x for x in range(min(len(mo), len(r["out"]))) if mo[x] != r["out"][x]), min(len(mo), len(r["out"])))
            res.disagreements.append({"session": i, "op_index": k, "op": ops[min(k, len(ops) - 1)], "impl": r["out"][k] if k < len(r["out"]) else None,
                                      "model": mo[k] if k < len(mo) else model[i]["crash"], "ops": ops[:k + 1]})
    return res


def run_c10(ctx, replay_path=None):
    res = Result()
    res.rule = ("19 real server<> types (1-6 characteristics with CCCD over 1-5 services, characteristic UUIDs shared by several characteristics (16 and 128 bit), higher_outgoing_priority<> at service and/or "
                "server level, notify/indicate/both, fixed handles, services without characteristics, no_read_access, max_mtu_size<65>, "
                "ambiguous bindings). Per server: the declaration is read off the real types by the harness and handed to the model; "
                "`table` compares EVERYTHING the templates computed (queue partition, cccd_indices, find_notification_data_by_index, "
                "find_notification_data(value) and find_notification_by_uuid for every characteristic, CCCD flag index observed by "
                "writing each descriptor, attribute layout) with the model = exhaustive for the lookups of that server; then sessions "
                "of sub/mtu/set/nv/nu/out/conf on 2 connections are run on code and model and compared line by line, and an "
                "independent Python oracle checks every PDU: handle is the value handle of a characteristic that was requested on that "
                "connection and not yet transmitted, kind subscribed in the client's CCCD value, value = current memory clipped to "
                "min(size, MTU) - 3, and that a pending subscribed readable request is transmitted. non-trivial = session with >= 1 PDU")
    decls = load_decls(ctx)
    sessions, owner = [], []
    for f, ops in ctx.corpus():
        name = ops[0].split()[1]
        if name in decls:
            sessions.append(prefix(decls[name]) + [o for o in ops[1:] if not o.startswith(("def ", "cells ", "table"))])
            owner.append(name)
    for s in SERVERS:
        for ops in directed(decls[s]):
            sessions.append(ops)
            owner.append(s)
    for ops in c11_sessions(decls):
        sessions.append(ops)
        owner.append(ops[0].split()[1])
    n_dir = len(sessions)
    per = 40 if ctx.thorough else 5
    for s in SERVERS:
        for _ in range(per):
            sessions.append(gen_session(ctx.rng, decls[s], ctx.rng.randrange(20, 120 if ctx.thorough else 70)))
            owner.append(s)
    impl, model, dis = ctx.run_pair(sessions)
    for dd in dis:
        ops = sessions[dd["session"]]
        if len(res.disagreements) < 1:
            ops = ctx.shrink_disagreement(ops, keep_first=4)
        res.disagreements.append(dict(dd, ops=ops))
    tables = {}
    for s, ops, r in zip(owner, sessions, impl):
        d = decls[s]
        outs = r["out"]
        res.sessions += 1
        res.evaluations += len(outs)
        if len(outs) > 3:
            tables[s] = outs[3]
        for o in ops[4:]:
            res.count("op_" + o.split()[0])
        npdu = sum(1 for o, x in zip(ops, outs) if o.startswith("out") and x not in ("-", "bad-op"))
        res.count("pdus", npdu)
        res.count("empty_outputs", sum(1 for o, x in zip(ops, outs) if o.startswith("out") and x == "-"))
        res.count("requests_refused_bad_op", sum(1 for o, x in zip(ops, outs) if o.startswith(("nv", "nu")) and x == "bad-op"))
        res.count("requests_coalesced", sum(1 for o, x in zip(ops, outs) if o.startswith(("nv", "nu")) and x == "0"))
        if r["crash"]:
            res.failures.append({"key": "C10:crash:" + r["crash"].split(" @")[0], "what": r["crash"], "ops": ops[:len(outs) + 1]})
            continue
        m = monitor(d, ops, outs)
        if m:
            k, key, what = m
            bad = ops[:k + 1]

            def fails(cand, key=key, d=d):
                rr = ctx.run_impl([cand])[0]
                mm = monitor(d, cand, rr["out"])
                return bool(mm) and mm[1] == key
            if not any(f["key"] == key for f in res.failures):
                bad = ctx.shrink(bad, fails, keep_first=4, budget=40)
            res.failures.append({"key": key, "what": "server %s: %s" % (s, what), "ops": bad})
        if npdu:
            res.distinct.add(hash(tuple(ops)))
    res.count("directed_sessions", n_dir)
    res.extra["lookup_tables_compared_exhaustively"] = tables
    res.exhaustive = False
    res.samples = [" ; ".join(s[4:18]) for s in sessions[n_dir:n_dir + 3]]
    return res


PROPS = {
    "C10": dict(
        theorems=["BluetoeModel.AttNotify.notify_by_uuid_correct", "BluetoeModel.AttNotify.notify_by_value_correct",
                  "BluetoeModel.AttNotify.lookup_by_value", "BluetoeModel.AttNotify.lookup_by_uuid",
                  "BluetoeModel.AttNotify.lookup_by_uuid_shared", "BluetoeModel.AttNotify.notify_by_uuid_shared_correct",
                  "BluetoeModel.AttNotify.lookup_by_uuid_unnotifiable", "BluetoeModel.AttNotify.findCharByUuid_layout",
                  "BluetoeModel.AttNotify.find_by_index_correct", "BluetoeModel.AttNotify.output_correct",
                  "BluetoeModel.AttNotify.only_if_subscribed", "BluetoeModel.AttNotify.subscribe_exact",
                  "BluetoeModel.AttNotify.sortedPos_onto", "BluetoeModel.AttNotify.sortedPos_injective",
                  "BluetoeModel.AttNotify.coalesced", "BluetoeModel.AttNotify.coalesced_in_every_history",
                  "BluetoeModel.AttNotify.withIndices_layout", "BluetoeModel.AttNotify.stableSort_perm",
                  "BluetoeModel.AttNotify.stableSort_sorted", "BluetoeModel.AttNotify.findCharByUuid_unique",
                  "BluetoeModel.AttNotify.no_read_access_never_transmits"],
        witnesses=["BluetoeModel.AttNotify.notify_by_value_prefix_witness", "BluetoeModel.AttNotify.notify_by_value_prefix_sends_b",
                   "BluetoeModel.AttNotify.lookup_by_value_prefix_partial", "BluetoeModel.AttNotify.empty_service_prefix_witness",
                   "BluetoeModel.AttNotify.unsubscribed_indication_blocks_witness",
                   "BluetoeModel.AttNotify.match_by_uuid_witness", "BluetoeModel.AttNotify.cccd_index_inverse_witness"],
        run=run_c10,
        level="proof",
        technique="Lean 4 proof over all server declarations as values (every number of services / characteristics, every priority "
                  "declaration: the sort is proved a permutation for every priority assignment) + differential correspondence with 19 real "
                  "server<> types incl. exhaustive comparison of all template-computed lookup tables per server",
        level_text="For every declaration and every characteristic with a CCCD: notify/indicate by bound value (lookup_by_value, "
                   "variable bound once) and by UUID (lookup_by_uuid, UUID names the characteristic) queue exactly the index that "
                   "find_notification_data_by_index maps back to this characteristic's value attribute (find_by_index_correct, "
                   "withIndices_layout: = the attribute table layout) and under which the CCCD descriptor of this characteristic stores "
                   "the client's flags (sortedPos is the CCCD's own index computation; onto + injective); l2cap_output then emits "
                   "[0x1B|0x1D, value handle, memory clipped to min(size, MTU)-3] of that characteristic iff the flags contain the kind "
                   "(output_correct, only_if_subscribed, subscribe_exact); a repeated request changes nothing and answers false "
                   "(coalesced; coalesced_in_every_history on the byte-level queue model via C12's refinement).",
        level_note="Trusted: Lean kernel + propext/Quot.sound/Classical.choice; model = code as far as the differential check samples it "
                   "(19 server types; for each the complete lookup tables are compared, the dynamic behaviour is sampled). The queue is "
                   "C12's set specification (NotifQueue.queue_refines_set ties it to notification_queue.hpp). The handle mapping is data "
                   "(C04), encryption requirements are not modelled (C05). Request-to-PDU is proved per step (request queues index i; "
                   "dequeued index i yields the PDU of that characteristic); that a queued entry is eventually dequeued is C11/C12. "
                   "lower_outgoing_priority<> is declared 'not implemented' in the library and does not compile, so it cannot be exercised.",
        design_ref="§5 C10",
        assumptions=["a request by value names a characteristic only if the variable is bound to one characteristic with CCCD; a request by "
                     "UUID names the FIRST characteristic with that UUID in declaration order (UUIDs may be shared: lookup_by_uuid_shared), "
                     "provided no second characteristic of the identical C++ type (same UUID, variable, options) exists",
                     "the two connections of the harness share one server object; the notification callback queues on the connection the "
                     "op names (what a link layer per connection does)"],
    ),
}
