"""C37 / C38 — nRF52 security toolbox (bluetoe/bindings/nordic/nrf52/security_tool_box.cpp)

The real .cpp is built on the host against an emulated register header (harness/crypto/nrf_stub):
NRF_RNG delivers a scripted byte stream, NRF_ECB runs AES-128 (tests/test_tools/aes.c) on the
structure at ECBDATAPTR.
"""
from vlib.core import Result, DEFAULT_FLAGS

NAME = "crypto"
LEAN_MODULE = "BluetoeModel.Crypto"
DRIVER = "drv_crypto"
HARNESS_DESC = "harness/crypto.cpp (real nrf52/security_tool_box.cpp over emulated NRF_RNG / NRF_ECB registers)"
HARNESS = dict(
    src="harness/crypto.cpp",
    repo_srcs=["bluetoe/utility/address.cpp"],
    includes=["bluetoe/bindings/nordic/include", "bluetoe/bindings/nordic/nrf52/include",
              "bluetoe/bindings/nordic/uECC", "tests/test_tools"],
    abs_includes=["harness/crypto/nrf_stub"],
    flags=DEFAULT_FLAGS + ["-fpermissive", "-no-pie"],
    c_srcs=["bluetoe/bindings/nordic/uECC/uECC.c", "tests/test_tools/aes.c"],
    c_defines=["uECC_CURVE=uECC_secp256r1"],
)


def hx(bs):
    return bytes(bs).hex() if len(bs) else "-"


# ============================================================================================
# C38 — passkeys
# ============================================================================================
def draw_bytes(rng, value):
    """three RNG bytes whose low 20 bits (little endian) are `value`; the 4 spare bits random"""
    return [value & 0xff, (value >> 8) & 0xff, ((value >> 16) & 0x0f) | (rng.randrange(16) << 4)]


ACCEPT_EDGES = [0, 1, 9, 255, 256, 65535, 65536, 123456, 983039, 983040, 999998, 999999]
REJECT_EDGES = [1000000, 1000001, 1048575, 1048574, 1015808]


def gen_passkey_stream(rng, res):
    r = rng.random()
    if r < 0.55:          # structured: k rejected draws, one accepted draw, some unused bytes
        k = rng.choice([0, 0, 0, 1, 1, 2, 3, 5])
        s = []
        for _ in range(k):
            s += draw_bytes(rng, rng.choice(REJECT_EDGES) if rng.random() < 0.5 else rng.randrange(1000000, 1 << 20))
        s += draw_bytes(rng, rng.choice(ACCEPT_EDGES) if rng.random() < 0.5 else rng.randrange(1000000))
        s += [rng.randrange(256) for _ in range(rng.choice([0, 0, 1, 2, 3, 4]))]
        res.count("stream:structured(rejects=%d)" % min(k, 3))
    elif r < 0.70:        # only the three bytes, all bits random (this is what the RNG delivers)
        s = [rng.randrange(256) for _ in range(3)]
        res.count("stream:3-random-bytes")
    elif r < 0.80:        # large values in all 24 bits
        s = [rng.choice([0xff, 0xfe, 0xf0, 0x80, rng.randrange(256)]) for _ in range(3)]
        res.count("stream:high-bits")
    elif r < 0.90:        # malformed: the stream ends while the code still needs bytes
        k = rng.randrange(0, 3)
        s = []
        for _ in range(k):
            s += draw_bytes(rng, rng.randrange(1000000, 1 << 20))
        s += [rng.randrange(256) for _ in range(rng.randrange(0, 3))]
        res.count("stream:exhausted")
    else:
        s = [rng.randrange(256) for _ in range(rng.randrange(0, 16))]
        res.count("stream:random-length")
    return s


def passkey_value(line):
    """(value, consumed) from '<hex16> <consumed>'; None for 'exhausted n'"""
    w = line.split()
    if len(w) != 2 or w[0] == "exhausted":
        return None
    return int.from_bytes(bytes.fromhex(w[0]), "little"), int(w[1])


def kv(line):
    return dict((k, int(v)) for k, v in (x.split("=") for x in line.split()))


def run_c38(ctx, replay_path=None):
    res = Result()
    res.rule = ("sessions = reset + `passkey <rng byte stream>` ops: create_passkey() of the real nRF52 toolbox with the emulated "
                "RNG delivering exactly these bytes, compared with the Lean model (returned array + number of RNG bytes consumed "
                "or `exhausted`); streams: structured (k rejected 20-bit draws, an accepted draw with boundary values 0/999999/"
                "1000000/2^20-1, unused tail), 3 random bytes, high bits set, prematurely ending, random length. Monitor "
                "(independent of the model): the little-endian value of every returned array is <= 999999; exhaustive scan of "
                "all 2^24 first draws b0 b1 b2 on the real code: no value > 999999 and all 10^6 passkeys equally often. "
                "Non-trivial = stream with a rejected draw, a boundary value or a value whose old-code reading exceeds 999999")
    rng = ctx.rng
    sessions = [ops for _, ops in ctx.corpus()]
    n_sessions = 400 if ctx.thorough else 60
    for _ in range(n_sessions):
        ops = ["reset"]
        for _ in range(rng.randrange(5, 40)):
            ops.append("passkey " + hx(gen_passkey_stream(rng, res)))
        sessions.append(ops)
    # scans compared with the model: all third bytes in the thorough tier, 12 of them in the quick one
    b2s = list(range(256)) if ctx.thorough else sorted(set([0x00, 0x0f, 0xff, 0xf0, 0x0e] + [rng.randrange(256) for _ in range(7)]))
    scan_ops = ["reset"] + ["passkeyscan %02x" % b for b in b2s] + ["passkeyhist"]
    sessions.append(scan_ops)
    impl, model, dis = ctx.run_pair(sessions)
    for d in dis:
        ops = sessions[d["session"]]
        if len(res.disagreements) < 1 and not ops[1].startswith("passkeyscan"):
            ops = ctx.shrink_disagreement(ops)
        res.disagreements.append(dict(d, ops=ops))

    def out_of_range(ops, outs, what_from):
        for k, (op, out) in enumerate(zip(ops, outs)):
            if op.startswith("passkey "):
                pv = passkey_value(out)
                if pv and pv[0] > 999999:
                    res.failures.append({"key": "C38:passkey-out-of-range",
                                         "what": "create_passkey() returned %d (> 999999) for the RNG bytes %s" % (pv[0], op.split()[1]),
                                         "ops": ["reset", op], "observed": out})
                    return
            elif op.startswith("passkeyscan"):
                st = kv(out)
                if st["outofrange"]:
                    res.failures.append({"key": "C38:passkey-out-of-range",
                                         "what": "%d of the 65536 RNG streams b0 b1 %s give a passkey > 999999" % (st["outofrange"], op.split()[1]),
                                         "ops": ["reset", op], "observed": out})
                    return

    for ops, r in zip(sessions, impl):
        res.sessions += 1
        res.evaluations += len(r["out"])
        if r["crash"]:
            res.failures.append({"key": "C38:crash:" + r["crash"].split(" @")[0], "what": r["crash"], "ops": ops})
        out_of_range(ops, r["out"], "pair")
        for op, out in zip(ops, r["out"]):
            if op.startswith("passkey "):
                stream = bytes.fromhex(op.split()[1]) if op.split()[1] != "-" else b""
                pv = passkey_value(out)
                res.count("result:" + ("passkey" if pv else "exhausted"))
                if pv and (pv[1] > 3 or pv[0] in (0, 999999) or int.from_bytes(stream[:3], "little") > 999999):
                    res.distinct.add(op)
                if pv and pv[1] > 3:
                    res.count("result:after-rejected-draw")
            elif op.startswith("passkeyscan"):
                res.evaluations += 65536
    # exhaustive scan of all first draws on the real code (both tiers); independent uniformity oracle
    full = ["reset"] + ["passkeyscan %02x" % b for b in range(256)] + ["passkeyhist"]
    if ctx.thorough:
        fr = impl[-1]
    else:
        fr = ctx.run_impl([full])[0]
        res.evaluations += 256 * 65536
        out_of_range(full, fr["out"], "scan")
    if fr["crash"] or len(fr["out"]) != len(full):
        res.failures.append({"key": "C38:crash:scan", "what": str(fr["crash"]), "ops": full})
    else:
        h = kv(fr["out"][-1])
        first = sum(kv(o)["first"] for o in fr["out"][1:-1])
        res.extra["exhaustive_first_draws"] = ("all 2^24 RNG triples on the real code: %d answered from the first draw, every passkey "
                                               "0..999999 produced by min=%d max=%d of them" % (first, h["min"], h["max"]))
        if h["min"] != h["max"] or h["min"] == 0:
            res.failures.append({"key": "C38:not-uniform",
                                 "what": "over all 2^24 first draws the passkeys 0..999999 are produced between %d and %d times" % (h["min"], h["max"]),
                                 "ops": full, "observed": fr["out"][-1]})
        res.exhaustive = True
    res.samples = [" ; ".join(s[:6]) for s in sessions[:3]]
    return res


PROPS = {
    "C38": dict(
        imports=["BluetoeModel.Crypto.PasskeyProps"],
        theorems=["BluetoeModel.Crypto.Passkey.passkey_lt_million",
                  "BluetoeModel.Crypto.Passkey.passkey_range_fixed",
                  "BluetoeModel.Crypto.Passkey.passkey_consumes_draws",
                  "BluetoeModel.Crypto.Passkey.passkey_exhausted_iff",
                  "BluetoeModel.Crypto.Passkey.passkey_terminates",
                  "BluetoeModel.Crypto.Passkey.draw_eq_iff",
                  "BluetoeModel.Crypto.Passkey.retarget_length",
                  "BluetoeModel.Crypto.Passkey.retarget_value",
                  "BluetoeModel.Crypto.Passkey.retarget_inverse"],
        witnesses=["BluetoeModel.Crypto.Passkey.passkey_old_witness"],
        run=run_c38,
        level="proof",
        technique="Lean 4 proof over all RNG byte streams (range, termination characterisation, uniformity by an explicit "
                  "stream bijection) about a model of the fixed create_passkey + differential correspondence with the real "
                  "nRF52 toolbox over an emulated RNG register + exhaustive scan of all 2^24 first draws on the real code",
        level_text="passkey_lt_million: for every RNG byte stream the returned 128-bit array has value <= 999999. "
                   "passkey_exhausted_iff / passkey_terminates: the rejection loop ends exactly when some complete 3-byte draw of the "
                   "stream is accepted (1 000 000 of 1 048 576 values). draw_eq_iff + retarget_*: each 20-bit value has exactly 16 "
                   "byte-triple pre-images and for any two passkeys v, w there is a length- and rest-preserving bijection between the "
                   "streams yielding v and those yielding w, i.e. uniform under i.i.d. uniform RNG bytes. The code at 193dfc0 returned "
                   "the three RNG bytes unchanged (passkey_old_witness: ff ff ff -> 16777215); fixed by fixes/crypto-01-passkey-range.patch.",
        level_note="Trusted: Lean kernel; the model equals the code as far as the differential check samples it (plus the exhaustive "
                   "first-draw scan); the hardware RNG is assumed to deliver independent uniformly distributed bytes (the probability "
                   "statement itself is not formalised, only the counting argument behind it).",
        design_ref="§5 C38",
        assumptions=["NRF_RNG delivers independent, uniformly distributed bytes",
                     "a passkey is the little-endian value of the returned uint128_t (as used by security_manager.hpp as TK)"],
    ),
}
